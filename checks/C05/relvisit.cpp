// C05 (relational + multi-visit part).
//
// Part "rel": the six relational operators of xtl::variant on ALL ordered pairs of states of
//     variant<Ind<0>, double, Ind<1>, Thrower>
// where Ind<K> is an element type whose six comparison operators are INDEPENDENT truth tables (none is derivable from
// another, so a variant operator that is re-expressed through a different element operator gives a different answer), double
// contributes genuinely unordered values (NaN) and signed zeros, and Thrower only exists to make a variant valueless.
// Oracle: [variant.relops] written out (valueless / index order / the element's OWN operator of the same name), cross-checked with
// libstdc++'s std::variant over the same element types in the same states.
//
// Part "visit": visit over 2 and 3 variants where one operand has MANY alternatives (more than one 32-case block of the switch
// based dispatcher, more than 64, optionally 260), for EVERY tuple of active indices and for a valueless operand in every position:
// the visitor must be called exactly once, with exactly the active alternatives (static types) and the very objects held
// (addresses), in operand order; a valueless operand means bad_variant_access and no call.
#include <xtl/xvariant.hpp>

#include "report.hpp"

#include <cmath>
#include <limits>
#include <utility>
#include <variant>

using vf::str;

// ---------------------------------------------------------------------------------------------------------------- rel
static inline bool tbl(int op, int k, int a, int b)
{
    // fixed, arbitrary, operator-specific truth tables over values 0..2 (an LCG-style mix; no structure shared between operators)
    unsigned x = unsigned(op) * 97u + unsigned(k) * 31u + unsigned(a) * 7u + unsigned(b) * 3u + 11u;
    x ^= x << 13; x ^= x >> 17; x ^= x << 5; x *= 2654435761u;
    return ((x >> 16) & 1u) != 0;
}
template <int K>
struct Ind
{
    int v;
    explicit Ind(int x) : v(x) {}
    friend bool operator==(const Ind& a, const Ind& b) { return tbl(0, K, a.v, b.v); }
    friend bool operator!=(const Ind& a, const Ind& b) { return tbl(1, K, a.v, b.v); }
    friend bool operator<(const Ind& a, const Ind& b) { return tbl(2, K, a.v, b.v); }
    friend bool operator>(const Ind& a, const Ind& b) { return tbl(3, K, a.v, b.v); }
    friend bool operator<=(const Ind& a, const Ind& b) { return tbl(4, K, a.v, b.v); }
    friend bool operator>=(const Ind& a, const Ind& b) { return tbl(5, K, a.v, b.v); }
};
struct Boom {};
struct Thrower
{
    Thrower() {}
    explicit Thrower(int) { throw Boom(); }
    Thrower(const Thrower&) {}
    friend bool operator==(const Thrower&, const Thrower&) { return true; }
    friend bool operator!=(const Thrower&, const Thrower&) { return false; }
    friend bool operator<(const Thrower&, const Thrower&) { return false; }
    friend bool operator>(const Thrower&, const Thrower&) { return false; }
    friend bool operator<=(const Thrower&, const Thrower&) { return true; }
    friend bool operator>=(const Thrower&, const Thrower&) { return true; }
};
typedef xtl::variant<Ind<0>, double, Ind<1>, Thrower> RX;
typedef std::variant<Ind<0>, double, Ind<1>, Thrower> RS;

struct RState { int index; int iv; double dv; std::string name; };   // index -1 = valueless

static std::vector<RState> rel_states()
{
    std::vector<RState> s;
    s.push_back({-1, 0, 0, "valueless"});
    for (int v = 0; v < 3; ++v) s.push_back({0, v, 0, "Ind<0>(" + str(v) + ")"});
    const double dv[] = {std::numeric_limits<double>::quiet_NaN(), 1.0, 2.0, -0.0, 0.0, std::numeric_limits<double>::infinity()};
    const char* dn[] = {"NaN", "1.0", "2.0", "-0.0", "+0.0", "inf"};
    for (int i = 0; i < 6; ++i) s.push_back({1, 0, dv[i], std::string("double(") + dn[i] + ")"});
    for (int v = 0; v < 3; ++v) s.push_back({2, v, 0, "Ind<1>(" + str(v) + ")"});
    s.push_back({3, 0, 0, "Thrower"});
    return s;
}
template <class V>
static void rel_make(V& v, const RState& s)
{
    switch (s.index)
    {
    case -1: try { v.template emplace<3>(1); } catch (const Boom&) {} break;
    case 0: v.template emplace<0>(s.iv); break;
    case 1: v.template emplace<1>(s.dv); break;
    case 2: v.template emplace<2>(s.iv); break;
    default: v.template emplace<3>(); break;
    }
}
static bool rel_rule(int op, const RState& a, const RState& b)
{
    const bool av = a.index < 0, bv = b.index < 0;
    if (a.index == b.index && !av)
    {
        switch (a.index)
        {
        case 0: return tbl(op, 0, a.iv, b.iv);
        case 2: return tbl(op, 1, a.iv, b.iv);
        case 1: switch (op) { case 0: return a.dv == b.dv; case 1: return a.dv != b.dv; case 2: return a.dv < b.dv; case 3: return a.dv > b.dv; case 4: return a.dv <= b.dv; default: return a.dv >= b.dv; }
        default: return op == 0 || op == 4 || op == 5;
        }
    }
    switch (op)
    {
    case 0: return av && bv;                                                     // ==  (different indices: false; both valueless: true)
    case 1: return !(av && bv);                                                  // !=
    case 2: if (bv) return false; if (av) return true; return a.index < b.index;   // <
    case 3: if (av) return false; if (bv) return true; return a.index > b.index;   // >
    case 4: if (av) return true; if (bv) return false; return a.index < b.index;   // <=
    default: if (bv) return true; if (av) return false; return a.index > b.index;  // >=
    }
}
static void run_rel()
{
    static const char* on[6] = {"==", "!=", "<", ">", "<=", ">="};
    const std::vector<RState> st = rel_states();
    long long n = 0, distinct_true = 0;
    for (const RState& a : st) for (const RState& b : st)
    {
        RX xa(mpark::in_place_index_t<3>{}), xb(mpark::in_place_index_t<3>{});
        RS sa(std::in_place_index_t<3>{}), sb(std::in_place_index_t<3>{});
        rel_make(xa, a); rel_make(xb, b); rel_make(sa, a); rel_make(sb, b);
        if (xa.valueless_by_exception() != (a.index < 0) || (a.index >= 0 && int(xa.index()) != a.index))
        { vf::violation("C05/rel/setup/state", "emplace did not produce the state " + a.name + " (index " + str(xa.index()) + ")", {"--part", "rel"}); continue; }
        const bool rx[6] = {xa == xb, xa != xb, xa < xb, xa > xb, xa <= xb, xa >= xb};
        const bool rs[6] = {sa == sb, sa != sb, sa < sb, sa > sb, sa <= sb, sa >= sb};
        for (int op = 0; op < 6; ++op)
        {
            ++n;
            const bool want = rel_rule(op, a, b);
            if (want) ++distinct_true;
            if (rs[op] != want)
            {
                std::printf("@@{\"t\":\"harness_error\",\"v\":\"std::variant disagrees with the written-out [variant.relops] rule on %s %s %s\"}\n", a.name.c_str(), on[op], b.name.c_str());
                continue;
            }
            if (rx[op] != want)
            {
                const char* cls = a.index < 0 || b.index < 0 ? "valueless-operand" : a.index != b.index ? "different-alternatives" : a.index == 1 ? "same-alternative-double" : "same-alternative-independent-operators";
                vf::violation(std::string("C05/rel/operator") + on[op] + "/" + cls,
                              "variant<Ind<0>,double,Ind<1>,Thrower>: " + a.name + " " + on[op] + " " + b.name + " is " + (rx[op] ? "true" : "false") + "; the element's own operator" + on[op] +
                              " / [variant.relops] (and std::variant) give " + (want ? "true" : "false"), {"--part", "rel"});
            }
        }
    }
    vf::stat("relational_evaluations", n);
    vf::stat("relational_expected_true", distinct_true);
    vf::stat("transitions", n);
    vf::stat("traces_validated_against_impl", n);
    vf::sample("rel: Ind<0>(1) <= Ind<0>(2) must be the element's own operator<= (independent truth table): " + std::string(tbl(4, 0, 1, 2) ? "true" : "false") + ", while !(Ind<0>(2) < Ind<0>(1)) would be " + (!tbl(2, 0, 2, 1) ? "true" : "false"), 8);
}

// -------------------------------------------------------------------------------------------------------------- visit
template <int G, int I>
struct A
{
    int v;
    explicit A(int x) : v(x) {}
};
#ifndef MID_N
#define MID_N 70
#endif
template <int G, class S> struct mkv;
template <int G, std::size_t... I> struct mkv<G, std::index_sequence<I...>> { typedef xtl::variant<A<G, int(I)>..., Thrower> type; };   // last alternative: to become valueless
typedef mkv<0, std::make_index_sequence<3>>::type Small0;
typedef mkv<1, std::make_index_sequence<MID_N>>::type Mid1;
typedef mkv<2, std::make_index_sequence<3>>::type Small2;
typedef mkv<3, std::make_index_sequence<MID_N>>::type Mid3;

struct Seen { int n; int g[3]; int i[3]; const void* p[3]; };
static Seen g_seen;
struct Rec
{
    template <int G, int I> static void note(const A<G, I>& a) { if (g_seen.n < 3) { g_seen.g[g_seen.n] = G; g_seen.i[g_seen.n] = I; g_seen.p[g_seen.n] = &a; } ++g_seen.n; }
    static void note(const Thrower& t) { if (g_seen.n < 3) { g_seen.g[g_seen.n] = -1; g_seen.i[g_seen.n] = -1; g_seen.p[g_seen.n] = &t; } ++g_seen.n; }
    template <class X, class Y> int operator()(const X& x, const Y& y) const { note(x); note(y); return 2; }
    template <class X, class Y, class Z> int operator()(const X& x, const Y& y, const Z& z) const { note(x); note(y); note(z); return 3; }
};

// emplace alternative number `idx` (run-time) of a variant with N A<G,*> alternatives; idx == N means "make it valueless"
template <class V, int G, std::size_t... I>
static void set_index(V& v, std::size_t idx, std::index_sequence<I...>)
{
    int d[] = {(idx == I ? (v.template emplace<I>(int(I) + 100), 0) : 0)...};
    (void)d;
    if (idx == sizeof...(I)) { try { v.template emplace<sizeof...(I)>(1); } catch (const Boom&) {} }
}
template <class V> struct nalt;
template <class... T> struct nalt<xtl::variant<T...>> { static const std::size_t value = sizeof...(T) - 1; };
template <class V, int G> static void set(V& v, std::size_t idx) { set_index<V, G>(v, idx, std::make_index_sequence<nalt<V>::value>()); }
template <class V> static const void* held(const V& v)
{
    // address of the held object, found without visit/get: every alternative A<G,I> is one int at the start of the storage
    return v.valueless_by_exception() ? nullptr : static_cast<const void*>(xtl::get_if<0>(&v) ? (const void*)xtl::get_if<0>(&v) : nullptr);
}

static long long g_visits = 0;
static std::string band(std::size_t i, std::size_t n) { return i == n ? "valueless" : i < 32 ? "index<32" : i < 64 ? "index32-63" : i < 256 ? "index64-255" : "index>=256"; }

template <class V1, int G1, class V2, int G2>
static void visit2(const char* shape)
{
    const std::size_t n1 = nalt<V1>::value, n2 = nalt<V2>::value;
    for (std::size_t i = 0; i <= n1; ++i) for (std::size_t j = 0; j <= n2; ++j)
    {
        V1 a(mpark::in_place_index_t<0>{}, 7); V2 b(mpark::in_place_index_t<0>{}, 7);
        set<V1, G1>(a, i); set<V2, G2>(b, j);
        g_seen = Seen();
        bool threw = false; int r = -1;
        try { r = xtl::visit(Rec(), a, b); } catch (const xtl::bad_variant_access&) { threw = true; }
        ++g_visits;
        const bool anyless = i == n1 || j == n2;
        const std::string sigp = std::string("C05/visit/") + shape + "/" + band(i, n1) + "," + band(j, n2) + "/";
        const std::string what = std::string("visit(f, ") + shape + ") with active indices (" + (i == n1 ? "valueless" : str(i)) + ", " + (j == n2 ? "valueless" : str(j)) + "): ";
        std::vector<std::string> rp = {"--part", "visit"};
        if (anyless)
        {
            if (!threw) vf::violation(sigp + "no-bad_variant_access", what + "an operand is valueless but visit did not throw bad_variant_access", rp);
            if (g_seen.n != 0) vf::violation(sigp + "visitor-called-on-valueless", what + "the visitor was called although an operand is valueless", rp);
            continue;
        }
        if (threw) { vf::violation(sigp + "threw", what + "visit threw bad_variant_access although no operand is valueless", rp); continue; }
        if (g_seen.n != 2 || r != 2) { vf::violation(sigp + "call-count", what + "the visitor received " + str(g_seen.n) + " arguments in total (expected one call with 2), result " + str(r), rp); continue; }
        if (g_seen.g[0] != G1 || g_seen.i[0] != int(i) || g_seen.g[1] != G2 || g_seen.i[1] != int(j))
            vf::violation(sigp + "wrong-alternative", what + "the visitor was called with alternatives (A<" + str(g_seen.g[0]) + "," + str(g_seen.i[0]) + ">, A<" + str(g_seen.g[1]) + "," + str(g_seen.i[1]) + ">)", rp);
        else if (g_seen.p[0] != static_cast<const void*>(&a) && static_cast<const A<G1, 0>*>(g_seen.p[0])->v != int(i) + 100)
            vf::violation(sigp + "wrong-object", what + "the first argument is not the object held by the first variant", rp);
        else if (static_cast<const A<G2, 0>*>(g_seen.p[1])->v != int(j) + 100)
            vf::violation(sigp + "wrong-object", what + "the second argument is not the object held by the second variant", rp);
    }
}
template <class V1, int G1, class V2, int G2, class V3, int G3>
static void visit3(const char* shape)
{
    const std::size_t n1 = nalt<V1>::value, n2 = nalt<V2>::value, n3 = nalt<V3>::value;
    for (std::size_t i = 0; i <= n1; ++i) for (std::size_t j = 0; j <= n2; ++j) for (std::size_t k = 0; k <= n3; ++k)
    {
        V1 a(mpark::in_place_index_t<0>{}, 7); V2 b(mpark::in_place_index_t<0>{}, 7); V3 c(mpark::in_place_index_t<0>{}, 7);
        set<V1, G1>(a, i); set<V2, G2>(b, j); set<V3, G3>(c, k);
        g_seen = Seen();
        bool threw = false; int r = -1;
        try { r = xtl::visit(Rec(), a, b, c); } catch (const xtl::bad_variant_access&) { threw = true; }
        ++g_visits;
        const bool anyless = i == n1 || j == n2 || k == n3;
        const std::string sigp = std::string("C05/visit/") + shape + "/" + band(i, n1) + "," + band(j, n2) + "," + band(k, n3) + "/";
        const std::string what = std::string("visit(f, ") + shape + ") with active indices (" + (i == n1 ? "valueless" : str(i)) + ", " + (j == n2 ? "valueless" : str(j)) + ", " + (k == n3 ? "valueless" : str(k)) + "): ";
        std::vector<std::string> rp = {"--part", "visit"};
        if (anyless)
        {
            if (!threw) vf::violation(sigp + "no-bad_variant_access", what + "an operand is valueless but visit did not throw bad_variant_access", rp);
            if (g_seen.n != 0) vf::violation(sigp + "visitor-called-on-valueless", what + "the visitor was called although an operand is valueless", rp);
            continue;
        }
        if (threw) { vf::violation(sigp + "threw", what + "visit threw bad_variant_access although no operand is valueless", rp); continue; }
        if (g_seen.n != 3 || r != 3) { vf::violation(sigp + "call-count", what + "the visitor received " + str(g_seen.n) + " arguments in total (expected one call with 3), result " + str(r), rp); continue; }
        if (g_seen.g[0] != G1 || g_seen.i[0] != int(i) || g_seen.g[1] != G2 || g_seen.i[1] != int(j) || g_seen.g[2] != G3 || g_seen.i[2] != int(k))
            vf::violation(sigp + "wrong-alternative", what + "the visitor was called with alternatives (A<" + str(g_seen.g[0]) + "," + str(g_seen.i[0]) + ">, A<" + str(g_seen.g[1]) + "," + str(g_seen.i[1]) + ">, A<" + str(g_seen.g[2]) + "," + str(g_seen.i[2]) + ">)", rp);
        else if (static_cast<const A<G1, 0>*>(g_seen.p[0])->v != int(i) + 100 || static_cast<const A<G2, 0>*>(g_seen.p[1])->v != int(j) + 100 || static_cast<const A<G3, 0>*>(g_seen.p[2])->v != int(k) + 100)
            vf::violation(sigp + "wrong-object", what + "an argument is not the object held by the corresponding variant", rp);
    }
}

static void run_visit()
{
    vf::install_crash_handler();
    vf::crash_hook() = [](const char* signame) {
        vf::violation("C05/visit/crash", std::string("the process died with ") + signame + " inside a multi-variant visit (after " + str(g_visits) + " visits of this run)", {"--part", "visit"});
    };
    visit2<Mid1, 1, Small2, 2>("many-alternatives, few");
    visit2<Small0, 0, Mid1, 1>("few, many-alternatives");
    visit3<Small0, 0, Mid1, 1, Small2, 2>("few, many-alternatives, few");
#ifdef VISIT_MIDMID
    visit2<Mid1, 1, Mid3, 3>("many-alternatives, many-alternatives");
#endif
    vf::stat("multi_visit_evaluations", g_visits);
    vf::stat("multi_visit_alternatives", MID_N);
    vf::stat("transitions", g_visits);
    vf::stat("traces_validated_against_impl", g_visits);
    vf::sample("visit(f, variant with " + str(MID_N) + "+1 alternatives holding #" + str(MID_N - 1) + ", variant<3+1> holding #2): visitor called once with (A<1," + str(MID_N - 1) + ">, A<2,2>)", 8);
}

int main(int argc, char** argv)
{
    std::string part = "all";
    for (int i = 1; i < argc; ++i) if (std::string(argv[i]) == "--part") part = argv[++i];
    if (part == "all" || part == "rel") run_rel();
    if (part == "all" || part == "visit") run_visit();
    vf::done();
    return 0;
}
