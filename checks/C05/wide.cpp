// C05 (wide part): a variant with 260 distinct alternatives. The active index must be representable and distinct from the
// valueless marker for EVERY alternative: for every index I of the variant the harness emplaces alternative I, then checks
// index(), valueless_by_exception(), holds_alternative, get<I>/get_if<I> and its neighbours, 1-variant visit, copy, move,
// assignment across far-apart indices and balanced construction/destruction.
#include <xtl/xvariant.hpp>

#include "report.hpp"

#include <utility>

static long g_live = 0, g_ctor = 0, g_dtor = 0;
template <int I>
struct W
{
    int v;
    explicit W(int x) : v(x) { ++g_live; ++g_ctor; }
    W(const W& o) : v(o.v) { ++g_live; ++g_ctor; }
    W(W&& o) noexcept : v(o.v) { o.v = -1; ++g_live; ++g_ctor; }
    W& operator=(const W& o) { v = o.v; return *this; }
    W& operator=(W&& o) noexcept { v = o.v; o.v = -1; return *this; }
    ~W() { --g_live; ++g_dtor; }
    static int id() { return I; }
    friend bool operator==(const W& a, const W& b) { return a.v == b.v; }
    friend bool operator!=(const W& a, const W& b) { return a.v != b.v; }
    friend bool operator<(const W& a, const W& b) { return a.v < b.v; }
    friend bool operator>(const W& a, const W& b) { return a.v > b.v; }
    friend bool operator<=(const W& a, const W& b) { return a.v <= b.v; }
    friend bool operator>=(const W& a, const W& b) { return a.v >= b.v; }
};

#ifndef WIDE_N
#define WIDE_N 260
#endif
template <class S> struct mk;
template <std::size_t... I> struct mk<std::index_sequence<I...>> { typedef xtl::variant<W<int(I)>...> type; };
typedef mk<std::make_index_sequence<WIDE_N>>::type V;

struct IdVisitor { template <int I> int operator()(const W<I>& w) const { return I * 1000 + w.v; } };

static long g_checks = 0;
static void fail(std::size_t I, const std::string& what, const std::string& msg)
{
    std::string band = I < 254 ? "index<254" : I == 254 ? "index=254" : I == 255 ? "index=255" : "index>=256";
    vf::violation("C05/wide" + vf::str(WIDE_N) + "/" + band + "/" + what, "variant with " + vf::str(WIDE_N) + " alternatives, alternative " + vf::str(I) + ": " + msg, {"--only", vf::str(I)});
}

template <std::size_t I>
static void one()
{
    const long live0 = g_live;
    {
        V v(mpark::in_place_index_t<0>{}, 7);
        auto& r = v.template emplace<I>(5);
        ++g_checks;
        if (v.valueless_by_exception()) fail(I, "valueless", "valueless_by_exception() is true after emplace<I>");
        if (v.index() != I) fail(I, "index", "index() returns " + vf::str(v.index()) + " after emplace<I>");
        if (!xtl::holds_alternative<W<int(I)>>(v)) fail(I, "holds_alternative", "holds_alternative<W<I>> is false");
        auto p = xtl::get_if<I>(&v);
        if (p == nullptr) fail(I, "get_if", "get_if<I> is null");
        else if (p != &r || p->v != 5) fail(I, "get_if", "get_if<I> does not designate the emplaced object");
        if (xtl::get_if<(I + 1) % WIDE_N>(&v) != nullptr) fail(I, "get_if", "get_if<I+1> is non-null");
        if (xtl::get_if<(I + WIDE_N - 1) % WIDE_N>(&v) != nullptr) fail(I, "get_if", "get_if<I-1> is non-null");
        if (xtl::get_if<(I + 256) % WIDE_N>(&v) != nullptr) fail(I, "get_if", "get_if<(I+256) mod N> is non-null");
        bool threw = false;
        try { if (xtl::get<I>(v).v != 5) fail(I, "get", "get<I> returns a wrong value"); } catch (const xtl::bad_variant_access&) { threw = true; }
        if (threw) fail(I, "get", "get<I> threw bad_variant_access");
        threw = false;
        int got = -1;
        try { got = xtl::visit(IdVisitor{}, v); } catch (const xtl::bad_variant_access&) { threw = true; }
        if (threw) fail(I, "visit", "visit threw bad_variant_access");
        else if (got != int(I) * 1000 + 5) fail(I, "visit", "visit called the visitor with alternative " + vf::str(got / 1000) + " value " + vf::str(got % 1000));
#ifdef WIDE_ALL
        {
            V c(v);
            if (c.index() != I || !xtl::get_if<I>(&c) || xtl::get_if<I>(&c)->v != 5) fail(I, "copy", "the copy holds index " + vf::str(c.index()));
            if (!(c == v) || c != v) fail(I, "relational", "a copy does not compare equal");
            V m(std::move(c));
            if (m.index() != I || !xtl::get_if<I>(&m) || xtl::get_if<I>(&m)->v != 5) fail(I, "move", "the moved-to variant holds index " + vf::str(m.index()));
            V a(mpark::in_place_index_t<1>{}, 3);
            a = v;
            if (a.index() != I || !xtl::get_if<I>(&a) || xtl::get_if<I>(&a)->v != 5) fail(I, "copy-assign", "after assignment from it the target holds index " + vf::str(a.index()));
            V b(mpark::in_place_index_t<(I + 256) % WIDE_N>{}, 4);
            if (b == v) fail(I, "relational", "variants holding alternatives I and (I+256) mod N compare equal");
            if ((b < v) == (v < b)) fail(I, "relational", "variants holding alternatives I and (I+256) mod N are not ordered by index");
            b.swap(a);
            if (b.index() != I || a.index() != (I + 256) % WIDE_N) fail(I, "swap", "swap of alternatives I and (I+256) mod N gives indices " + vf::str(b.index()) + ", " + vf::str(a.index()));
            a = std::move(b);
            if (a.index() != I || !xtl::get_if<I>(&a) || xtl::get_if<I>(&a)->v != 5) fail(I, "move-assign", "after move assignment the target holds index " + vf::str(a.index()));
        }
#else
        {
            V m(std::move(v));
            if (m.index() != I || !xtl::get_if<I>(&m) || xtl::get_if<I>(&m)->v != 5) fail(I, "move", "the moved-to variant holds index " + vf::str(m.index()));
        }
#endif
        if (g_live != live0 + 1) fail(I, "lifetime", vf::str(g_live - live0) + " objects alive while one variant exists");
    }
    if (g_live != live0) fail(I, "lifetime", vf::str(g_live - live0) + " object(s) still alive after the variant was destroyed (constructed " + vf::str(g_ctor) + ", destroyed " + vf::str(g_dtor) + ")");
}

template <std::size_t... I>
static void all(std::index_sequence<I...>, long only)
{
    int d[] = {((only < 0 || only == long(I)) ? (one<I>(), 0) : 0)...};
    (void)d;
}

int main(int argc, char** argv)
{
    long only = -1;
    for (int i = 1; i < argc; ++i) if (std::string(argv[i]) == "--only") only = atol(argv[++i]);
    vf::install_crash_handler();
#ifdef WIDE_ALL
    all(std::make_index_sequence<WIDE_N>(), only);
#else
    // the indices around every power-of-two boundary of a narrower index type, and the ends
    all(std::index_sequence<0, 1, 126, 127, 128, 129, 253, 254, 255, 256, 257, WIDE_N - 1>(), only);
#endif
    vf::stat("wide_alternatives", WIDE_N);
    vf::stat("wide_index_checks", g_checks);
    vf::note("C05/wide: " + vf::str(g_checks) + " of the " + vf::str(WIDE_N) + " alternatives emplaced and observed (index, valueless, get/get_if incl. neighbours and +256, visit, copy, move, assign, swap, lifetime balance)");
    vf::done();
    return 0;
}
