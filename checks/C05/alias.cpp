// C05 (aliasing-source part + greedy-alternative part), std::variant in lock-step.
//
// Part "alias": the source of an assignment / emplace lives INSIDE the variant that is assigned to (or the variant assigned to lives
// inside the source). The world is one tree  root = variant<E, Rec, Box>  where Rec has a member of type E and Box owns a child
// variant of the same type on the heap ("replace a node by one of its children", "v = get<Rec>(v).name"). For every tree shape up to
// a depth bound, EVERY variant node of the tree as the target x EVERY node of the tree (variant, held alternative, member of the
// held alternative) as the source x {lvalue, const lvalue, rvalue} x {operator=, emplace<I>, emplace<T>} x every class of E by
// (copy noexcept?, move noexcept?) is executed on a fresh tree, unfaulted and with the k-th throw point throwing for every k.
// Oracle: the same statement on the same tree built from libstdc++'s std::variant, plus the lifetime registry. [variant.assign] and
// [variant.mod] destroy the old alternative BEFORE they construct from the argument for some type classes (then an argument inside the
// old alternative is the caller's error); whether a case is inside the contract is therefore decided by std::variant itself: a case
// in which std::variant reads a destroyed object or leaks is counted as outside the contract and not judged. In every other case the
// implementation must not touch a destroyed object either, must produce the same tree, and all lifetimes must balance.
//
// Part "greedy": alternative sets that contain a type with a templated converting constructor that accepts anything, including
// the variant itself (std::any-like), at every position of the alternative list; all ordered pairs of states of two variants x every
// construction / assignment form (a = b with b non-const lvalue / const lvalue / rvalue, self-assignment, copy/move construction,
// converting assignment and construction from an lvalue / const lvalue / rvalue of each alternative type, swap, emplace of the greedy
// alternative from a variant), unfaulted and with every throw point; index(), holds_alternative, get, get_if, visit over one and two
// variants must agree with each other and with std::variant.
//
// The element types of this part keep their value inline and consult the registry BEFORE they touch their source, so that even a
// run that is outside the contract never dereferences freed memory.
#include <xtl/xvariant.hpp>

#include "report.hpp"
#include "payload.hpp"

#include <memory>
#include <type_traits>
#include <utility>
#include <variant>

using vf::str;

#ifndef ECLS
#define ECLS 1
#endif

// ------------------------------------------------------------------------------------------------------------ registry
static pl::Reg& R() { return pl::Reg::get(); }
static bool alive(const void* p, int tag)
{
    auto it = R().live.find(p);
    return it != R().live.end() && it->second == tag;
}
static void born(const void* p, int tag)
{
    if (R().live.count(p)) R().err("object constructed on an address that already holds a live object, type tag " + str(tag));
    R().live[p] = tag;
    ++R().constructed;
}
static void died(const void* p, int tag)
{
    auto it = R().live.find(p);
    if (it == R().live.end() || it->second != tag) R().err("destructor run on an object that is not alive (double destruction or never constructed), type tag " + str(tag));
    else R().live.erase(it);
    ++R().destroyed;
}
static bool src_ok(const void* p, int tag, const char* what)
{
    if (alive(p, tag)) return true;
    R().err(std::string(what) + " an object that is not alive (already destroyed or never constructed), type tag " + str(tag));
    return false;
}

struct BoomTag {};
struct Boomed {};

// NC: copy constructor / copy assignment noexcept (otherwise throw points); NM: move constructor / move assignment noexcept
template <int TAG, bool NC, bool NM>
struct Elem
{
    static const int tag = TAG;
    int v;
    bool mv;
    explicit Elem(int x) : v(x), mv(false) { born(this, TAG); }
    explicit Elem(BoomTag) : v(0), mv(false) { throw Boomed(); }
    Elem(const Elem& o) noexcept(NC) : v(-777), mv(false)
    {
        if (!NC) pl::throw_point("copy ctor");
        if (src_ok(&o, TAG, "copy-construction from")) v = o.v;
        born(this, TAG);
    }
    Elem(Elem&& o) noexcept(NM) : v(-777), mv(false)
    {
        if (!NM) pl::throw_point("move ctor");
        if (src_ok(&o, TAG, "move-construction from")) { v = o.v; o.mv = true; }
        born(this, TAG);
    }
    Elem& operator=(const Elem& o) noexcept(NC)
    {
        if (!NC) pl::throw_point("copy assign");
        if (src_ok(this, TAG, "copy-assignment to") && src_ok(&o, TAG, "copy-assignment from") && this != &o) { v = o.v; mv = false; }
        return *this;
    }
    Elem& operator=(Elem&& o) noexcept(NM)
    {
        if (!NM) pl::throw_point("move assign");
        if (src_ok(this, TAG, "move-assignment to") && src_ok(&o, TAG, "move-assignment from") && this != &o) { v = o.v; mv = false; o.mv = true; }
        return *this;
    }
    ~Elem() { died(this, TAG); }
    int value() const { return src_ok(this, TAG, "read of") ? v : -888; }
    bool moved_from() const { return alive(this, TAG) && mv; }
};

#if ECLS == 0
typedef Elem<20, true, true> E;
static const char* const ECLASS = "E: copy noexcept, move noexcept";
#elif ECLS == 1
typedef Elem<21, false, true> E;
static const char* const ECLASS = "E: copy may throw, move noexcept (std::string-like)";
#elif ECLS == 2
typedef Elem<22, false, false> E;
static const char* const ECLASS = "E: copy may throw, move may throw";
#else
typedef Elem<23, true, false> E;
static const char* const ECLASS = "E: copy noexcept, move may throw";
#endif

// ------------------------------------------------------------------------------------------------------------ the two libraries
struct XApi
{
    static const char* name() { return "xtl::variant"; }
    template <class... T> using variant = xtl::variant<T...>;
    typedef xtl::bad_variant_access bad_access;
    template <std::size_t I> using ipi = mpark::in_place_index_t<I>;
    template <class T> using ipt = mpark::in_place_type_t<T>;
    template <std::size_t I, class V> static auto get_if(V* v) { return xtl::get_if<I>(v); }
    template <class T, class V> static auto get_if_t(V* v) { return xtl::get_if<T>(v); }
    template <std::size_t I, class V> static decltype(auto) get(V& v) { return xtl::get<I>(v); }
    template <class T, class V> static decltype(auto) get_t(V& v) { return xtl::get<T>(v); }
    template <class T, class V> static bool holds(const V& v) { return xtl::holds_alternative<T>(v); }
    template <class F, class... V> static decltype(auto) visit(F&& f, V&&... v) { return xtl::visit(std::forward<F>(f), std::forward<V>(v)...); }
    static const bool is_impl = true;
};
struct SApi
{
    static const char* name() { return "std::variant"; }
    template <class... T> using variant = std::variant<T...>;
    typedef std::bad_variant_access bad_access;
    template <std::size_t I> using ipi = std::in_place_index_t<I>;
    template <class T> using ipt = std::in_place_type_t<T>;
    template <std::size_t I, class V> static auto get_if(V* v) { return std::get_if<I>(v); }
    template <class T, class V> static auto get_if_t(V* v) { return std::get_if<T>(v); }
    template <std::size_t I, class V> static decltype(auto) get(V& v) { return std::get<I>(v); }
    template <class T, class V> static decltype(auto) get_t(V& v) { return std::get<T>(v); }
    template <class T, class V> static bool holds(const V& v) { return std::holds_alternative<T>(v); }
    template <class F, class... V> static decltype(auto) visit(F&& f, V&&... v) { return std::visit(std::forward<F>(f), std::forward<V>(v)...); }
    static const bool is_impl = false;
};

struct Outcome
{
    bool applicable = true;
    bool threw = false;
    int points = 0;
    std::string statement;                 // the C++ statement that was executed, written out
    std::string before, after;             // whole world, with moved-from marks
    std::vector<std::string> allowed;      // without marks: what a touched variant may hold after a throw
    std::vector<std::string> touched_after;// without marks: what each touched variant holds afterwards
    std::vector<std::string> errs;         // lifetime registry / accessor disagreement
    std::string a_before, b_before, a_after, b_after;   // greedy part: the two operands, with marks
};
static void drain(Outcome& o, const char* phase)
{
    for (auto& s : R().errors) o.errs.push_back(std::string(phase) + ": " + s);
    R().errors.clear();
}
static std::string join(const std::vector<std::string>& v, const char* sep = "; ")
{
    std::string s;
    for (size_t i = 0; i < v.size(); ++i) { if (i) s += sep; s += v[i]; }
    return s;
}
static const char* const CATN[3] = {"lvalue", "const lvalue", "rvalue"};

// PART: 0 = both parts in one binary, 1 = only the aliasing part, 2 = only the greedy part (separate binaries build in parallel)
#ifndef PART
#define PART 0
#endif
// GCLS: -1 = every class of the greedy alternative in this binary, 0..2 = only that one
#ifndef GCLS
#define GCLS -1
#endif
#define G_ON(c) (GCLS < 0 || GCLS == (c))
static std::string g_current, g_current_case;

#if PART != 2
// ================================================================================================================ alias
static const int BOXTAG = 77;
struct Rec
{
    E e;
    explicit Rec(int x) : e(x) {}
};
// child variants live in an arena that is only recycled between cases: a run that is outside the contract (std::variant itself
// constructs from an object inside the alternative it has just destroyed) then still never touches freed memory; the registry
// is what knows which objects are alive
alignas(16) static unsigned char g_arena[1 << 16];
static size_t g_arena_used = 0;
template <class V, class... Args>
static V* arena_new(Args&&... args)
{
    const size_t sz = (sizeof(V) + 15) & ~size_t(15);
    if (g_arena_used + sz > sizeof g_arena) { std::printf("arena exhausted\n"); std::abort(); }
    void* p = g_arena + g_arena_used;
    g_arena_used += sz;
    return new (p) V(std::forward<Args>(args)...);
}
template <class V> static void arena_delete(V* p) { if (p) p->~V(); }
template <class A> struct Box;
template <class A> using TreeV = typename A::template variant<E, Rec, Box<A>>;
template <class A>
struct Box
{
    typedef TreeV<A> V;
    V* child;
    explicit Box(V* c) : child(c) { born(this, BOXTAG); }
    Box(const Box& o) : child(nullptr)
    {
        pl::throw_point("Box copy ctor");
        if (src_ok(&o, BOXTAG, "copy-construction from") && o.child) child = arena_new<V>(*o.child);
        born(this, BOXTAG);
    }
    Box(Box&& o) noexcept : child(nullptr)
    {
        if (src_ok(&o, BOXTAG, "move-construction from")) { child = o.child; o.child = nullptr; }
        born(this, BOXTAG);
    }
    // both assignments take what they need from the source before they release the old child (as std::unique_ptr does)
    Box& operator=(const Box& o)
    {
        pl::throw_point("Box copy assign");
        if (!src_ok(this, BOXTAG, "copy-assignment to") || !src_ok(&o, BOXTAG, "copy-assignment from") || this == &o) return *this;
        V* n = o.child ? arena_new<V>(*o.child) : nullptr;
        V* old = child;
        child = n;
        arena_delete(old);
        return *this;
    }
    Box& operator=(Box&& o) noexcept
    {
        if (!src_ok(this, BOXTAG, "move-assignment to") || !src_ok(&o, BOXTAG, "move-assignment from") || this == &o) return *this;
        V* n = o.child;
        o.child = nullptr;
        V* old = child;
        child = n;
        arena_delete(old);
        return *this;
    }
    ~Box()
    {
        const bool ok = alive(this, BOXTAG);
        died(this, BOXTAG);
        if (ok) arena_delete(child);
    }
};

template <class A>
struct AliasWorld
{
    typedef TreeV<A> V;
    typedef Box<A> B;
    struct Node { char kind; void* p; std::string path; };   // 'V' variant, 'E' element, 'R' Rec, 'B' Box

    // shape: a string of 'B's ended by 'E', 'R' or 'X' (valueless leaf); values 10 + depth
    static V* make(const std::string& shape, size_t pos = 0)
    {
        const int val = 10 + int(pos);
        const char c = shape[pos];
        if (c == 'E') return arena_new<V>(typename A::template ipi<0>{}, val);
        if (c == 'R') return arena_new<V>(typename A::template ipi<1>{}, val);
        if (c == 'X')
        {
            V* v = arena_new<V>(typename A::template ipi<0>{}, val);
            try { v->template emplace<0>(BoomTag{}); } catch (const Boomed&) {}
            return v;
        }
        V* child = make(shape, pos + 1);
        return arena_new<V>(typename A::template ipi<2>{}, child);
    }
    static void collect(V& v, const std::string& path, std::vector<Node>& out, int guard = 0)
    {
        out.push_back(Node{'V', &v, path});
        if (guard > 12 || v.valueless_by_exception()) return;
        if (E* e = A::template get_if<0>(&v)) out.push_back(Node{'E', e, "get<E>(" + path + ")"});
        else if (Rec* r = A::template get_if<1>(&v))
        {
            out.push_back(Node{'R', r, "get<Rec>(" + path + ")"});
            out.push_back(Node{'E', &r->e, "get<Rec>(" + path + ").e"});
        }
        else if (B* b = A::template get_if<2>(&v))
        {
            out.push_back(Node{'B', b, "get<Box>(" + path + ")"});
            if (b->child) collect(*b->child, "*get<Box>(" + path + ").child", out, guard + 1);
        }
    }
    static std::string ser_e(const E& e, bool marks) { return "E=" + str(e.value()) + (marks && e.moved_from() ? "(moved-from)" : ""); }
    static std::string ser_r(const Rec& r, bool marks) { return "Rec{" + ser_e(r.e, marks) + "}"; }
    static std::string ser_b(const B& b, bool marks, int guard)
    {
        if (!src_ok(&b, BOXTAG, "read of")) return "Box{<not alive>}";
        return "Box{" + (b.child ? ser(*b.child, marks, guard + 1) : std::string("null")) + "}";
    }
    static std::string ser(const V& v, bool marks, int guard = 0)
    {
        if (guard > 12) return "<deeper than 12>";
        if (v.valueless_by_exception()) return "valueless";
        if (const E* e = A::template get_if<0>(&v)) return ser_e(*e, marks);
        if (const Rec* r = A::template get_if<1>(&v)) return ser_r(*r, marks);
        if (const B* b = A::template get_if<2>(&v)) return ser_b(*b, marks, guard);
        return "<not valueless but no get_if<I> answers; index()=" + str(v.index()) + ">";
    }
    static std::string ser_node(const Node& n, bool marks)
    {
        switch (n.kind)
        {
        case 'V': return ser(*static_cast<const V*>(n.p), marks);
        case 'E': return ser_e(*static_cast<const E*>(n.p), marks);
        case 'R': return ser_r(*static_cast<const Rec*>(n.p), marks);
        default: return ser_b(*static_cast<const B*>(n.p), marks, 0);
        }
    }
    struct Which
    {
        int operator()(const E&) const { return 0; }
        int operator()(const Rec&) const { return 1; }
        int operator()(const B&) const { return 2; }
    };
    // index(), holds_alternative, get, get_if and visit of every variant node agree with each other
    static void accessors(V& v, const std::string& path, std::vector<std::string>& errs, int guard = 0)
    {
        const V& cv = v;
        const int idx = cv.valueless_by_exception() ? -1 : int(cv.index());
        if (cv.valueless_by_exception() != (cv.index() == std::size_t(-1))) errs.push_back(path + ": valueless_by_exception() and index() disagree");
        const bool g[3] = {A::template get_if<0>(&v) != nullptr, A::template get_if<1>(&v) != nullptr, A::template get_if<2>(&v) != nullptr};
        const bool h[3] = {A::template holds<E>(cv), A::template holds<Rec>(cv), A::template holds<B>(cv)};
        bool t[3] = {false, false, false};
        try { (void)A::template get<0>(v); } catch (const typename A::bad_access&) { t[0] = true; }
        try { (void)A::template get<1>(v); } catch (const typename A::bad_access&) { t[1] = true; }
        try { (void)A::template get<2>(v); } catch (const typename A::bad_access&) { t[2] = true; }
        for (int i = 0; i < 3; ++i)
            if (g[i] != (i == idx) || h[i] != (i == idx) || t[i] != (i != idx))
                errs.push_back(path + ": index() says " + (idx < 0 ? std::string("valueless") : str(idx)) + " but get_if<" + str(i) + "> " + (g[i] ? "answers" : "is null") + ", holds_alternative " + (h[i] ? "true" : "false") + ", get<" + str(i) + "> " + (t[i] ? "throws" : "does not throw"));
        int w = -2;
        try { w = A::visit(Which(), cv); } catch (const typename A::bad_access&) { w = -1; }
        if (w != idx) errs.push_back(path + ": visit reaches alternative " + str(w) + ", index() says " + str(idx));
        if (guard < 12 && idx == 2) { B& b = A::template get<2>(v); if (alive(&b, BOXTAG) && b.child) accessors(*b.child, "*get<Box>(" + path + ").child", errs, guard + 1); }
    }

    template <class Src>
    static void apply(V& t, Src& s, int cat, int form)
    {
        if constexpr (std::is_same<Src, V>::value)
        {
            if (cat == 0) t = s; else if (cat == 1) t = static_cast<const V&>(s); else t = std::move(s);
        }
        else
        {
            constexpr std::size_t I = std::is_same<Src, E>::value ? 0 : std::is_same<Src, Rec>::value ? 1 : 2;
            switch (form * 3 + cat)
            {
            case 0: t = s; break;
            case 1: t = static_cast<const Src&>(s); break;
            case 2: t = std::move(s); break;
            case 3: t.template emplace<I>(s); break;
            case 4: t.template emplace<I>(static_cast<const Src&>(s)); break;
            case 5: t.template emplace<I>(std::move(s)); break;
            case 6: t.template emplace<Src>(s); break;
            case 7: t.template emplace<Src>(static_cast<const Src&>(s)); break;
            default: t.template emplace<Src>(std::move(s)); break;
            }
        }
    }

    // target = ti-th variant node, source = si-th node (both in pre-order of the freshly built tree)
    static Outcome run(const std::string& shape, int ti, int si, int cat, int form, int fault)
    {
        Outcome o;
        R().reset();
        {
            g_arena_used = 0;
            struct Root { V* p; ~Root() { arena_delete(p); } V& operator*() const { return *p; } } root{make(shape)};
            std::vector<Node> nodes;
            collect(*root, "root", nodes);
            std::vector<int> vars;
            for (size_t i = 0; i < nodes.size(); ++i) if (nodes[i].kind == 'V') vars.push_back(int(i));
            if (ti >= int(vars.size()) || si >= int(nodes.size())) { o.applicable = false; return o; }
            const Node T = nodes[size_t(vars[size_t(ti)])], S = nodes[size_t(si)];
            if (S.kind == 'V' && form != 0) { o.applicable = false; return o; }
            // an rvalue source that CONTAINS the target: moving an object into its own sub-object makes it own itself (not enumerated)
            if (cat == 2 && (S.kind == 'V' || S.kind == 'B') && si < vars[size_t(ti)] && S.p != T.p) { o.applicable = false; return o; }
            const char* sname = S.kind == 'E' ? "E" : S.kind == 'R' ? "Rec" : "Box";
            const std::string sexpr = cat == 0 ? S.path : cat == 1 ? "as_const(" + S.path + ")" : "std::move(" + S.path + ")";
            const std::string idx = S.kind == 'E' ? "0" : S.kind == 'R' ? "1" : "2";
            o.statement = form == 0 ? T.path + " = " + sexpr + ";" : form == 1 ? "(" + T.path + ").emplace<" + idx + ">(" + sexpr + ");" : "(" + T.path + ").emplace<" + sname + ">(" + sexpr + ");";
            o.before = "root: " + ser(*root, true);
            o.allowed.push_back("valueless");
            o.allowed.push_back(ser_node(T, false));
            o.allowed.push_back(ser_node(S, false));
            V& t = *static_cast<V*>(T.p);
            R().countdown = fault;
            R().points = 0;
            try
            {
                pl::Arm arm;
                switch (S.kind)
                {
                case 'V': apply(t, *static_cast<V*>(S.p), cat, form); break;
                case 'E': apply(t, *static_cast<E*>(S.p), cat, form); break;
                case 'R': apply(t, *static_cast<Rec*>(S.p), cat, form); break;
                default: apply(t, *static_cast<B*>(S.p), cat, form); break;
                }
            }
            catch (const pl::Injected&) { o.threw = true; }
            o.points = R().points;
            R().countdown = 0;
            R().armed = false;
            drain(o, "during the statement");
            o.after = "root: " + ser(*root, true);
            o.touched_after.push_back(ser(t, false));
            accessors(*root, "root", o.errs);
            drain(o, "while reading the tree afterwards");
        }
        drain(o, "while destroying the tree");
        if (!R().live.empty()) o.errs.push_back(str(R().live.size()) + " tracked object(s) still alive after the tree was destroyed");
        if (R().constructed != R().destroyed) o.errs.push_back("constructed " + str(R().constructed) + " objects, destroyed " + str(R().destroyed));
        return o;
    }
};

static std::vector<std::string> shapes(int depth)
{
    std::vector<std::string> s;
    for (int d = 0; d <= depth; ++d) for (char leaf : {'E', 'R', 'X'}) s.push_back(std::string(size_t(d), 'B') + leaf);
    return s;
}

static long long g_cases = 0, g_in = 0, g_out = 0, g_fault_runs = 0, g_impl_runs = 0, g_skipped = 0;

static void alias_case(const std::string& shape, int ti, int si, int cat, int form, bool verbose)
{
    const std::string id = "e" + str(ECLS) + "|" + shape + "|" + str(ti) + "|" + str(si) + "|" + str(cat) + "|" + str(form);
    g_current_case = id;
    Outcome s = AliasWorld<SApi>::run(shape, ti, si, cat, form, 0);
    if (!s.applicable) { ++g_skipped; return; }
    ++g_cases;
    static const char* const FORMN[3] = {"operator=", "emplace<I>", "emplace<T>"};
    const std::string what = std::string(ECLASS) + "; tree of variant<E, Rec{E e;}, Box{variant* child;}> with " + s.before + "; statement `" + s.statement + "` (source: " + CATN[cat] + "): ";
    if (verbose) std::printf("std::variant: %s -> %s %s\n", s.statement.c_str(), s.after.c_str(), join(s.errs).c_str());
    if (!s.errs.empty() || s.threw)
    {
        // std::variant itself reads a destroyed object / leaks: the specification destroys first here, the aliasing argument is the caller's error
        ++g_out;
        if (verbose) std::printf("outside the contract (std::variant itself: %s)\n", join(s.errs).c_str());
        return;
    }
    ++g_in;
    const std::string sigp = "C05/alias/e" + str(ECLS) + "/" + FORMN[form] + "/" + CATN[cat] + "/";
    const std::vector<std::string> rp = {"--alias", id};
    Outcome x = AliasWorld<XApi>::run(shape, ti, si, cat, form, 0);
    ++g_impl_runs;
    if (verbose) std::printf("xtl::variant: %s -> %s %s\n", x.statement.c_str(), x.after.c_str(), join(x.errs).c_str());
    if (!x.errs.empty()) vf::violation(sigp + "lifetime", what + "std::variant executes it without touching a destroyed object and ends with " + s.after + "; xtl::variant ends with " + x.after + " and: " + join(x.errs), rp);
    else if (x.threw) vf::violation(sigp + "threw", what + "threw although no throw point was armed", rp);
    else if (x.after != s.after) vf::violation(sigp + "result", what + "expected (std::variant) " + s.after + ", got " + x.after, rp);
    if (!x.errs.empty() || x.threw) return;
    for (int k = 1; k <= x.points; ++k)
    {
        Outcome f = AliasWorld<XApi>::run(shape, ti, si, cat, form, k);
        ++g_fault_runs; ++g_impl_runs;
        if (verbose) std::printf("xtl::variant, throw point %d of %d: -> %s %s\n", k, x.points, f.after.c_str(), join(f.errs).c_str());
        const std::string fw = what + "with throw point " + str(k) + " of " + str(x.points) + " throwing: ";
        if (!f.threw) { vf::violation(sigp + "fault/not-propagated", fw + "the exception did not reach the caller", rp); continue; }
        if (!f.errs.empty()) { vf::violation(sigp + "fault/lifetime", fw + "afterwards " + f.after + " and: " + join(f.errs), rp); continue; }
        bool ok = false;
        for (auto& a : f.allowed) if (a == f.touched_after[0]) ok = true;
        if (!ok) vf::violation(sigp + "fault/state", fw + "the target holds " + f.touched_after[0] + ", which is neither valueless nor what the target (" + f.allowed[1] + ") or the source (" + f.allowed[2] + ") held before", rp);
    }
    return;
}

static void run_alias(int depth)
{
    for (auto& shape : shapes(depth))
        for (int ti = 0; ti <= depth; ++ti) for (int si = 0; si < 3 * (depth + 1) + 1; ++si)
            for (int cat = 0; cat < 3; ++cat) for (int form = 0; form < 3; ++form)
                alias_case(shape, ti, si, cat, form, false);
    vf::stat("alias_cases", g_cases);
    vf::stat("alias_cases_inside_contract", g_in);
    vf::stat("alias_cases_outside_contract_not_judged", g_out);
    vf::stat("alias_faulted_runs", g_fault_runs);
    vf::stat("alias_tree_shapes", (long long)shapes(depth).size());
    vf::stat("transitions", g_impl_runs);
    vf::stat("faulted_transitions", g_fault_runs);
    vf::stat("traces_validated_against_impl", g_impl_runs);
    vf::smax("alias_tree_depth", depth);
    vf::sample(std::string("alias e") + str(ECLS) + ": root: Box{Rec{E=11}}; `root = get<Rec>(*get<Box>(root).child).e;` judged against std::variant and the lifetime registry", 1 << 20);
}

#endif   // PART != 2

#if PART != 1
// ================================================================================================================ greedy
struct Desc { int kind; int val; };   // kind 1 int, 2 E, 9 a variant (val = its index, -1 valueless)
static Desc describe(const int& x) { return Desc{1, x}; }
static Desc describe(const E& e) { return Desc{2, e.value()}; }
template <class... Ts> static Desc describe(const mpark::variant<Ts...>& v) { return Desc{9, v.valueless_by_exception() ? -1 : int(v.index())}; }
template <class... Ts> static Desc describe(const std::variant<Ts...>& v) { return Desc{9, v.valueless_by_exception() ? -1 : int(v.index())}; }

// NCV: converting constructor, copy constructor and copy assignment noexcept (otherwise throw points); NM: move noexcept
template <int TAG, bool NCV, bool NM>
struct Greedy
{
    int kind, val;
    bool mv;
    template <class U, class D = std::decay_t<U>, std::enable_if_t<!std::is_same<D, Greedy>::value, int> = 0>
    Greedy(U&& u) noexcept(NCV) : kind(0), val(0), mv(false)
    {
        if (!NCV) pl::throw_point("converting ctor");
        Desc d = describe(u);
        kind = d.kind; val = d.val;
        born(this, TAG);
    }
    Greedy(const Greedy& o) noexcept(NCV) : kind(-7), val(-777), mv(false)
    {
        if (!NCV) pl::throw_point("copy ctor");
        if (src_ok(&o, TAG, "copy-construction from")) { kind = o.kind; val = o.val; }
        born(this, TAG);
    }
    Greedy(Greedy&& o) noexcept(NM) : kind(-7), val(-777), mv(false)
    {
        if (!NM) pl::throw_point("move ctor");
        if (src_ok(&o, TAG, "move-construction from")) { kind = o.kind; val = o.val; o.mv = true; }
        born(this, TAG);
    }
    Greedy& operator=(const Greedy& o) noexcept(NCV)
    {
        if (!NCV) pl::throw_point("copy assign");
        if (src_ok(this, TAG, "copy-assignment to") && src_ok(&o, TAG, "copy-assignment from") && this != &o) { kind = o.kind; val = o.val; mv = false; }
        return *this;
    }
    Greedy& operator=(Greedy&& o) noexcept(NM)
    {
        if (!NM) pl::throw_point("move assign");
        if (src_ok(this, TAG, "move-assignment to") && src_ok(&o, TAG, "move-assignment from") && this != &o) { kind = o.kind; val = o.val; mv = false; o.mv = true; }
        return *this;
    }
    ~Greedy() { died(this, TAG); }
    std::string s(bool marks) const
    {
        if (!src_ok(this, TAG, "read of")) return "G{<not alive>}";
        std::string r = kind == 1 ? "G{made from int " + str(val) + "}" : kind == 2 ? "G{made from E " + str(val) + "}" : kind == 9 ? "G{made from THE VARIANT, which held #" + str(val) + "}" : "G{?" + str(kind) + "," + str(val) + "}";
        return r + (marks && mv ? "(moved-from)" : "");
    }
};
template <int GC> struct GSel;
template <> struct GSel<0> { typedef Greedy<30, false, true> type; static const char* name() { return "G: converting constructor and copy may throw, move noexcept (std::any-like)"; } };
template <> struct GSel<1> { typedef Greedy<31, true, true> type; static const char* name() { return "G: everything noexcept"; } };
template <> struct GSel<2> { typedef Greedy<32, false, false> type; static const char* name() { return "G: converting constructor, copy and move may throw"; } };

template <class A, class G, int POS> struct GVar;
template <class A, class G> struct GVar<A, G, 0> { typedef typename A::template variant<G, int, E> type; static const char* name() { return "variant<G, int, E>"; } };
template <class A, class G> struct GVar<A, G, 1> { typedef typename A::template variant<int, G, E> type; static const char* name() { return "variant<int, G, E>"; } };
template <class A, class G> struct GVar<A, G, 2> { typedef typename A::template variant<int, E, G> type; static const char* name() { return "variant<int, E, G>"; } };

static const int G_OPS = 38;
static const char* gop_name(int op)
{
    static const char* n[G_OPS] = {
        "a = b;", "a = as_const(b);", "a = std::move(b);", "a = a;", "a = as_const(a);", "a = std::move(a);",
        "V c(b);", "V c(as_const(b));", "V c(std::move(b));",
        "int i = 7; a = i;", "int i = 7; a = as_const(i);", "int i = 7; a = std::move(i);",
        "E e(8); a = e;", "E e(8); a = as_const(e);", "E e(8); a = std::move(e);",
        "G g(9); a = g;", "G g(9); a = as_const(g);", "G g(9); a = std::move(g);",
        "int i = 7; V c(i);", "int i = 7; V c(as_const(i));", "int i = 7; V c(std::move(i));",
        "E e(8); V c(e);", "E e(8); V c(as_const(e));", "E e(8); V c(std::move(e));",
        "G g(9); V c(g);", "G g(9); V c(as_const(g));", "G g(9); V c(std::move(g));",
        "a.swap(b);", "swap(a, b);",
        "a.emplace<G>(b);", "a.emplace<G>(as_const(b));", "a.emplace<G>(std::move(b));",
        "V c(in_place_type<G>, b);", "V c(in_place_type<G>, as_const(b));", "V c(in_place_type<G>, std::move(b));",
        "a.emplace<index of G>(b);", "a.emplace<index of G>(as_const(b));", "a.emplace<index of G>(std::move(b));"};
    return n[op];
}

template <class A, int GC, int POS>
struct GreedyWorld
{
    typedef typename GSel<GC>::type G;
    typedef typename GVar<A, G, POS>::type V;
    static const std::size_t IG = POS;

    // states: 0 int 3 | 1 E 4 | 2 G made from int 5 | 3 G made from E 6 | 4 valueless | 5 G made from a variant (explicitly requested)
    // deep: 6 int 13 | 7 E 14 | 8 G made from int 15
    static const char* state_name(int st)
    {
        static const char* n[] = {"int 3", "E 4", "G made from int 5", "G made from E 6", "valueless", "G made from a variant", "int 13", "E 14", "G made from int 15"};
        return n[st];
    }
    static void make(V& v, int st)
    {
        switch (st)
        {
        case 0: v.template emplace<int>(3); break;
        case 1: v.template emplace<E>(4); break;
        case 2: v.template emplace<G>(5); break;
        case 3: { E e(6); v.template emplace<G>(e); break; }
        case 4: try { v.template emplace<E>(BoomTag{}); } catch (const Boomed&) {} break;
        case 5: { V o(typename A::template ipt<int>{}, 1); v.template emplace<G>(o); break; }
        case 6: v.template emplace<int>(13); break;
        case 7: v.template emplace<E>(14); break;
        default: v.template emplace<G>(15); break;
        }
    }
    static std::string body(const V& v, bool marks)
    {
        if (const int* i = A::template get_if_t<int>(&v)) return "int=" + str(*i);
        if (const E* e = A::template get_if_t<E>(&v)) return "E=" + str(e->value()) + (marks && e->moved_from() ? "(moved-from)" : "");
        if (const G* g = A::template get_if_t<G>(&v)) return g->s(marks);
        return "<no alternative answers get_if>";
    }
    static std::string obs(const V& v, bool marks)
    {
        if (v.valueless_by_exception()) return "valueless";
        return "#" + str(v.index()) + ":" + body(v, marks);
    }
    struct Show
    {
        std::string operator()(const int& i) const { return "int=" + str(i); }
        std::string operator()(const E& e) const { return "E=" + str(e.value()) + (e.moved_from() ? "(moved-from)" : ""); }
        std::string operator()(const G& g) const { return g.s(true); }
        template <class X, class Y> std::string operator()(const X& x, const Y& y) const { return (*this)(x) + " , " + (*this)(y); }
    };
    static void accessors(V& v, const char* who, std::vector<std::string>& errs)
    {
        const V& cv = v;
        const bool vl = cv.valueless_by_exception();
        if (vl != (cv.index() == std::size_t(-1))) errs.push_back(std::string(who) + ": valueless_by_exception() and index() disagree");
        const bool g[3] = {A::template get_if_t<int>(&v) != nullptr, A::template get_if_t<E>(&v) != nullptr, A::template get_if_t<G>(&v) != nullptr};
        const bool h[3] = {A::template holds<int>(cv), A::template holds<E>(cv), A::template holds<G>(cv)};
        bool t[3] = {false, false, false};
        try { (void)A::template get_t<int>(v); } catch (const typename A::bad_access&) { t[0] = true; }
        try { (void)A::template get_t<E>(v); } catch (const typename A::bad_access&) { t[1] = true; }
        try { (void)A::template get_t<G>(v); } catch (const typename A::bad_access&) { t[2] = true; }
        static const int pos[3][3] = {{1, 2, 0}, {0, 2, 1}, {0, 1, 2}};   // index of int, E, G for POS 0, 1, 2
        static const char* tn[3] = {"int", "E", "G"};
        int held = 0;
        for (int i = 0; i < 3; ++i)
        {
            const bool is = !vl && int(cv.index()) == pos[POS][i];
            held += g[i] ? 1 : 0;
            if (g[i] != is || h[i] != is || t[i] != !is)
                errs.push_back(std::string(who) + ": index() is " + (vl ? std::string("variant_npos") : str(cv.index())) + " but get_if<" + tn[i] + "> " + (g[i] ? "answers" : "is null") + ", holds_alternative<" + tn[i] + "> is " + (h[i] ? "true" : "false") + ", get<" + tn[i] + "> " + (t[i] ? "throws" : "does not throw"));
        }
        if (!vl)
        {
            bool gi = false;
            switch (cv.index()) { case 0: gi = A::template get_if<0>(&v) != nullptr; break; case 1: gi = A::template get_if<1>(&v) != nullptr; break; default: gi = A::template get_if<2>(&v) != nullptr; break; }
            if (!gi) errs.push_back(std::string(who) + ": get_if<index()> is null");
        }
        std::string vis = "threw";
        try { vis = A::visit(Show(), cv); } catch (const typename A::bad_access&) {}
        const std::string want = vl ? "threw" : body(cv, true);
        if (vis != want) errs.push_back(std::string(who) + ": visit sees " + vis + ", get_if sees " + want);
    }

    static void apply(V& a, V& b, std::unique_ptr<V>& c, int op)
    {
        int i = 7;
        switch (op)
        {
        case 0: a = b; return;
        case 1: a = static_cast<const V&>(b); return;
        case 2: a = std::move(b); return;
        case 3: a = a; return;
        case 4: a = static_cast<const V&>(a); return;
        case 5: a = std::move(a); return;
        case 6: c.reset(new V(b)); return;
        case 7: c.reset(new V(static_cast<const V&>(b))); return;
        case 8: c.reset(new V(std::move(b))); return;
        case 9: a = i; return;
        case 10: a = static_cast<const int&>(i); return;
        case 11: a = std::move(i); return;
        case 18: c.reset(new V(i)); return;
        case 19: c.reset(new V(static_cast<const int&>(i))); return;
        case 20: c.reset(new V(std::move(i))); return;
        case 27: a.swap(b); return;
        case 28: { using std::swap; swap(a, b); return; }
        case 29: a.template emplace<G>(b); return;
        case 30: a.template emplace<G>(static_cast<const V&>(b)); return;
        case 31: a.template emplace<G>(std::move(b)); return;
        case 32: c.reset(new V(typename A::template ipt<G>{}, b)); return;
        case 33: c.reset(new V(typename A::template ipt<G>{}, static_cast<const V&>(b))); return;
        case 34: c.reset(new V(typename A::template ipt<G>{}, std::move(b))); return;
        case 35: a.template emplace<IG>(b); return;
        case 36: a.template emplace<IG>(static_cast<const V&>(b)); return;
        case 37: a.template emplace<IG>(std::move(b)); return;
        default: break;
        }
        if (op >= 12 && op <= 14)
        {
            pl::Reg& r = R(); const bool was = r.armed; r.armed = false; E e(8); r.armed = was;
            if (op == 12) a = e; else if (op == 13) a = static_cast<const E&>(e); else a = std::move(e);
        }
        else if (op >= 15 && op <= 17)
        {
            pl::Reg& r = R(); const bool was = r.armed; r.armed = false; G g(9); r.armed = was;
            if (op == 15) a = g; else if (op == 16) a = static_cast<const G&>(g); else a = std::move(g);
        }
        else if (op >= 21 && op <= 23)
        {
            pl::Reg& r = R(); const bool was = r.armed; r.armed = false; E e(8); r.armed = was;
            if (op == 21) c.reset(new V(e)); else if (op == 22) c.reset(new V(static_cast<const E&>(e))); else c.reset(new V(std::move(e)));
        }
        else
        {
            pl::Reg& r = R(); const bool was = r.armed; r.armed = false; G g(9); r.armed = was;
            if (op == 24) c.reset(new V(g)); else if (op == 25) c.reset(new V(static_cast<const G&>(g))); else c.reset(new V(std::move(g)));
        }
    }
    static std::string requested(int op, const std::string& b_before)
    {
        if ((op >= 9 && op <= 11) || (op >= 18 && op <= 20)) return "int=7";
        if ((op >= 12 && op <= 14) || (op >= 21 && op <= 23)) return "E=8";
        if ((op >= 15 && op <= 17) || (op >= 24 && op <= 26)) return "G{made from int 9}";
        if (op >= 29) return "G{made from THE VARIANT, which held #" + (b_before == "valueless" ? std::string("-1") : b_before.substr(1, b_before.find(':') - 1)) + "}";
        return "";
    }
    static std::string strip(const std::string& o) { size_t p = o.find(':'); return (p == std::string::npos || o[0] != '#') ? o : o.substr(p + 1); }

    static Outcome run(int sa, int sb, int op, int fault)
    {
        Outcome o;
        R().reset();
        {
            V a(typename A::template ipt<int>{}, 0), b(typename A::template ipt<int>{}, 0);
            std::unique_ptr<V> c;
            make(a, sa); make(b, sb);
            R().errors.clear();
            o.statement = gop_name(op);
            o.before = "a: " + obs(a, true) + ", b: " + obs(b, true);
            o.a_before = obs(a, true); o.b_before = obs(b, true);
            o.allowed.push_back("valueless");
            o.allowed.push_back(strip(obs(a, false)));
            o.allowed.push_back(strip(obs(b, false)));
            const std::string rq = requested(op, obs(b, false));
            if (!rq.empty()) o.allowed.push_back(rq);
            R().countdown = fault;
            R().points = 0;
            try { pl::Arm arm; apply(a, b, c, op); }
            catch (const pl::Injected&) { o.threw = true; }
            o.points = R().points;
            R().countdown = 0;
            R().armed = false;
            drain(o, "during the statement");
            o.after = "a: " + obs(a, true) + ", b: " + obs(b, true) + (c ? ", c: " + obs(*c, true) : std::string());
            o.a_after = obs(a, true); o.b_after = obs(b, true);
            o.touched_after.push_back(strip(obs(a, false)));
            o.touched_after.push_back(strip(obs(b, false)));
            if (c) o.touched_after.push_back(strip(obs(*c, false)));
            accessors(a, "a", o.errs); accessors(b, "b", o.errs);
            if (c) accessors(*c, "c", o.errs);
            // visit over two variants agrees with what get_if sees in each
            std::string v2 = "threw";
            try { v2 = A::visit(Show(), static_cast<const V&>(a), static_cast<const V&>(b)); } catch (const typename A::bad_access&) {}
            const std::string want2 = (a.valueless_by_exception() || b.valueless_by_exception()) ? "threw" : body(a, true) + " , " + body(b, true);
            if (v2 != want2) o.errs.push_back("visit(f, a, b) sees (" + v2 + "), get_if sees (" + want2 + ")");
            o.after += "; visit(f, a, b): " + v2;
            drain(o, "while reading the variants afterwards");
        }
        drain(o, "while destroying the variants");
        if (!R().live.empty()) o.errs.push_back(str(R().live.size()) + " tracked object(s) still alive after every variant was destroyed");
        if (R().constructed != R().destroyed) o.errs.push_back("constructed " + str(R().constructed) + " objects, destroyed " + str(R().destroyed));
        return o;
    }
};

static long long q_cases = 0, q_fault_runs = 0, q_impl_runs = 0, q_sets = 0;

template <int GC, int POS>
static void greedy_case(int sa, int sb, int op, bool verbose)
{
    typedef GreedyWorld<XApi, GC, POS> XW;
    typedef GreedyWorld<SApi, GC, POS> SW;
    const std::string id = "e" + str(ECLS) + "|" + str(GC) + "|" + str(POS) + "|" + str(sa) + "|" + str(sb) + "|" + str(op);
    const std::vector<std::string> rp = {"--greedy", id};
    g_current_case = id;
    Outcome s = SW::run(sa, sb, op, 0);
    Outcome x = XW::run(sa, sb, op, 0);
    ++q_cases; ++q_impl_runs;
    const std::string setn = GVar<XApi, typename GSel<GC>::type, POS>::name();
    const std::string what = std::string("V = ") + setn + " (" + GSel<GC>::name() + "; " + ECLASS + "); " + s.before + "; statement `" + gop_name(op) + "`: ";
    const std::string sigp = "C05/greedy/" + setn + "/g" + str(GC) + "/" + gop_name(op) + "/";
    if (verbose) std::printf("std::variant: %s\n   %s %s\nxtl::variant: %s\n   %s %s\n", s.before.c_str(), s.after.c_str(), join(s.errs).c_str(), x.before.c_str(), x.after.c_str(), join(x.errs).c_str());
    if (!s.errs.empty() || s.threw) { vf::violation("C05/greedy/harness-std-variant", what + "std::variant itself: " + join(s.errs), rp); return; }
    if (x.before != s.before) { vf::violation(sigp + "setup", what + "the initial states differ: xtl::variant " + x.before, rp); return; }
    if (x.threw) { vf::violation(sigp + "threw", what + "threw although no throw point was armed", rp); return; }
    if (op == 27 || op == 28)
    {
        // [variant.swap] written out (the values are exchanged, a valueless operand included). Not taken from std::variant: libstdc++ 12
        // leaves the non-valueless operand unchanged when the other one is valueless, which is not what [variant.swap] says
        if (x.a_after != s.b_before || x.b_after != s.a_before) { vf::violation(sigp + "result", what + "expected ([variant.swap]) a: " + s.b_before + ", b: " + s.a_before + "; got " + x.after + (x.errs.empty() ? "" : "; " + join(x.errs)), rp); return; }
    }
    else if (x.after != s.after) { vf::violation(sigp + "result", what + "expected (std::variant) " + s.after + "; got " + x.after + (x.errs.empty() ? "" : "; " + join(x.errs)), rp); return; }
    if (!x.errs.empty()) { vf::violation(sigp + "accessors-or-lifetime", what + "ends with " + x.after + " and: " + join(x.errs), rp); return; }
    for (int k = 1; k <= x.points; ++k)
    {
        Outcome f = XW::run(sa, sb, op, k);
        ++q_fault_runs; ++q_impl_runs;
        if (verbose) std::printf("xtl::variant, throw point %d of %d: -> %s %s\n", k, x.points, f.after.c_str(), join(f.errs).c_str());
        const std::string fw = what + "with throw point " + str(k) + " of " + str(x.points) + " throwing: ";
        if (!f.threw) { vf::violation(sigp + "fault/not-propagated", fw + "the exception did not reach the caller", rp); continue; }
        if (!f.errs.empty()) { vf::violation(sigp + "fault/accessors-or-lifetime", fw + "afterwards " + f.after + " and: " + join(f.errs), rp); continue; }
        for (size_t i = 0; i < f.touched_after.size(); ++i)
        {
            bool ok = false;
            for (auto& a : f.allowed) if (a == f.touched_after[i]) ok = true;
            if (!ok) vf::violation(sigp + "fault/state", fw + "afterwards " + f.after + ": variant " + std::string(1, char('a' + int(i))) + " holds " + f.touched_after[i] + ", which is neither valueless nor held by an operand before nor requested by the call", rp);
        }
    }
}

template <int GC, int POS>
static void greedy_set(bool deep)
{
    const int ns = deep ? 9 : 6;
    for (int sa = 0; sa < ns; ++sa) for (int sb = 0; sb < ns; ++sb) for (int op = 0; op < G_OPS; ++op) greedy_case<GC, POS>(sa, sb, op, false);
    ++q_sets;
}
template <int GC>
static void greedy_class(bool deep) { greedy_set<GC, 0>(deep); greedy_set<GC, 1>(deep); greedy_set<GC, 2>(deep); }

static void run_greedy(bool deep)
{
#if G_ON(0)
    greedy_class<0>(deep);
#endif
#if G_ON(1)
    greedy_class<1>(deep);
#endif
#if G_ON(2)
    greedy_class<2>(deep);
#endif
    vf::stat("greedy_cases", q_cases);
    vf::stat("greedy_faulted_runs", q_fault_runs);
    vf::stat("greedy_alternative_sets", q_sets);
    vf::stat("transitions", q_impl_runs);
    vf::stat("faulted_transitions", q_fault_runs);
    vf::stat("traces_validated_against_impl", q_impl_runs);
    vf::sample(std::string("greedy e") + str(ECLS) + ": V = variant<int, E, G>; a: #0:int=3, b: #1:E=4; `a = b;` -> a: #1:E=4 (std::variant agrees; G's converting constructor not involved)", 1 << 20);
}

static void greedy_dispatch(int gc, int pos, int sa, int sb, int op)
{
    switch (gc * 3 + pos)
    {
#if G_ON(0)
    case 0: greedy_case<0, 0>(sa, sb, op, true); break;
    case 1: greedy_case<0, 1>(sa, sb, op, true); break;
    case 2: greedy_case<0, 2>(sa, sb, op, true); break;
#endif
#if G_ON(1)
    case 3: greedy_case<1, 0>(sa, sb, op, true); break;
    case 4: greedy_case<1, 1>(sa, sb, op, true); break;
    case 5: greedy_case<1, 2>(sa, sb, op, true); break;
#endif
#if G_ON(2)
    case 6: greedy_case<2, 0>(sa, sb, op, true); break;
    case 7: greedy_case<2, 1>(sa, sb, op, true); break;
    case 8: greedy_case<2, 2>(sa, sb, op, true); break;
#endif
    default: std::printf("this binary does not contain class %d of the greedy alternative\n", gc); break;
    }
}

#endif   // PART != 1

static std::vector<std::string> split(const std::string& s)
{
    std::vector<std::string> out;
    size_t p = 0;
    for (;;)
    {
        size_t q = s.find('|', p);
        out.push_back(s.substr(p, q == std::string::npos ? std::string::npos : q - p));
        if (q == std::string::npos) break;
        p = q + 1;
    }
    return out;
}

int main(int argc, char** argv)
{
    std::string part = "all";
    int depth = 2;
    bool deep = false;
    vf::install_crash_handler();
    vf::crash_hook() = [](const char* signame) {
        vf::violation("C05/" + g_current + "/crash", std::string("the process died with ") + signame + " while executing case " + g_current_case + " of part " + g_current + " (case id: element class | " +
                      (g_current == "alias" ? "tree shape | target variant node | source node | value category | form" : "class of G | position of G | state of a | state of b | operation") + ")", {"--" + g_current, g_current_case});
    };
    for (int i = 1; i < argc; ++i)
    {
        std::string a = argv[i];
        if (a == "--part") part = argv[++i];
        else if (a == "--depth") depth = atoi(argv[++i]);
        else if (a == "--deep") deep = true;
        else if (a == "--alias")
        {
            std::vector<std::string> f = split(argv[++i]);
            if (f.size() != 6 || f[0] != "e" + str(ECLS)) { std::printf("bad case id\n"); return 2; }
            g_current = "alias";
#if PART != 2
            alias_case(f[1], atoi(f[2].c_str()), atoi(f[3].c_str()), atoi(f[4].c_str()), atoi(f[5].c_str()), true);
#endif
            vf::done();
            return 0;
        }
        else if (a == "--greedy")
        {
            std::vector<std::string> f = split(argv[++i]);
            if (f.size() != 6 || f[0] != "e" + str(ECLS)) { std::printf("bad case id\n"); return 2; }
            g_current = "greedy";
#if PART != 1
            greedy_dispatch(atoi(f[1].c_str()), atoi(f[2].c_str()), atoi(f[3].c_str()), atoi(f[4].c_str()), atoi(f[5].c_str()));
#endif
            vf::done();
            return 0;
        }
    }
#if PART != 2
    if (part == "all" || part == "alias") { g_current = "alias"; run_alias(depth); }
#endif
#if PART != 1
    if (part == "all" || part == "greedy") { g_current = "greedy"; run_greedy(deep); }
#endif
    (void)depth; (void)deep;
    vf::done();
    return 0;
}
