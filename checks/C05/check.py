"""C05 xtl::variant: history explorer (E2) over two variants x every throw point, std::variant in lock-step; wide / relational / multi-visit /
aliasing-source / greedy-alternative parts (see NOTES.md)."""
import os
import vlib

LEVEL = "fault_enumeration"
HERE = os.path.dirname(os.path.abspath(__file__))
SRC = os.path.join(HERE, "harness.cpp")


def build(alt6=False, nv=2):
    """alt6: False = 4 alternatives, True = 6 alternatives with duplicates, "T" = 2 trivially destructible alternatives"""
    tag = "-altT" if alt6 == "T" else "-altA" if alt6 == "A" else "-altM" if alt6 == "M" else ("-alt6" if alt6 else "")
    defs = ["ALTT=1"] if alt6 == "T" else ["ALTA=1"] if alt6 == "A" else ["ALTM=1"] if alt6 == "M" else (["ALT6=1"] if alt6 else [])
    return vlib.compile_cxx(SRC, "c05" + tag + "-x%d" % nv, std="c++17", opt="-O1", san="asan-only", defines=defs + ["NVAR=%d" % nv])


WIDE = os.path.join(HERE, "wide.cpp")
WIDE_QUICK = {0, 1, 126, 127, 128, 129, 253, 254, 255, 256, 257, 259}


def build_wide(full):
    return vlib.compile_cxx(WIDE, "c05-wide" + ("-all" if full else ""), std="c++17", opt="-O0", san="none", defines=["WIDE_ALL=1"] if full else [])


RELVISIT = os.path.join(HERE, "relvisit.cpp")


def build_relvisit(mid=70, midmid=False):
    return vlib.compile_cxx(RELVISIT, "c05-relvisit-%d%s" % (mid, "-mm" if midmid else ""), std="c++17", opt="-O1", san="asan-only", defines=["MID_N=%d" % mid] + (["VISIT_MIDMID=1"] if midmid else []))


def relvisit_plan(tier):
    # (number of alternatives of the wide operand, also visit(wide, wide)?, harness args)
    if tier == "quick":
        return [(70, False, [])]
    return [(70, False, []), (130, False, ["--part", "visit"]), (40, True, ["--part", "visit"])]


ALIAS = os.path.join(HERE, "alias.cpp")
# classes of the element type E by (copy noexcept?, move noexcept?): 0 = (yes, yes), 1 = (no, yes) std::string-like, 2 = (no, no), 3 = (yes, no)
ALIAS_ECLS = (0, 1, 2, 3)
# classes of the greedy alternative G: 0 = converting constructor and copy may throw, move noexcept (std::any-like), 1 = everything noexcept, 2 = everything may throw
GREEDY_GCLS = (0, 1, 2)


def build_alias(ecls):
    return vlib.compile_cxx(ALIAS, "c05-alias-e%d" % ecls, std="c++17", opt="-O1", san="asan-only", defines=["ECLS=%d" % ecls, "PART=1"])


def build_greedy(ecls, gcls):
    return vlib.compile_cxx(ALIAS, "c05-greedy-e%d-g%d" % (ecls, gcls), std="c++17", opt="-O1", san="asan-only", defines=["ECLS=%d" % ecls, "PART=2", "GCLS=%d" % gcls])


def alias_plan(tier):
    """[(builder, harness args, tag)]: the aliasing part for every class of E (tree depth 2 quick / 4 thorough); the greedy part for
    every class of G x the throwing-copy classes of E (quick) / every class of E and 9 instead of 6 operand states (thorough)"""
    deep = tier != "quick"
    pl = [((lambda c=c: build_alias(c)), ["--depth", "4" if deep else "2"], "alias-e%d" % c) for c in ALIAS_ECLS]
    for c in (ALIAS_ECLS if deep else (1, 2)):
        for g in GREEDY_GCLS:
            pl.append(((lambda c=c, g=g: build_greedy(c, g)), ["--deep"] if deep else [], "greedy-e%d-g%d" % (c, g)))
    return pl


def plan(tier):
    # (six alternatives?, number of variants, extra args)
    if tier == "quick":
        return [(False, 2, []), (True, 2, ["--one-value"]), (False, 3, ["--one-value"]), ("T", 2, []), ("A", 2, []), ("M", 2, ["--one-value"])]
    return [(False, 2, []), (True, 2, []), (False, 3, []), (True, 3, ["--one-value"]), ("T", 3, []), ("A", 3, []), ("M", 2, [])]


def run(ctx):
    pl = plan(ctx.tier)
    rv = relvisit_plan(ctx.tier)
    ap = alias_plan(ctx.tier)
    built = vlib.parallel([(lambda p=p: build(p[0], p[1])) for p in pl] + [(lambda r=r: build_relvisit(r[0], r[1])) for r in rv] + [lambda: build_wide(ctx.tier != "quick")] + [a[0] for a in ap])
    bal = built[-len(ap):]
    built = built[:-len(ap)]
    bins, brv, bw = built[:len(pl)], built[len(pl):-1], built[-1]
    dl = str(int(max(60, ctx.time_left() - 30)))
    ctx.run_harness(bw, [], tag="wide")
    for b, r in zip(brv, rv):
        ctx.run_harness(b, r[2], tag="relvisit%d%s" % (r[0], "mm" if r[1] else ""))
    vlib.parallel([(lambda b=b, a=a: ctx.run_harness(b, a[1], tag=a[2])) for b, a in zip(bal, ap)])
    vlib.parallel([(lambda b=b, p=p: ctx.run_harness(b, p[2] + ["--deadline", dl], tag="altT" if p[0] == "T" else "altA" if p[0] == "A" else "altM" if p[0] == "M" else ("alt6" if p[0] else "alt4"))) for b, p in zip(bins, pl)])
    ctx.stats["evaluations"] = ctx.stats.get("transitions", 0)
    ctx.stats["distinct_nontrivial"] = ctx.stats.get("states", 0)
    ctx.rule = ("BFS over operation histories of two (and three) xtl::variant<Triv,NT,TH,Big> objects (Triv trivially copyable; NT nothrow-movable tracked; TH tracked with throwing copy, move and assignment; Big tracked 24 bytes) "
                "the 6-alternative variant<Triv,NT,TH,Big,TH,NT> with duplicate types (index-based access only) and variant<Triv,TT> whose alternatives are all trivially destructible while TT's converting constructor can throw after writing the storage, variant<Triv,NT,TM,Big> where TM has a nothrow move assignment but a throwing move constructor (every throw point of move assignment between different alternatives), variant<Triv,TA,TA',TA''> whose tracked alternatives have defaulted (trivial) copy/move assignment but registering constructors/destructors (the registry records which type was constructed at which address), plus a const third variant for 3-way visitation. WIDE part: a variant with 260 distinct alternatives; for the alternatives around 127/128, 255/256 and the ends (quick) / every alternative (thorough): emplace, index, valueless, holds_alternative, get/get_if incl. neighbours and index+256, visit, move (thorough also copy, assignment, swap, relational) and lifetime balance. RELATIONAL part (relvisit.cpp): all six operators on all ordered pairs of the 14 states of variant<Ind<0>,double,Ind<1>,Thrower> (valueless; Ind values 0..2 whose six comparison operators are independent truth tables, so an operator re-expressed through another one answers differently; double NaN, 1, 2, -0, +0, inf), oracle [variant.relops] written out and libstdc++ std::variant in the same states. MULTI-VISIT part: visit over 2 and 3 variants where one operand has 70 (quick; thorough also 130, and 40 x 40) alternatives, EVERY tuple of active indices and a valueless operand in every position: exactly one call, with the active alternatives and the held objects in operand order. State = history replayed on a fresh world, "
                "deduplicated by (index,value,moved-from) of both variants; to fixpoint. Alphabet: emplace<I>(args / copy / move), emplace<T>, converting assignment from lvalue/rvalue of every alternative, "
                "copy/move assignment incl. self, member and free swap incl. self, copy/move construction into a temporary and in place, recreate. FAULTS: each operation in each state unfaulted (counting K throw points) "
                "and then with the k-th throwing for every k=1..K. Oracle: fault-free = hand model cross-checked with std::variant in lock-step; faulted = the statement's rule (valueless or a fully constructed alternative "
                "that existed in an operand before or was requested; uninvolved variants unchanged); lifetime registry + ASan/LSan; in every new state index/valueless/holds_alternative/get/get_if/xget for every alternative, "
                "all 6 relational operators on all ordered pairs, visit over 1, 2 and 3 variants. distinct_nontrivial = distinct world states. "
                "ALIASING part (alias.cpp, PART=1): the source of an assignment / emplace lives INSIDE the variant assigned to (or the target inside the source): one tree root = variant<E, Rec{E e;}, Box{variant* child;}>, "
                "every shape B^d.{E,Rec,valueless} with d <= 2 (quick) / 4 (thorough) x EVERY variant node as target x EVERY node (variant, held alternative, member of the held alternative) as source x {lvalue, const lvalue, rvalue} x "
                "{operator=, emplace<I>, emplace<T>} x the four classes of E by (copy noexcept?, move noexcept?) incl. throwing copy + noexcept move (std::string-like), each on a fresh tree, unfaulted and with the k-th throw point "
                "(copy/move of E, copy of Box) throwing for every k; not enumerated: an rvalue source that contains the target. Oracle: the same statement on the same tree of libstdc++ std::variant + the lifetime registry "
                "(the element types consult the registry before they touch their source). A case in which std::variant ITSELF constructs from a destroyed object ([variant.assign]/[variant.mod] destroy first for that type class: the "
                "aliasing argument is the caller's error) is counted as outside the contract and not judged (alias_cases_outside_contract_not_judged); in every other case xtl must not touch a destroyed object, must end with "
                "the same tree (index, values, moved-from marks at every node), accessors of every node agree, lifetimes balance; after a throw the target is valueless or holds what it or the source held before. "
                "GREEDY part (alias.cpp, PART=2): alternative sets with a type G whose templated converting constructor accepts anything INCLUDING THE VARIANT (std::any-like), G at every position "
                "(variant<G,int,E>, <int,G,E>, <int,E,G>) x three classes of G (converting ctor/copy may throw + move noexcept; all noexcept; all may throw) x classes of E (quick: the two with a throwing copy; thorough: all four) x "
                "all ordered pairs of 6 (thorough 9) operand states (int, E, G made from int, G made from E, valueless, G made from a variant on explicit request) x 38 statements: a = b with b non-const lvalue / const lvalue / rvalue, "
                "the three self-assignments, copy/move construction from non-const lvalue / const lvalue / rvalue, converting assignment and converting construction from an lvalue / const lvalue / rvalue of each alternative type, "
                "member and free swap, emplace<G> / emplace<index of G> / in_place_type<G> construction from a variant; unfaulted and with every throw point. Oracle: std::variant in lock-step (index(), the held value and which "
                "kind of argument G was made from, for a, b and the constructed c; visit over (a,b)), [variant.swap] written out for swap; index()/holds_alternative/get/get_if/visit over one and two variants agree; "
                "lifetime registry; after a throw every operand is valueless or holds what an operand held before or what was requested")
    ctx.assumptions += [
        "relational operator semantics are hand-coded from [variant.relops]; fault-free alternative/value semantics are cross-checked against libstdc++ std::variant",
        "MPARK_VARIANT_SWITCH_VISIT is defined in every supported configuration, so the table-based visitation dispatcher is dead code and cannot be reached by any execution",
        "throw points are the copy/move constructors and assignments of TH; constructors from int never throw",
        "aliasing part: whether a self-aliasing statement is inside the contract is decided by executing it on libstdc++'s std::variant (it is outside when std::variant itself constructs from an object it has already destroyed); an rvalue source that contains the target (moving an object into its own sub-object) is not enumerated; child variants of the tree live in an arena that is recycled only between cases, so out-of-contract runs of std::variant never touch freed memory and ASan is not the oracle there (the registry is)",
        "greedy part: swap is judged against [variant.swap] written out, not against std::variant, because libstdc++ 12 leaves the non-valueless operand unchanged when the other operand is valueless; converting assignment/construction is only enumerated from objects whose type IS an alternative (no arithmetic conversions, where libstdc++ implements P0608 and mpark::variant does not)",
    ]


def replay(ctx, rec):
    if rec["args"] and rec["args"][0] in ("--alias", "--greedy"):
        # case id "e<class of E>|<class of G>|..." names the binary
        f = rec["args"][1].split("|")
        ctx.run_harness(build_alias(int(f[0][1:])) if rec["args"][0] == "--alias" else build_greedy(int(f[0][1:]), int(f[1])), rec["args"], tag="alias")
        return
    if rec["args"] and rec["args"][0] == "--part":
        ctx.run_harness(build_relvisit(), rec["args"], tag="relvisit")
        return
    if rec["args"] and rec["args"][0] == "--only":
        ctx.run_harness(build_wide(int(rec["args"][1]) not in WIDE_QUICK), rec["args"], tag="wide")
        return
    if not rec["args"] or rec["args"][0] == "--xget-only":
        ctx.run_harness(build(False, 2), ["--xget-only"], tag="c05")
        return
    inst = rec["args"][1]
    alt6 = "T" if inst.startswith("altT") else "A" if inst.startswith("altA") else "M" if inst.startswith("altM") else inst.startswith("alt6")
    nv = 3 if "x3" in inst else 2
    ctx.run_harness(build(alt6, nv), rec["args"], tag="c05")
