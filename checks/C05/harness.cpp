// C05: xtl::variant — history explorer with fault injection (engine E2); std::variant in lock-step on fault-free prefixes.
#include <xtl/xvariant.hpp>

#include "history.hpp"

#include <variant>

using vf::Errs;
using vf::str;

struct Triv
{
    int v;
    explicit Triv(int x = 0) : v(x) {}
    int value() const { return v; }
    bool moved_from() const { return false; }
    friend bool operator==(const Triv& a, const Triv& b) { return a.v == b.v; }
    friend bool operator!=(const Triv& a, const Triv& b) { return a.v != b.v; }
    friend bool operator<(const Triv& a, const Triv& b) { return a.v < b.v; }
    friend bool operator>(const Triv& a, const Triv& b) { return a.v > b.v; }
    friend bool operator<=(const Triv& a, const Triv& b) { return a.v <= b.v; }
    friend bool operator>=(const Triv& a, const Triv& b) { return a.v >= b.v; }
};
static_assert(std::is_trivially_copyable<Triv>::value, "");
#if defined(ALTA)
// all three tracked alternatives have DEFAULTED (trivial) copy/move assignment but registering constructors and destructors:
// the variant's assignment layers may be trivial only if construction and destruction are trivial too
typedef pl::TrivAssign<11> NT;
typedef pl::TrivAssign<12> TH;
typedef pl::TrivAssign<13> Big;
static_assert(std::is_trivially_move_assignable<NT>::value && std::is_trivially_copy_assignable<NT>::value && !std::is_trivially_move_constructible<NT>::value && !std::is_trivially_destructible<NT>::value, "payload shape");
#elif defined(ALTM)
// every alternative has a NOTHROW move assignment, but TH's move (and copy) constructor can throw: the variant's move assignment
// between different alternatives move-constructs, so it must not be noexcept and a throw there must leave it valueless
typedef pl::Tracked<11, 0,  true,  false, false, false> NT;
typedef pl::Tracked<12, 0,  false, true,  true,  true, alignof(void*), false, true> TH;
typedef pl::Tracked<13, 16, true,  false, false, false> Big;
static_assert(std::is_nothrow_move_assignable<TH>::value && !std::is_nothrow_move_constructible<TH>::value, "payload shape");
#else
//                    TAG PAD NT_MOVE TH_COPY TH_MOVE TH_ASSIGN
typedef pl::Tracked<11, 0,  true,  false, false, false> NT;    // nothrow-movable, tracked
typedef pl::Tracked<12, 0,  false, true,  true,  true>  TH;    // copy, move and assignment may throw
typedef pl::Tracked<13, 16, true,  false, false, false> Big;   // larger, nothrow
#endif

// trivially destructible AND trivially copyable, but its converting constructor can throw (after having written the storage)
struct TT
{
    int pad;
    int v;
    explicit TT(int x) : pad(0x5A5A5A), v(x) { pl::throw_point("TT(int)"); }
    int value() const { return v; }
    bool moved_from() const { return false; }
    friend bool operator==(const TT& a, const TT& b) { return a.v == b.v; }
    friend bool operator!=(const TT& a, const TT& b) { return a.v != b.v; }
    friend bool operator<(const TT& a, const TT& b) { return a.v < b.v; }
    friend bool operator>(const TT& a, const TT& b) { return a.v > b.v; }
    friend bool operator<=(const TT& a, const TT& b) { return a.v <= b.v; }
    friend bool operator>=(const TT& a, const TT& b) { return a.v >= b.v; }
};
static_assert(std::is_trivially_destructible<TT>::value && std::is_trivially_copyable<TT>::value, "");

#if defined(ALTT)
// every alternative trivially destructible: the variant then uses its trivial-destructor layer
typedef xtl::variant<Triv, TT> XV;
typedef std::variant<Triv, TT> SV;
static const int NALT = 2;
#elif defined(ALT6)
// six alternatives with duplicate types: only index-based access is well-formed
typedef xtl::variant<Triv, NT, TH, Big, TH, NT> XV;
typedef std::variant<Triv, NT, TH, Big, TH, NT> SV;
static const int NALT = 6;
#else
typedef xtl::variant<Triv, NT, TH, Big> XV;
typedef std::variant<Triv, NT, TH, Big> SV;
static const int NALT = 4;
#endif

static const char* aname(int i)
{
#ifdef ALTT
    static const char* n[] = {"Triv", "TT"};
#else
    static const char* n[] = {"Triv", "NT", "TH", "Big", "TH'", "NT'"};
#endif
    return i < 0 ? "valueless" : n[i];
}

struct MS   // model / observed state of one variant
{
    int index = 0;      // -1 valueless
    int value = 0;
    bool moved = false;
    bool operator==(const MS& o) const { return index == o.index && (index < 0 || (value == o.value && moved == o.moved)); }
    bool same_alt(const MS& o) const { return index == o.index && (index < 0 || value == o.value); }
    std::string s() const { return index < 0 ? "valueless" : std::string(aname(index)) + "=" + str(value) + (moved ? "(moved-from)" : ""); }
};

template <std::size_t I, class V> struct Rd;
struct ReadX
{
    template <std::size_t I> static bool at(const XV& v, MS& m)
    {
        auto p = xtl::get_if<I>(&v);
        if (!p) return false;
        m.index = int(I); m.value = p->value(); m.moved = p->moved_from();
        return true;
    }
};
struct ReadS
{
    template <std::size_t I> static bool at(const SV& v, MS& m)
    {
        auto p = std::get_if<I>(&v);
        if (!p) return false;
        m.index = int(I); m.value = p->value(); m.moved = p->moved_from();
        return true;
    }
};
template <class R, class V>
MS observe(const V& v)
{
    MS m;
    if (v.valueless_by_exception()) { m.index = -1; return m; }
    bool ok = R::template at<0>(v, m) || R::template at<1>(v, m)
#ifndef ALTT
              || R::template at<2>(v, m) || R::template at<3>(v, m)
#endif
#ifdef ALT6
              || R::template at<4>(v, m) || R::template at<5>(v, m)
#endif
        ;
    if (!ok) m.index = -2;   // inconsistent: not valueless but no alternative answers get_if
    return m;
}

#ifndef NVAR
#define NVAR 2
#endif
static const int NV = NVAR;

struct Visited { int n = 0; int tag[3]; int val[3]; };
struct Recorder
{
    Visited* out;
    template <class A> void one(int k, const A& a) const { out->tag[k] = tagof(a); out->val[k] = a.value(); }
    static int tagof(const Triv&) { return 0; }
    static int tagof(const NT&) { return 1; }
    static int tagof(const TH&) { return 2; }
    static int tagof(const Big&) { return 3; }
    static int tagof(const TT&) { return 1; }
    template <class A> int operator()(const A& a) const { out->n = 1; one(0, a); return 1; }
    template <class A, class B> int operator()(const A& a, const B& b) const { out->n = 2; one(0, a); one(1, b); return 2; }
    template <class A, class B, class C> int operator()(const A& a, const B& b, const C& c) const { out->n = 3; one(0, a); one(1, b); one(2, c); return 3; }
};
#ifdef ALTT
static const int THIRD_TAG = 0;
#else
static const int THIRD_TAG = 3;
#endif
static int alt_tag(int index) { static const int t[] = {0, 1, 2, 3, 2, 1}; return index < 0 ? -1 : t[index]; }

struct World
{
    alignas(16) unsigned char raw[NV][sizeof(XV)];
    MS m[NV];
    SV sv[NV];
    bool std_valid = true;
    XV* third;   // a const third variant for multi-visitation
    XV& v(int i) { return *reinterpret_cast<XV*>(raw[i]); }
    const XV& v(int i) const { return *reinterpret_cast<const XV*>(raw[i]); }
    World()
    {
        for (int i = 0; i < NV; ++i) { std::memset(raw[i], 0xA5, sizeof raw[i]); new (raw[i]) XV; m[i] = MS(); }
#ifdef ALTT
        third = new XV(mpark::in_place_index_t<0>{}, 7);
#else
        third = new XV(mpark::in_place_index_t<3>{}, 7);
#endif
    }
    ~World() { for (int i = 0; i < NV; ++i) v(i).~XV(); delete third; }
    World(const World&) = delete;

    std::string key() const
    {
        std::string k;
        for (int i = 0; i < NV; ++i) k += observe<ReadX>(v(i)).s() + " | ";
        return k;
    }

    void light(Errs& e)
    {
        for (int i = 0; i < NV; ++i)
        {
            MS o = observe<ReadX>(v(i));
            if (o.index == -2) { e.add("index", "variant#" + str(i) + " is not valueless but no get_if<I> answers; index()=" + str(v(i).index())); continue; }
            if (!(o == m[i])) e.add("state", "variant#" + str(i) + " holds " + o.s() + ", expected " + m[i].s());
            if (std_valid)
            {
                MS so = observe<ReadS>(sv[i]);
                if (!(so == m[i])) e.add("harness-std-variant", "std::variant#" + str(i) + " holds " + so.s() + " but the model says " + m[i].s());
            }
        }
    }

    template <std::size_t I>
    void check_get(int i, Errs& e)
    {
        XV& x = v(i);
        const XV& cx = v(i);
        const bool should = m[i].index == int(I);
        std::string who = "variant#" + str(i) + " (" + m[i].s() + ") ";
        if ((xtl::get_if<I>(&x) != nullptr) != should || (xtl::get_if<I>(&cx) != nullptr) != should) e.add("get_if", who + "get_if<" + str(I) + "> wrong");
        bool threw = false;
        int got = 0;
        try { got = xtl::get<I>(x).value(); } catch (const xtl::bad_variant_access&) { threw = true; }
        if (threw == should) e.add("get", who + "get<" + str(I) + ">(v) " + (threw ? "threw bad_variant_access" : "did not throw"));
        else if (should && got != m[i].value) e.add("get", who + "get<" + str(I) + "> returned " + str(got));
        threw = false;
        try { got = xtl::get<I>(cx).value(); } catch (const xtl::bad_variant_access&) { threw = true; }
        if (threw == should) e.add("get", who + "get<" + str(I) + ">(const v) " + (threw ? "threw" : "did not throw"));
        if (should && xtl::get_if<I>(&x) != &xtl::get<I>(x)) e.add("get", who + "get and get_if designate different objects");
    }
#ifndef ALT6
    template <class T, std::size_t I>
    void check_get_t(int i, Errs& e)
    {
        XV& x = v(i);
        const XV& cx = v(i);
        const bool should = m[i].index == int(I);
        std::string who = "variant#" + str(i) + " (" + m[i].s() + ") ";
        if (xtl::holds_alternative<T>(cx) != should) e.add("holds_alternative", who + "holds_alternative<" + aname(int(I)) + "> wrong");
        if ((xtl::get_if<T>(&x) != nullptr) != should) e.add("get_if", who + "get_if<T> wrong");
        bool threw = false;
        try { (void)xtl::get<T>(x).value(); } catch (const xtl::bad_variant_access&) { threw = true; }
        if (threw == should) e.add("get", who + "get<" + aname(int(I)) + ">(v) " + (threw ? "threw" : "did not throw"));
        threw = false;
        try { (void)xtl::xget<T>(cx).value(); } catch (const xtl::bad_variant_access&) { threw = true; }
        if (threw == should) e.add("xget", who + "xget<" + aname(int(I)) + ">(const v) " + (threw ? "threw" : "did not throw"));
        if (should && &xtl::xget<T>(x) != xtl::get_if<I>(&x)) e.add("xget", who + "xget<T> does not designate the held alternative");
    }
#endif

    static bool rel_expect(int op, const MS& a, const MS& b)
    {
        // [variant.relops]
        const bool av = a.index < 0, bv = b.index < 0;
        switch (op)
        {
        case 0: return a.index == b.index && (av || a.value == b.value);                              // ==
        case 1: return !(a.index == b.index && (av || a.value == b.value));                           // !=
        case 2: if (bv) return false; if (av) return true; if (a.index != b.index) return a.index < b.index; return a.value < b.value;    // <
        case 3: if (av) return false; if (bv) return true; if (a.index != b.index) return a.index > b.index; return a.value > b.value;    // >
        case 4: if (av) return true; if (bv) return false; if (a.index != b.index) return a.index < b.index; return a.value <= b.value;   // <=
        default: if (bv) return true; if (av) return false; if (a.index != b.index) return a.index > b.index; return a.value >= b.value;  // >=
        }
    }

    void check(Errs& e)
    {
        for (int i = 0; i < NV; ++i)
        {
            const XV& cx = v(i);
            std::string who = "variant#" + str(i) + " (" + m[i].s() + ") ";
            if (cx.valueless_by_exception() != (m[i].index < 0)) e.add("valueless", who + "valueless_by_exception() wrong");
            if (m[i].index >= 0 && cx.index() != std::size_t(m[i].index)) e.add("index", who + "index()=" + str(cx.index()));
            if (m[i].index < 0 && cx.index() != xtl::variant_npos) e.add("index", who + "index() of a valueless variant is not variant_npos");
            check_get<0>(i, e); check_get<1>(i, e);
#if defined(ALTT)
            check_get_t<Triv, 0>(i, e); check_get_t<TT, 1>(i, e);
#elif defined(ALT6)
            check_get<2>(i, e); check_get<3>(i, e);
            check_get<4>(i, e); check_get<5>(i, e);
#else
            check_get<2>(i, e); check_get<3>(i, e);
            check_get_t<Triv, 0>(i, e); check_get_t<NT, 1>(i, e); check_get_t<TH, 2>(i, e); check_get_t<Big, 3>(i, e);
#endif
            // visit over one variant
            Visited vis;
            bool threw = false;
            try { xtl::visit(Recorder{&vis}, cx); } catch (const xtl::bad_variant_access&) { threw = true; }
            if (threw != (m[i].index < 0)) e.add("visit1", who + "visit " + (threw ? "threw" : "did not throw"));
            else if (!threw && (vis.n != 1 || vis.tag[0] != alt_tag(m[i].index) || vis.val[0] != m[i].value)) e.add("visit1", who + "visit called the visitor with the wrong alternative/value");
        }
        // relational operators on (V0, V1) and (V1, V0), and on each with itself
        for (int a = 0; a < NV; ++a) for (int b = 0; b < NV; ++b)
        {
            const XV& x = v(a);
            const XV& y = v(b);
            bool r[6] = {x == y, x != y, x < y, x > y, x <= y, x >= y};
            static const char* on[6] = {"==", "!=", "<", ">", "<=", ">="};
            for (int op = 0; op < 6; ++op)
                if (r[op] != rel_expect(op, m[a], m[b])) e.add(std::string("relational") + on[op], "V" + str(a) + "(" + m[a].s() + ") " + on[op] + " V" + str(b) + "(" + m[b].s() + ") is " + (r[op] ? "true" : "false"));
        }
        // visit over two and three variants
        {
            Visited vis;
            bool threw = false;
            try { xtl::visit(Recorder{&vis}, v(0), v(1)); } catch (const xtl::bad_variant_access&) { threw = true; }
            const bool anyless = m[0].index < 0 || m[1].index < 0;
            if (threw != anyless) e.add("visit2", std::string("visit(V0,V1) ") + (threw ? "threw" : "did not throw") + " with " + m[0].s() + ", " + m[1].s());
            else if (!threw && (vis.n != 2 || vis.tag[0] != alt_tag(m[0].index) || vis.tag[1] != alt_tag(m[1].index) || vis.val[0] != m[0].value || vis.val[1] != m[1].value))
                e.add("visit2", "visit(V0,V1) called the visitor with the wrong alternatives for " + m[0].s() + ", " + m[1].s());
            threw = false;
            const XV& c3 = *third;
            try { xtl::visit(Recorder{&vis}, v(1), c3, v(0)); } catch (const xtl::bad_variant_access&) { threw = true; }
            if (threw != anyless) e.add("visit3", std::string("visit(V1,C,V0) ") + (threw ? "threw" : "did not throw"));
            else if (!threw && (vis.n != 3 || vis.tag[0] != alt_tag(m[1].index) || vis.tag[1] != THIRD_TAG || vis.val[1] != 7 || vis.tag[2] != alt_tag(m[0].index) || vis.val[2] != m[0].value || vis.val[0] != m[1].value))
                e.add("visit3", "visit over three variants called the visitor with the wrong alternatives");
        }
    }
};

typedef vf::HistoryExplorer<World> HX;

// After an injected throw: each touched variant must be valueless or hold a fully constructed alternative whose (index,value)
// was held by one of the operands before the call or was requested by it; untouched variants are unchanged.
static void judge_fault(World& w, Errs& e, const MS before[NV], const bool touched[NV], const std::vector<MS>& allowed_extra)
{
    for (int i = 0; i < NV; ++i)
    {
        MS o = observe<ReadX>(w.v(i));
        if (o.index == -2) { e.add("fault-index", "after the throw variant#" + str(i) + " is not valueless but holds no alternative"); continue; }
        if (!touched[i])
        {
            if (!(o == before[i])) e.add("fault-untouched", "after the throw the uninvolved variant#" + str(i) + " changed from " + before[i].s() + " to " + o.s());
        }
        else if (o.index >= 0)
        {
            bool ok = false;
            for (int j = 0; j < NV; ++j) if (touched[j] && o.same_alt(before[j])) ok = true;
            for (auto& x : allowed_extra) if (o.same_alt(x)) ok = true;
            if (!ok) e.add("fault-state", "after the throw variant#" + str(i) + " holds " + o.s() + ", which neither existed in an operand before the call nor was requested by it");
        }
        w.m[i] = o;   // continue from what is actually there
    }
    w.std_valid = false;
}

template <std::size_t I, class T>
void alt_ops(HX& hx, const std::vector<int>& values)
{
    for (int i = 0; i < NV; ++i) for (int val : values)
    {
        const std::string V = "V" + str(i), X = str(val), A = aname(int(I));
        hx.add_op("emplace<I>", V + ".emplace<" + str(I) + ">(" + X + ")", [i, val](World& w, Errs& e) {
            MS before[NV]; for (int q = 0; q < NV; ++q) before[q] = w.m[q];
            bool touched[NV]; for (int q = 0; q < NV; ++q) touched[q] = (q == i);
            try { pl::Arm arm; auto& r = w.v(i).template emplace<I>(val); if (&r != xtl::get_if<I>(&w.v(i))) e.add("return", "emplace does not return the new alternative"); }
            catch (const pl::Injected&) { judge_fault(w, e, before, touched, {MS{int(I), val, false}}); return true; }
            w.m[i] = MS{int(I), val, false};
            if (w.std_valid) w.sv[i].template emplace<I>(val);
            return true; });
        hx.add_op("emplace<I>(copy)", V + ".emplace<" + str(I) + ">(" + A + "(" + X + ")&)", [i, val](World& w, Errs& e) {
            MS before[NV]; for (int q = 0; q < NV; ++q) before[q] = w.m[q];
            bool touched[NV]; for (int q = 0; q < NV; ++q) touched[q] = (q == i);
            T lv(val);
            try { pl::Arm arm; w.v(i).template emplace<I>(lv); }
            catch (const pl::Injected&) { judge_fault(w, e, before, touched, {MS{int(I), val, false}}); return true; }
            w.m[i] = MS{int(I), val, false};
            if (w.std_valid) { T lv2(val); w.sv[i].template emplace<I>(lv2); }
            return true; });
        hx.add_op("emplace<I>(move)", V + ".emplace<" + str(I) + ">(" + A + "(" + X + ")&&)", [i, val](World& w, Errs& e) {
            MS before[NV]; for (int q = 0; q < NV; ++q) before[q] = w.m[q];
            bool touched[NV]; for (int q = 0; q < NV; ++q) touched[q] = (q == i);
            T lv(val);
            try { pl::Arm arm; w.v(i).template emplace<I>(std::move(lv)); }
            catch (const pl::Injected&) { judge_fault(w, e, before, touched, {MS{int(I), val, false}}); return true; }
            w.m[i] = MS{int(I), val, false};
            if (w.std_valid) { T lv2(val); w.sv[i].template emplace<I>(std::move(lv2)); }
            return true; });
#ifndef ALT6
        hx.add_op("emplace<T>", V + ".emplace<" + A + ">(" + X + ")", [i, val](World& w, Errs& e) {
            MS before[NV]; for (int q = 0; q < NV; ++q) before[q] = w.m[q];
            bool touched[NV]; for (int q = 0; q < NV; ++q) touched[q] = (q == i);
            try { pl::Arm arm; w.v(i).template emplace<T>(val); }
            catch (const pl::Injected&) { judge_fault(w, e, before, touched, {MS{int(I), val, false}}); return true; }
            w.m[i] = MS{int(I), val, false};
            if (w.std_valid) w.sv[i].template emplace<T>(val);
            return true; });
        hx.add_op("assign(lvalue)", V + "=" + A + "(" + X + ")&", [i, val](World& w, Errs& e) {
            MS before[NV]; for (int q = 0; q < NV; ++q) before[q] = w.m[q];
            bool touched[NV]; for (int q = 0; q < NV; ++q) touched[q] = (q == i);
            T lv(val);
            try { pl::Arm arm; XV& r = (w.v(i) = lv); if (&r != &w.v(i)) e.add("return", "operator= does not return *this"); }
            catch (const pl::Injected&) { judge_fault(w, e, before, touched, {MS{int(I), val, false}}); return true; }
            if (lv.value() != val || lv.moved_from()) e.add("source-modified", "assignment from an lvalue modified it");
            w.m[i] = MS{int(I), val, false};
            if (w.std_valid) { T lv2(val); w.sv[i] = lv2; }
            return true; });
        hx.add_op("assign(rvalue)", V + "=" + A + "(" + X + ")&&", [i, val](World& w, Errs& e) {
            MS before[NV]; for (int q = 0; q < NV; ++q) before[q] = w.m[q];
            bool touched[NV]; for (int q = 0; q < NV; ++q) touched[q] = (q == i);
            T lv(val);
            try { pl::Arm arm; w.v(i) = std::move(lv); }
            catch (const pl::Injected&) { judge_fault(w, e, before, touched, {MS{int(I), val, false}}); return true; }
            w.m[i] = MS{int(I), val, false};
            if (w.std_valid) { T lv2(val); w.sv[i] = std::move(lv2); }
            return true; });
#endif
    }
}

#if defined(ALTT) || defined(ALTA)
static bool tracked_alt(int) { return false; }             // both alternatives are trivially copyable: a move is a copy
#else
static bool tracked_alt(int index) { return index > 0; }   // every alternative but Triv records "moved-from"
#endif

static void build_ops(HX& hx, const std::vector<int>& values)
{
#ifdef ALTT
    alt_ops<0, Triv>(hx, values); alt_ops<1, TT>(hx, values);
#else
    alt_ops<0, Triv>(hx, values); alt_ops<1, NT>(hx, values); alt_ops<2, TH>(hx, values); alt_ops<3, Big>(hx, values);
#endif
#ifdef ALT6
    alt_ops<4, TH>(hx, values); alt_ops<5, NT>(hx, values);
#endif
    for (int i = 0; i < NV; ++i)
    {
        const std::string V = "V" + str(i);
        hx.add_op("recreate", V + ":=variant()", [i](World& w, Errs&) {
            w.v(i).~XV(); new (w.raw[i]) XV; w.m[i] = MS();
            if (w.std_valid) w.sv[i] = SV();
            return true; });
        hx.add_op("copy-to-temp", "{variant t(" + V + ");}", [i](World& w, Errs& e) {
            MS before[NV]; for (int q = 0; q < NV; ++q) before[q] = w.m[q];
            bool touched[NV]; for (int q = 0; q < NV; ++q) touched[q] = false;
            try
            {
                pl::Arm arm;
                XV t(w.v(i));
                MS o = observe<ReadX>(t);
                if (!o.same_alt(w.m[i])) e.add("copy", "copy holds " + o.s() + ", source " + w.m[i].s());
                if (o.index > 0 && (void*)xtl::get_if<1>(&t) == (void*)xtl::get_if<1>(&w.v(i)) && o.index == 1) e.add("copy", "copy shares its element with the source");
            }
            catch (const pl::Injected&) { judge_fault(w, e, before, touched, {}); return true; }
            return true; });
        hx.add_op("move-to-temp", "{variant t(move(" + V + "));}", [i](World& w, Errs& e) {
            MS before[NV]; for (int q = 0; q < NV; ++q) before[q] = w.m[q];
            bool touched[NV]; for (int q = 0; q < NV; ++q) touched[q] = (q == i);
            try
            {
                pl::Arm arm;
                XV t(std::move(w.v(i)));
                MS o = observe<ReadX>(t);
                if (!o.same_alt(w.m[i])) e.add("move", "move-constructed variant holds " + o.s() + ", source held " + w.m[i].s());
            }
            catch (const pl::Injected&) { judge_fault(w, e, before, touched, {}); return true; }
            if (tracked_alt(w.m[i].index)) w.m[i].moved = true;
            if (w.std_valid) { SV t(std::move(w.sv[i])); }
            return true; });
        for (int j = 0; j < NV; ++j)
        {
            const std::string W = "V" + str(j);
            hx.add_op("copy-assign", V + "=" + W, [i, j](World& w, Errs& e) {
                MS before[NV]; for (int q = 0; q < NV; ++q) before[q] = w.m[q];
                bool touched[NV]; for (int q = 0; q < NV; ++q) touched[q] = (q == i || q == j);
                try { pl::Arm arm; XV& r = (w.v(i) = w.v(j)); if (&r != &w.v(i)) e.add("return", "operator= does not return *this"); }
                catch (const pl::Injected&) { judge_fault(w, e, before, touched, {}); if (!(observe<ReadX>(w.v(j)) == before[j]) && i != j) e.add("fault-source", "a throwing copy-assignment changed its source"); return true; }
                w.m[i] = w.m[j];
                if (w.std_valid) w.sv[i] = w.sv[j];
                return true; });
            hx.add_op("swap", V + ".swap(" + W + ")", [i, j](World& w, Errs& e) {
                MS before[NV]; for (int q = 0; q < NV; ++q) before[q] = w.m[q];
                bool touched[NV]; for (int q = 0; q < NV; ++q) touched[q] = (q == i || q == j);
                try { pl::Arm arm; w.v(i).swap(w.v(j)); }
                catch (const pl::Injected&) { judge_fault(w, e, before, touched, {}); return true; }
                if (i != j) { std::swap(w.m[i], w.m[j]); w.m[i].moved = false; w.m[j].moved = false; if (before[j].moved) w.m[i].moved = true; if (before[i].moved) w.m[j].moved = true; }
                if (w.std_valid) w.sv[i].swap(w.sv[j]);
                return true; });
            if (i < j) hx.add_op("swap(free)", "swap(" + V + "," + W + ")", [i, j](World& w, Errs& e) {
                MS before[NV]; for (int q = 0; q < NV; ++q) before[q] = w.m[q];
                bool touched[NV]; for (int q = 0; q < NV; ++q) touched[q] = (q == i || q == j);
                try { pl::Arm arm; using std::swap; swap(w.v(i), w.v(j)); }
                catch (const pl::Injected&) { judge_fault(w, e, before, touched, {}); return true; }
                std::swap(w.m[i], w.m[j]);
                if (w.std_valid) { using std::swap; swap(w.sv[i], w.sv[j]); }
                return true; });
            if (i == j) continue;
            hx.add_op("move-assign", V + "=move(" + W + ")", [i, j](World& w, Errs& e) {
                MS before[NV]; for (int q = 0; q < NV; ++q) before[q] = w.m[q];
                bool touched[NV]; for (int q = 0; q < NV; ++q) touched[q] = (q == i || q == j);
                try { pl::Arm arm; w.v(i) = std::move(w.v(j)); }
                catch (const pl::Injected&) { judge_fault(w, e, before, touched, {}); return true; }
                w.m[i] = w.m[j];
                w.m[i].moved = before[j].moved;
                if (tracked_alt(w.m[j].index)) w.m[j].moved = true;
                if (w.std_valid) w.sv[i] = std::move(w.sv[j]);
                return true; });
            hx.add_op("copy-construct", V + ":=variant(" + W + ")", [i, j](World& w, Errs& e) {
                MS before[NV]; for (int q = 0; q < NV; ++q) before[q] = w.m[q];
                bool touched[NV]; for (int q = 0; q < NV; ++q) touched[q] = (q == i);
                w.v(i).~XV();
                try { pl::Arm arm; new (w.raw[i]) XV(w.v(j)); }
                catch (const pl::Injected&) { new (w.raw[i]) XV; MS b2[NV]; for (int q = 0; q < NV; ++q) b2[q] = before[q]; b2[i] = MS(); judge_fault(w, e, b2, touched, {MS()}); return true; }
                w.m[i] = w.m[j];
                if (w.std_valid) w.sv[i] = SV(w.sv[j]);
                return true; });
            hx.add_op("move-construct", V + ":=variant(move(" + W + "))", [i, j](World& w, Errs& e) {
                MS before[NV]; for (int q = 0; q < NV; ++q) before[q] = w.m[q];
                bool touched[NV]; for (int q = 0; q < NV; ++q) touched[q] = (q == i || q == j);
                w.v(i).~XV();
                try { pl::Arm arm; new (w.raw[i]) XV(std::move(w.v(j))); }
                catch (const pl::Injected&) { new (w.raw[i]) XV; MS b2[NV]; for (int q = 0; q < NV; ++q) b2[q] = before[q]; b2[i] = MS(); judge_fault(w, e, b2, touched, {MS()}); return true; }
                w.m[i] = w.m[j];
                if (tracked_alt(w.m[j].index)) w.m[j].moved = true;
                if (w.std_valid) w.sv[i] = SV(std::move(w.sv[j]));
                return true; });
        }
    }
}

// alternative sets that contain BOTH closure flavours of one type: every accessor must agree with the alternative that is held
template <class CV>
static long xget_both_flavours(const char* set)
{
    long n = 0;
    int x = 5;
    const std::string S = std::string("C05/xget/closure-set{") + set + "}/";
    auto thrown = [](auto&& f) { try { f(); } catch (const xtl::bad_variant_access&) { return true; } return false; };
    {
        // holds the const closure
        CV v(xtl::closure(static_cast<const int&>(x)));
        const CV& cv = v;
        if (!xtl::holds_alternative<xtl::xclosure_wrapper<const int&>>(v)) vf::violation(S + "holds-const/holds_alternative", "the variant does not report the const closure it was built from", {"--xget-only"});
        if (thrown([&] { (void)xtl::xget<const int&>(v); })) vf::violation(S + "holds-const/xget<const T&>/throws", "xget<const int&>(variant&) throws although the variant holds xclosure_wrapper<const int&>", {"--xget-only"});
        else if (&xtl::xget<const int&>(v) != &x) vf::violation(S + "holds-const/xget<const T&>/referent", "xget<const int&> does not designate the wrapped lvalue", {"--xget-only"});
        if (thrown([&] { (void)xtl::xget<const int&>(cv); })) vf::violation(S + "holds-const/xget<const T&>(const)/throws", "xget<const int&>(const variant&) throws although the variant holds xclosure_wrapper<const int&>", {"--xget-only"});
        else if (&xtl::xget<const int&>(cv) != &x) vf::violation(S + "holds-const/xget<const T&>(const)/referent", "xget<const int&>(const variant&) does not designate the wrapped lvalue", {"--xget-only"});
        { CV t(v); if (thrown([&] { (void)xtl::xget<const int&>(std::move(t)); })) vf::violation(S + "holds-const/xget<const T&>(rvalue)/throws", "xget<const int&>(variant&&) throws although the variant holds xclosure_wrapper<const int&>", {"--xget-only"}); }
        if (!thrown([&] { (void)xtl::xget<int&>(v); })) vf::violation(S + "holds-const/xget<T&>/no-throw", "xget<int&> succeeds although the variant holds the CONST closure (another alternative)", {"--xget-only"});
        if (!thrown([&] { (void)xtl::xget<long>(v); })) vf::violation(S + "holds-const/xget<long>/no-throw", "xget<long> succeeds although the variant holds a closure", {"--xget-only"});
        n += 7;
    }
    {
        // holds the mutable closure
        CV v(xtl::closure(x));
        const CV& cv = v;
        if (!xtl::holds_alternative<xtl::xclosure_wrapper<int&>>(v)) vf::violation(S + "holds-mutable/holds_alternative", "the variant does not report the closure it was built from", {"--xget-only"});
        if (thrown([&] { (void)xtl::xget<int&>(v); })) vf::violation(S + "holds-mutable/xget<T&>/throws", "xget<int&> throws although the variant holds xclosure_wrapper<int&>", {"--xget-only"});
        else if (&xtl::xget<int&>(v) != &x) vf::violation(S + "holds-mutable/xget<T&>/referent", "xget<int&> does not designate the wrapped lvalue", {"--xget-only"});
        if (thrown([&] { (void)xtl::xget<int&>(cv); })) vf::violation(S + "holds-mutable/xget<T&>(const)/throws", "xget<int&>(const variant&) throws although the variant holds xclosure_wrapper<int&>", {"--xget-only"});
        else if (&xtl::xget<int&>(cv) != &x) vf::violation(S + "holds-mutable/xget<T&>(const)/referent", "xget<int&>(const variant&) does not designate the wrapped lvalue", {"--xget-only"});
        xtl::xget<int&>(v) = 11;
        if (x != 11) vf::violation(S + "holds-mutable/write-through", "writing through xget<int&> does not reach the referent", {"--xget-only"});
        if (!thrown([&] { (void)xtl::xget<long>(v); })) vf::violation(S + "holds-mutable/xget<long>/no-throw", "xget<long> succeeds although the variant holds a closure", {"--xget-only"});
        n += 6;
        // (xget<const T&> on a variant that holds the mutable closure while the const closure is also an alternative is not judged:
        //  the statement only fixes accessors against the alternative that is held)
    }
    {
        CV v(7L);
        if (xtl::xget<long>(v) != 7) vf::violation(S + "holds-long/xget<long>", "xget<long> wrong", {"--xget-only"});
        if (!thrown([&] { (void)xtl::xget<int&>(v); }) || !thrown([&] { (void)xtl::xget<const int&>(v); })) vf::violation(S + "holds-long/xget<closure>/no-throw", "xget of a closure succeeds although the variant holds long", {"--xget-only"});
        n += 3;
    }
    return n;
}

// closure-aware xget (stateless part of the statement): value, T& and const T& closures over xclosure_wrapper alternatives
static void check_xget_closures()
{
    int x = 5;
    double d = 2.5;
    typedef xtl::variant<xtl::xclosure_wrapper<int&>, xtl::xclosure_wrapper<const double&>, long> CV;
    long checks = 0;
    {
        CV v(xtl::closure(x));
        if (&xtl::xget<int&>(v) != &x) vf::violation("C05/xget/closure/int&", "xget<int&> does not designate the wrapped lvalue", {"--xget-only"});
        if (&xtl::xget<const int&>(v) != &x) vf::violation("C05/xget/closure/const-int&-from-int&", "xget<const int&> on a variant holding xclosure_wrapper<int&> does not designate the wrapped lvalue", {"--xget-only"});
        const CV& cv = v;
        if (&xtl::xget<const int&>(cv) != &x) vf::violation("C05/xget/closure/const-variant", "xget<const int&>(const variant) wrong", {"--xget-only"});
        xtl::xget<int&>(v) = 9;
        if (x != 9) vf::violation("C05/xget/closure/write-through", "writing through xget<int&> does not reach the referent", {"--xget-only"});
        bool threw = false;
        try { (void)xtl::xget<const double&>(v); } catch (const xtl::bad_variant_access&) { threw = true; }
        if (!threw) vf::violation("C05/xget/closure/other-alternative", "xget of another alternative did not throw bad_variant_access", {"--xget-only"});
        threw = false;
        try { (void)xtl::xget<long>(v); } catch (const xtl::bad_variant_access&) { threw = true; }
        if (!threw) vf::violation("C05/xget/closure/other-alternative", "xget<long> did not throw", {"--xget-only"});
        checks += 6;
    }
    {
        CV v(xtl::closure(static_cast<const double&>(d)));
        if (&xtl::xget<const double&>(v) != &d) vf::violation("C05/xget/closure/const-double&", "xget<const double&> does not designate the wrapped lvalue", {"--xget-only"});
        if (&xtl::xget<const double&>(std::move(v)) != &d) vf::violation("C05/xget/closure/rvalue", "xget<const double&>(variant&&) wrong", {"--xget-only"});
        bool threw = false;
        try { (void)xtl::xget<int&>(v); } catch (const xtl::bad_variant_access&) { threw = true; }
        if (!threw) vf::violation("C05/xget/closure/other-alternative", "xget<int&> of a variant holding the double closure did not throw", {"--xget-only"});
        checks += 3;
    }
    {
        CV v(3L);
        if (xtl::xget<long>(v) != 3) vf::violation("C05/xget/value", "xget<long> wrong", {"--xget-only"});
        checks += 1;
    }
    checks += xget_both_flavours<xtl::variant<xtl::xclosure_wrapper<int&>, xtl::xclosure_wrapper<const int&>, long>>("T&,const T&,long");
    checks += xget_both_flavours<xtl::variant<xtl::xclosure_wrapper<const int&>, xtl::xclosure_wrapper<int&>, long>>("const T&,T&,long");
    checks += xget_both_flavours<xtl::variant<long, xtl::xclosure_wrapper<const int&>, xtl::xclosure_wrapper<double&>, xtl::xclosure_wrapper<int&>>>("long,const T&,U&,T&");
    vf::stat("xget_closure_checks", checks);
}

int main(int argc, char** argv)
{
    int depth = 1 << 30;
    std::vector<int> values = {1, 2};
    std::string replay, inst =
#if defined(ALTT)
        "altT";
#elif defined(ALTA)
        "altA";
#elif defined(ALTM)
        "altM";
#elif defined(ALT6)
        "alt6";
#else
        "alt4";
#endif
    if (NV != 2) inst += "x" + str(NV);
    bool do_replay = false;
    long long max_states = 1LL << 40;
    double deadline = 1e18;
    for (int i = 1; i < argc; ++i)
    {
        std::string a = argv[i];
        if (a == "--depth") depth = atoi(argv[++i]);
        else if (a == "--one-value") { values = {1}; inst += "-1v"; }
        else if (a == "--max-states") max_states = atoll(argv[++i]);
        else if (a == "--deadline") deadline = atof(argv[++i]);
        else if (a == "--xget-only") { check_xget_closures(); vf::done(); return 0; }
        else if (a == "--replay") { do_replay = true; inst = argv[++i]; replay = argv[++i]; if (inst.find("-1v") != std::string::npos) values = {1}; }
    }
    HX hx;
    hx.prop = "C05";
    hx.inst = inst;
    hx.max_depth = depth;
    hx.max_states = max_states;
    hx.deadline_s = deadline;
    build_ops(hx, values);
    if (do_replay) { hx.replay(replay); vf::done(); return 0; }
    check_xget_closures();
    hx.run();
    hx.summarize(depth == (1 << 30));
    vf::stat("operation_instances", (long long)hx.ops.size());
    vf::done();
    return 0;
}
