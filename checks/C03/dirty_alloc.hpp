// C03, allocator dimension: allocators a std::vector<B, A> (the owning bitset's storage) may legitimately be given.
//
// DirtyAlloc<T>   the "default_init_allocator" idiom on recycled memory: construct(p) with NO arguments default-initialises
//                 (for an integral block: leaves the memory as it is), construct(p, args...) constructs from the arguments,
//                 and allocate() hands out memory that is deliberately filled with a non-zero byte (0xFF, 0xA5, ...), as
//                 recycled heap memory is. A container that value-constructs every block it creates never notices; a
//                 storage-creating site that default-inserts (vector(n, alloc), vector::resize(n)) gets the dirt as bits.
// CapAlloc<T, L>  an allocator with a small max_size(): std::vector throws std::length_error BEFORE calling allocate() for
//                 more than L elements, and every request of at most L elements is satisfiable (real memory).
// ThrowAlloc<T,L> max_size() left at its default (huge); allocate(n) throws std::bad_alloc for n > L: the request passes
//                 every length check and fails in the allocation itself.
#ifndef C03_DIRTY_ALLOC_HPP
#define C03_DIRTY_ALLOC_HPP

#include <cstddef>
#include <cstring>
#include <new>
#include <utility>

namespace c03
{
    struct alloc_stats
    {
        static unsigned char& fill() { static unsigned char f = 0xFF; return f; }
        static long long& allocations() { static long long n = 0; return n; }
        static long long& default_inits() { static long long n = 0; return n; }      // construct(p) calls: elements left dirty
        static long long& value_constructs() { static long long n = 0; return n; }   // construct(p, args...) calls
        static long long& refused() { static long long n = 0; return n; }            // allocate() calls answered by bad_alloc
    };

    template <class T>
    struct DirtyAlloc
    {
        typedef T value_type;
        DirtyAlloc() = default;
        template <class U> DirtyAlloc(const DirtyAlloc<U>&) {}
        __attribute__((noinline)) T* allocate(std::size_t n)
        {
            void* p = ::operator new(n * sizeof(T));
            std::memset(p, alloc_stats::fill(), n * sizeof(T));
            // the dirt is part of the experiment: the compiler must not treat these stores as dead
            __asm__ volatile("" : : "r"(p) : "memory");
            ++alloc_stats::allocations();
            return static_cast<T*>(p);
        }
        void deallocate(T* p, std::size_t n)
        {
            std::memset(static_cast<void*>(p), alloc_stats::fill(), n * sizeof(T));
            ::operator delete(static_cast<void*>(p));
        }
        // default-insertion: default-initialisation, i.e. no initialisation for an integral block
        template <class U> void construct(U* p) { ::new (static_cast<void*>(p)) U; ++alloc_stats::default_inits(); }
        template <class U, class A0, class... Args>
        void construct(U* p, A0&& a0, Args&&... args)
        {
            ::new (static_cast<void*>(p)) U(std::forward<A0>(a0), std::forward<Args>(args)...);
            ++alloc_stats::value_constructs();
        }
        template <class U> void destroy(U* p) { p->~U(); }
        template <class U> bool operator==(const DirtyAlloc<U>&) const { return true; }
        template <class U> bool operator!=(const DirtyAlloc<U>&) const { return false; }
    };

    template <class T, std::size_t L>
    struct CapAlloc
    {
        typedef T value_type;
        template <class U> struct rebind { typedef CapAlloc<U, L> other; };
        CapAlloc() = default;
        template <class U> CapAlloc(const CapAlloc<U, L>&) {}
        std::size_t max_size() const noexcept { return L; }
        T* allocate(std::size_t n)
        {
            if (n > L) { ++alloc_stats::refused(); throw std::bad_alloc(); }
            ++alloc_stats::allocations();
            return static_cast<T*>(::operator new(n * sizeof(T)));
        }
        void deallocate(T* p, std::size_t) { ::operator delete(static_cast<void*>(p)); }
        template <class U> bool operator==(const CapAlloc<U, L>&) const { return true; }
        template <class U> bool operator!=(const CapAlloc<U, L>&) const { return false; }
    };

    template <class T, std::size_t L>
    struct ThrowAlloc
    {
        typedef T value_type;
        template <class U> struct rebind { typedef ThrowAlloc<U, L> other; };
        ThrowAlloc() = default;
        template <class U> ThrowAlloc(const ThrowAlloc<U, L>&) {}
        T* allocate(std::size_t n)
        {
            if (n > L) { ++alloc_stats::refused(); throw std::bad_alloc(); }
            ++alloc_stats::allocations();
            return static_cast<T*>(::operator new(n * sizeof(T)));
        }
        void deallocate(T* p, std::size_t) { ::operator delete(static_cast<void*>(p)); }
        template <class U> bool operator==(const ThrowAlloc<U, L>&) const { return true; }
        template <class U> bool operator!=(const ThrowAlloc<U, L>&) const { return false; }
    };
}

#endif
