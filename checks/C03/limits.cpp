// C03 (size-limit part): requests at the top of size_type's range, and around what the allocator can provide.
//
// The other parts only ever ask for sizes that exist. The statement quantifies over "any sequence of construction, assign,
// resize, ... push_back" and says that size / count / block_count / at / ... report the sequence a std::vector<bool> would
// hold. A std::vector<bool> that is asked for a size it cannot provide throws (std::length_error or std::bad_alloc) and, for
// resize / push_back / reserve, keeps the sequence it held; so after such a call the bitset must hold what it held before,
// block_count() must still be ceil(size()/w), and a call must never RETURN NORMALLY into a state whose size() its blocks
// cannot back (size() = 2^64-1 over 0 blocks: empty() false, at(i) hands out references into nothing).
//
// Space (one process per block type, everything inside it enumerated exhaustively):
//   allocator  x  initial state  x  operation instance (kind x requested size)  , then a fixed probe sequence
//   * allocator: std::allocator over a replaced global operator new that answers every request above 16 MiB with
//     std::bad_alloc at once (what glibc does for a request beyond the address space; under ASan the default operator new would
//     abort the process instead of throwing); CapAlloc<B,3> (max_size() = 3 blocks: std::vector throws std::length_error before
//     allocating); ThrowAlloc<B,3> (default max_size(), allocate(n > 3) throws std::bad_alloc).
//   * initial states (built on the allocator under test): empty; {1,0,1,1,0}; w ones; w+1 bits 0xA5-pattern; 2w+1 ones;
//     2w+1 ones shrunk to 3 (spare capacity); 3w ones (exactly at the limit of the small allocators); 3w-1 ones with bit 0
//     cleared; w-1 ones (partial single block).
//   * kinds: resize(n) (= resize(n,false)), resize(n,true), assign(n,false), assign(n,true), bitset(n), bitset(n,false),
//     bitset(n,true) (move-assigned over the object), reserve(n), push_back(0), push_back(1).
//   * requested sizes n: SMALL = the block boundaries k*w-1, k*w, k*w+1 for k = 0..5 (and EVERY size 0..5w+1 for 8- and 16-bit
//     blocks; --all-small: for every block type); HUGE = a window of +-(w+1) around 2^64 (i.e. SIZE_MAX-w-1..SIZE_MAX), 2^63
//     and around the bitset's own max_size(), and 2^k-1, 2^k, 2^k+1 for every other k in 28..62 (--wide-windows: the full
//     window around every power of two).
// Oracle (independent of the library): exact arithmetic. need(n) = ceil(n/w) computed in 128 bits; the allocator's limits are
// known by construction. need(n) > limit  => the call must throw (any exception type: which one is not promised) and - for
// resize / push_back / reserve / a constructor - leave size, block_count and every block as they were; for assign (basic
// guarantee only) the bitset must still be well formed. need(n) within what the allocator guarantees => the call must succeed
// and hold exactly what std::vector<bool>::resize / assign / push_back / vector<bool>(n, b) hold. In between (ThrowAlloc and a
// growth policy that asks for more than it needs) either outcome is accepted and judged accordingly. reserve() is only judged
// for leaving the sequence alone (capacity is not part of the statement). After every operation the full battery runs:
// size, empty, block_count == ceil(size/w), every bit through [] and iteration, count, any, none, all, at(size-1) / at(size),
// bits beyond size() zero, == against a bitset rebuilt by push_back. Then the probe sequence (push_back(1), resize(SIZE_MAX, true),
// flip(), assign(SIZE_MAX-w+1, true)) is applied to the same object and judged the same way: a state damaged silently by the
// operation under test shows in what follows.
#include <xtl/xdynamic_bitset.hpp>

#include "report.hpp"
#include "dirty_alloc.hpp"

#include <chrono>
#include <cstdint>
#include <cstdlib>
#include <new>
#include <set>
#include <stdexcept>
#include <string>
#include <vector>

using vf::str;

// ---- the system allocator of this experiment: a request above NEW_LIMIT bytes fails immediately ----
static const std::size_t NEW_LIMIT = std::size_t(1) << 24;
static long long g_new_refused = 0;
static void* limited_new(std::size_t n)
{
    if (n > NEW_LIMIT) { ++g_new_refused; throw std::bad_alloc(); }
    void* p = std::malloc(n ? n : 1);
    if (!p) throw std::bad_alloc();
    return p;
}
void* operator new(std::size_t n) { return limited_new(n); }
void* operator new[](std::size_t n) { return limited_new(n); }
void* operator new(std::size_t n, const std::nothrow_t&) noexcept { return n > NEW_LIMIT ? nullptr : std::malloc(n ? n : 1); }
void* operator new[](std::size_t n, const std::nothrow_t&) noexcept { return n > NEW_LIMIT ? nullptr : std::malloc(n ? n : 1); }
void operator delete(void* p) noexcept { std::free(p); }
void operator delete[](void* p) noexcept { std::free(p); }
void operator delete(void* p, std::size_t) noexcept { std::free(p); }
void operator delete[](void* p, std::size_t) noexcept { std::free(p); }
void operator delete(void* p, const std::nothrow_t&) noexcept { std::free(p); }
void operator delete[](void* p, const std::nothrow_t&) noexcept { std::free(p); }

typedef unsigned __int128 u128;
static const std::size_t SMAX = ~std::size_t(0);
static const std::size_t LCAP = 3;   // block limit of the two small allocators

template <class B> struct bname;
template <> struct bname<std::uint8_t> { static const char* s() { return "u8"; } };
template <> struct bname<std::uint16_t> { static const char* s() { return "u16"; } };
template <> struct bname<std::uint32_t> { static const char* s() { return "u32"; } };
template <> struct bname<std::uint64_t> { static const char* s() { return "u64"; } };

// what each allocator guarantees, in blocks: a request needing more than fail_above() cannot be satisfied; a fresh storage of at
// most fresh_ok() blocks and a growth to at most grow_ok() blocks must be
template <class A> struct ainfo;
template <class B> struct ainfo<std::allocator<B>>
{
    static const char* name() { return "std"; }
    static u128 fail_above() { return NEW_LIMIT / sizeof(B); }
    static u128 fresh_ok() { return 4096; }
    static u128 grow_ok() { return 4096; }
};
template <class B> struct ainfo<c03::CapAlloc<B, LCAP>>
{
    static const char* name() { return "cap3"; }
    static u128 fail_above() { return LCAP; }
    static u128 fresh_ok() { return LCAP; }
    static u128 grow_ok() { return LCAP; }   // std::vector caps its growth at max_size()
};
template <class B> struct ainfo<c03::ThrowAlloc<B, LCAP>>
{
    static const char* name() { return "throw3"; }
    static u128 fail_above() { return LCAP; }
    static u128 fresh_ok() { return LCAP; }   // vector(n, value, alloc) allocates exactly n
    static u128 grow_ok() { return 0; }       // a growth policy may ask for more than it needs: only "no growth" is guaranteed
};

enum Kind { RESIZE, RESIZE_T, RESIZE_F, ASSIGN_F, ASSIGN_T, CTOR, CTOR_F, CTOR_T, RESERVE, PUSH0, PUSH1, POP, FLIP, NKIND };
static const char* KNAME[] = {"resize(n)", "resize(n,true)", "resize(n,false)", "assign(n,false)", "assign(n,true)", "bitset(n)", "bitset(n,false)",
                              "bitset(n,true)", "reserve(n)", "push_back(0)", "push_back(1)", "pop_back()", "flip()"};
static const char* KSIG[] = {"resize", "resize", "resize", "assign", "assign", "ctor", "ctor", "ctor", "reserve", "push_back", "push_back", "pop_back", "flip"};
static const int NINIT = 9;
static const char* INAME[] = {"5bits", "w-ones", "w+1-A5", "2w+1-ones", "2w+1-shrunk-to-3", "3w-ones", "3w-1-ones-but-first", "w-1-ones", "empty"};

static long long g_cases = 0, g_ops = 0, g_must_fail = 0, g_must_ok = 0, g_either = 0, g_len = 0, g_bad = 0, g_other = 0, g_batteries = 0,
                 g_either_threw = 0, g_reserve_returned = 0, g_init_refused = 0;
static std::set<std::size_t> g_huge_seen;
static double g_deadline = 1e18;   // seconds of run time after which the enumeration stops and reports a cap (never a violation)
static bool g_capped = false;
static double now_s()
{
    static const std::chrono::steady_clock::time_point t0 = std::chrono::steady_clock::now();
    return std::chrono::duration<double>(std::chrono::steady_clock::now() - t0).count();
}

static std::string g_cur;   // the case being executed, for the crash hook
static std::vector<std::string> g_cur_replay;
static std::string g_cur_sig;

static std::string bits(const std::vector<bool>& m)
{
    std::string s;
    for (bool b : m) s += b ? '1' : '0';
    return s.empty() ? "<empty>" : s;
}

template <class B>
static std::string size_class(std::size_t n)
{
    const std::size_t w = sizeof(B) * 8;
    if (n > SMAX - w + 1) return "n+w-1-wraps";
    if (n >= (std::size_t(1) << 63)) return "n>=2^63";
    if (n >= (std::size_t(1) << 32)) return "n>=2^32";
    if (n >= (std::size_t(1) << 27)) return "n>=2^27";
    return "small";
}

static void emit_stats()
{
    vf::stat("limit_cases", g_cases);
    vf::stat("limit_operations_judged", g_ops);
    vf::stat("limit_batteries", g_batteries);
    vf::stat("limit_ops_unsatisfiable", g_must_fail);
    vf::stat("limit_ops_must_succeed", g_must_ok);
    vf::stat("limit_ops_either_outcome", g_either);
    vf::stat("limit_ops_either_outcome_threw", g_either_threw);
    vf::stat("limit_threw_length_error", g_len);
    vf::stat("limit_threw_bad_alloc", g_bad);
    vf::stat("limit_threw_other", g_other);
    vf::stat("limit_reserve_returned_normally", g_reserve_returned);
    vf::stat("limit_cases_initial_state_refused", g_init_refused);
    vf::stat("limit_operator_new_refusals", g_new_refused);
    vf::stat("limit_allocator_refusals", c03::alloc_stats::refused());
    vf::smax("limit_distinct_unsatisfiable_sizes", (long long)g_huge_seen.size());
}
static bool g_replaying = false;
static void end_run(const std::string& why, bool hard)
{
    vf::crash_hook() = nullptr;
    if (!g_replaying) vf::cap(why);
    emit_stats();
    vf::done();
    if (hard) _exit(0);   // no destructors, no exit handlers: the heap may be damaged
}

template <class BS>
struct World
{
    typedef typename BS::block_type B;
    typedef typename BS::allocator_type A;
    BS bs;
    std::vector<bool> m;
    std::string where;                  // "<alloc>, from <init>, <op>(n)"
    std::vector<std::string> replay;    // --limit-only <block> <alloc> <init> <kind> <n>
    std::string sigbase;                // C03/limits-<block>/<alloc>
    bool dead = false;                  // a violation was reported: the object is not touched any further

    void fail(const std::string& kind, const std::string& what, std::size_t n, const std::string& msg)
    {
        vf::violation(sigbase + "/" + kind + "/" + what + "/" + size_class<B>(n), std::string("block ") + bname<B>::s() + ", allocator " + where + ": " + msg, replay);
        dead = true;
        // a call that returned into a state its blocks cannot back, or that the sanitizer flagged, may have written outside its
        // storage (allocator metadata included): nothing this process does afterwards is reliable, not even the destructors. The run
        // ends here, reported as a cap; the finding itself replays from a fresh process.
        if (what == "no-throw" || what == "sanitizer") end_run(sigbase + ": stopped after the first memory-unsafe finding (" + kind + "/" + what + "); the rest of the space was not enumerated", true);
    }

    // everything the statement lists, against the model (sizes here are at most a few hundred bits)
    void battery(const std::string& kind, std::size_t nreq)
    {
        ++g_batteries;
        const std::size_t w = sizeof(B) * 8, n = m.size();
        const BS& c = bs;
        if (c.size() != n) { fail(kind, "size", nreq, "size() = " + str(c.size()) + ", a vector<bool> holds " + str(n) + " elements"); return; }
        if (c.block_count() != (n + w - 1) / w) { fail(kind, "block_count", nreq, "block_count() = " + str(c.block_count()) + " with size() = " + str(n)); return; }
        if (c.empty() != (n == 0)) fail(kind, "empty", nreq, "empty() wrong");
        std::size_t cnt = 0;
        for (bool x : m) cnt += x;
        for (std::size_t i = 0; i < n; ++i)
            if (bool(c[i]) != m[i]) { fail(kind, "element", nreq, "bit " + str(i) + " reads " + str(int(bool(c[i]))) + ", a vector<bool> holds " + bits(m)); return; }
        std::size_t k = 0;
        bool it_ok = true;
        for (auto it = c.cbegin(); it != c.cend(); ++it, ++k) if (k >= n || bool(*it) != m[k]) it_ok = false;
        if (!it_ok || k != n) fail(kind, "iteration", nreq, "iteration does not yield " + bits(m));
        if (n != 0 && c.count() != cnt) fail(kind, "count", nreq, "count() = " + str(c.count()) + ", " + str(cnt) + " bits are set");
        if (c.any() != (cnt != 0)) fail(kind, "any", nreq, "any() wrong");
        if (c.none() != (cnt == 0)) fail(kind, "none", nreq, "none() wrong");
        if (c.all() != (cnt == n)) fail(kind, "all", nreq, "all() wrong");
        {
            bool threw = false;
            try { (void)bool(c.at(n)); } catch (const std::out_of_range&) { threw = true; }
            if (!threw) fail(kind, "at-no-throw", nreq, "at(size()) did not throw std::out_of_range, size() = " + str(n));
            if (n != 0)
            {
                bool t2 = false, v = false;
                try { v = bool(c.at(n - 1)); } catch (const std::out_of_range&) { t2 = true; }
                if (t2 || v != m[n - 1]) fail(kind, "at", nreq, "at(size()-1) wrong");
            }
        }
        if (n % w != 0)
        {
            B last = c.data()[c.block_count() - 1];
            if ((last >> (n % w)) != 0) fail(kind, "unused-bits", nreq, "bits beyond size() are set in the last block");
        }
        xtl::xdynamic_bitset<B> pb;
        for (std::size_t i = 0; i < n; ++i) pb.push_back(m[i]);
        if (!(c == pb) || (c != pb) || !(pb == c)) fail(kind, "equality", nreq, "!= a bitset holding the same " + str(n) + " elements built by push_back");
    }

    struct Snap { std::size_t size, blocks; std::vector<B> data; };
    Snap snap() const
    {
        Snap s;
        s.size = bs.size();
        s.blocks = bs.block_count();
        // only blocks that can exist are read
        if (s.blocks <= 64) s.data.assign(bs.data(), bs.data() + s.blocks);
        return s;
    }

    // one operation on the world, judged. Returns false when the case is over (violation reported)
    bool apply(Kind k, std::size_t n)
    {
        const std::size_t w = sizeof(B) * 8;
        if (dead) return false;
        if ((k == PUSH0 || k == PUSH1)) n = m.size() + 1;
        if (k == POP) { if (m.empty()) return true; n = m.size() - 1; }
        if (k == FLIP) n = m.size();
        ++g_ops;
        const std::string kind = KSIG[k];
        const std::string opname = std::string(KNAME[k]) + (k <= RESERVE ? " with n = " + str(n) : std::string());
        const u128 need = (u128(n) + w - 1) / w;
        const bool fresh = (k == CTOR || k == CTOR_F || k == CTOR_T);
        const bool must_fail = need > ainfo<A>::fail_above();
        bool must_ok;
        if (fresh) must_ok = need <= ainfo<A>::fresh_ok();
        else { u128 have = bs.block_count(); must_ok = need <= (have > ainfo<A>::grow_ok() ? have : ainfo<A>::grow_ok()); }
        if (k == POP || k == FLIP) must_ok = true;
        if (must_fail) { ++g_must_fail; if (n >= (std::size_t(1) << 27)) g_huge_seen.insert(n); }
        else if (must_ok) ++g_must_ok;
        else ++g_either;
        if (!must_fail && n > 64 * w) { fail("harness", "space", n, "harness: a size that is neither small nor unsatisfiable was enumerated"); return false; }

        const Snap before = snap();
        const std::vector<bool> mbefore = m;
        bool threw = false;
        std::string how;
        vf::take_asan();
        try
        {
            switch (k)
            {
            case RESIZE: bs.resize(n); break;
            case RESIZE_T: bs.resize(n, true); break;
            case RESIZE_F: bs.resize(n, false); break;
            case ASSIGN_F: bs.assign(n, false); break;
            case ASSIGN_T: bs.assign(n, true); break;
            case CTOR: { BS t(n); bs = std::move(t); } break;
            case CTOR_F: { BS t(n, false); bs = std::move(t); } break;
            case CTOR_T: { BS t(n, true); bs = std::move(t); } break;
            case RESERVE: bs.reserve(n); break;
            case PUSH0: bs.push_back(false); break;
            case PUSH1: bs.push_back(true); break;
            case POP: bs.pop_back(); break;
            case FLIP: bs.flip(); break;
            default: break;
            }
        }
        catch (const std::length_error&) { threw = true; how = "std::length_error"; ++g_len; }
        catch (const std::bad_alloc&) { threw = true; how = "std::bad_alloc"; ++g_bad; }
        catch (const std::exception& e) { threw = true; how = std::string("std::exception: ") + e.what(); ++g_other; }
        catch (...) { threw = true; how = "an unknown exception"; ++g_other; }
        // the logical verdict comes first: in recover mode ASan reports one program counter only once per process, so whether THIS
        // call is flagged depends on what ran before it; a report is a finding of its own only where the logic has none
        const bool san = vf::take_asan();
        auto finish = [&]() {
            if (san) { fail(kind, "sanitizer", n, opname + " on " + bits(mbefore) + ": the sanitizer reported an invalid memory access inside the call (see stderr)"); return false; }
            battery(kind, n);
            return !dead;
        };

        if (threw)
        {
            if (must_ok)
            {
                fail(kind, "threw-satisfiable", n, opname + " on " + bits(mbefore) + " threw " + how + " although it needs " + str((unsigned long long)need) +
                     " block(s) and this allocator provides them; a vector<bool> holds the new sequence");
                return false;
            }
            if (!must_fail) ++g_either_threw;
            if (k == ASSIGN_F || k == ASSIGN_T)
            {
                // basic guarantee only (std::vector<bool>::assign may already have overwritten the old elements): continue from
                // what is there, but it must be a well formed bitset of a size its blocks back
                const std::size_t s = bs.size();
                if (bs.block_count() != (u128(s) + w - 1) / w || s > 64 * w)
                {
                    fail(kind, "changed-after-throw", n, opname + " on " + bits(mbefore) + " threw " + how + " and left size() = " + str(s) + " over block_count() = " + str(bs.block_count()));
                    return false;
                }
                m.assign(s, false);
                for (std::size_t i = 0; i < s; ++i) m[i] = bool(bs[i]);
            }
            else
            {
                // resize / push_back / reserve / constructor: a vector<bool> still holds what it held
                const Snap after = snap();
                if (after.size != before.size || after.blocks != before.blocks || after.data != before.data)
                {
                    fail(kind, "changed-after-throw", n, opname + " on " + bits(mbefore) + " threw " + how + " but changed the bitset: size() " + str(before.size) + " -> " + str(after.size) +
                         ", block_count() " + str(before.blocks) + " -> " + str(after.blocks) + (after.data != before.data ? ", block contents differ" : ""));
                    return false;
                }
            }
            return finish();
        }

        // returned normally
        if (k == RESERVE)
        {
            // capacity is not part of the statement: whether reserve(n) throws is not judged, the sequence must be untouched
            ++g_reserve_returned;
            const Snap after = snap();
            if (after.size != before.size || after.blocks != before.blocks || after.data != before.data)
            {
                fail(kind, "changed", n, opname + " on " + bits(mbefore) + " changed the bitset: size() " + str(before.size) + " -> " + str(after.size) + ", block_count() " + str(before.blocks) + " -> " + str(after.blocks));
                return false;
            }
            return finish();
        }
        if (must_fail)
        {
            fail(kind, "no-throw", n, opname + " on " + bits(mbefore) + " (size " + str(before.size) + ", " + str(before.blocks) + " block(s)) returned normally: size() = " + str(bs.size()) +
                 ", block_count() = " + str(bs.block_count()) + ", empty() = " + str(int(bs.empty())) + "; " + str(n) + " bits need " + str((unsigned long long)need) + " blocks, this allocator provides at most " + str((unsigned long long)ainfo<A>::fail_above()) +
                 "; a vector<bool> throws std::length_error / std::bad_alloc and keeps its " + str(before.size) + " elements");
            return false;
        }
        switch (k)
        {
        case RESIZE: case RESIZE_F: m.resize(n, false); break;
        case RESIZE_T: m.resize(n, true); break;
        case ASSIGN_F: case CTOR_F: case CTOR: m.assign(n, false); break;
        case ASSIGN_T: case CTOR_T: m.assign(n, true); break;
        case PUSH0: m.push_back(false); break;
        case PUSH1: m.push_back(true); break;
        case POP: m.pop_back(); break;
        case FLIP: m.flip(); break;
        default: break;
        }
        return finish();
    }
};

template <class BS>
static void make_init(int init, World<BS>& x)
{
    typedef typename BS::block_type B;
    const std::size_t w = sizeof(B) * 8;
    switch (init)
    {
    case 0: x.bs = BS({true, false, true, true, false}); x.m = {true, false, true, true, false}; break;
    case 1: x.bs = BS(w, true); x.m.assign(w, true); break;
    case 2:
        x.bs = BS(w + 1, false); x.m.assign(w + 1, false);
        for (std::size_t i = 0; i <= w; ++i) if ((0xA5u >> (i % 8)) & 1) { x.bs.set(i); x.m[i] = true; }
        break;
    case 3: x.bs = BS(2 * w + 1, true); x.m.assign(2 * w + 1, true); break;
    case 4: x.bs = BS(2 * w + 1, true); x.bs.resize(3); x.m.assign(3, true); break;
    case 5: x.bs = BS(3 * w, true); x.m.assign(3 * w, true); break;
    case 6: x.bs = BS(3 * w - 1, true); x.bs.reset(0); x.m.assign(3 * w - 1, true); x.m[0] = false; break;
    case 7: x.bs = BS(w - 1, false); x.bs.flip(); x.m.assign(w - 1, true); break;
    default: break;   // empty
    }
}

template <class BS>
static void one_case(int init, Kind k, std::size_t n, bool first_of_init = true)
{
    typedef typename BS::block_type B;
    typedef typename BS::allocator_type A;
    const std::size_t w = sizeof(B) * 8;
    ++g_cases;
    World<BS> x;
    x.sigbase = std::string("C03/limits-") + bname<B>::s() + "/" + ainfo<A>::name();
    x.where = std::string(ainfo<A>::name()) + ", initial state " + INAME[init];
    x.replay = {"--limit-only", bname<B>::s(), ainfo<A>::name(), str(init), str(int(k)), str(n)};
    g_cur = std::string("block ") + bname<B>::s() + ", allocator " + x.where + ": " + KNAME[k] + " with n = " + str(n);
    g_cur_replay = x.replay;
    g_cur_sig = x.sigbase + "/" + KSIG[k] + "/crash/" + size_class<B>(n);
    // the initial states are built through routes the other parts judge; if one of them is refused by this allocator (a growth
    // policy that asks ThrowAlloc for more than it needs), the case does not exist
    try { make_init(init, x); }
    catch (const std::exception&) { ++g_init_refused; return; }
    if (first_of_init) { x.battery("init", 0); if (x.dead) return; }
    if (!x.apply(k, n)) return;
    // probe sequence on the same object
    x.where += std::string(", after ") + KNAME[k] + " with n = " + str(n) + ", probe";
    const std::size_t s = x.m.size();
    (void)s;
    if (!x.apply(PUSH1, 0)) return;
    if (!x.apply(RESIZE_T, SMAX)) return;
    if (!x.apply(FLIP, 0)) return;
    x.apply(ASSIGN_T, SMAX - w + 1);
}

template <class B>
static std::vector<std::size_t> sizes(bool all_small, bool wide, std::size_t own_max_size)
{
    const std::size_t w = sizeof(B) * 8;
    std::set<std::size_t> s;
    for (std::size_t k = 0; k <= 5; ++k)
        for (long d = -1; d <= 1; ++d) { if (k == 0 && d < 0) continue; s.insert(k * w + std::size_t(d)); }
    if (all_small || w <= 16) for (std::size_t n = 0; n <= 5 * w + 1; ++n) s.insert(n);
    auto window = [&](std::size_t anchor, std::size_t r) {
        for (std::size_t d = 0; d <= r; ++d) { s.insert(anchor + d); s.insert(anchor - d); }   // modulo 2^64
    };
    for (int k = 28; k <= 64; ++k)
    {
        const std::size_t a = k == 64 ? 0 : std::size_t(1) << k;
        const bool full = wide || k == 64 || k == 63;
        window(a, full ? w + 1 : 1);
    }
    window(own_max_size, w + 1);
    // a window around 0 / max_size() reaches into the small numbers: keep the small set as defined above, drop the middle
    std::vector<std::size_t> r;
    // largest first: a slip at the top of the range is then reported for the operation under test, not for a probe step
    for (auto it = s.rbegin(); it != s.rend(); ++it) if (*it <= 5 * w + 1 || *it >= (std::size_t(1) << 28) - (w + 1)) r.push_back(*it);
    return r;
}

template <class BS>
static void enumerate(bool all_small, bool wide)
{
    typedef typename BS::block_type B;
    const std::size_t w = sizeof(B) * 8;
    BS probe;
    const std::vector<std::size_t> ns = sizes<B>(all_small, wide, probe.max_size());
    for (int init = 0; init < NINIT && !g_capped; ++init)
    {
        bool first = true;   // the initial state itself goes through the battery once
        for (int k = RESIZE; k <= RESERVE && !g_capped; ++k)
        {
            if (k == RESIZE_F) continue;   // resize(n) IS resize(n, false) (default argument): one function, enumerated once
            for (std::size_t n : ns)
            {
                if ((g_cases & 1023) == 0 && now_s() > g_deadline)
                {
                    g_capped = true;
                    vf::cap(std::string("C03/limits-") + bname<B>::s() + "/" + ainfo<typename BS::allocator_type>::name() + ": deadline reached after " + str(g_cases) + " cases; the rest of the space was not enumerated");
                    break;
                }
                one_case<BS>(init, Kind(k), n, first);
                first = false;
            }
        }
        if (g_capped) break;
        one_case<BS>(init, PUSH0, 0);
        one_case<BS>(init, PUSH1, 0);
    }
    vf::smax("limit_sizes_per_kind", (long long)ns.size());
    (void)w;
}

template <class B>
static void run_block(const std::string& alloc, bool all_small, bool wide, int only_init, int only_kind, std::size_t only_n)
{
    typedef xtl::xdynamic_bitset<B> S;
    typedef xtl::xdynamic_bitset<B, c03::CapAlloc<B, LCAP>> C;
    typedef xtl::xdynamic_bitset<B, c03::ThrowAlloc<B, LCAP>> T;
    if (only_init >= 0)
    {
        if (alloc == "std") one_case<S>(only_init, Kind(only_kind), only_n);
        if (alloc == "cap3") one_case<C>(only_init, Kind(only_kind), only_n);
        if (alloc == "throw3") one_case<T>(only_init, Kind(only_kind), only_n);
        return;
    }
    if (alloc.empty() || alloc == "std") enumerate<S>(all_small, wide);
    if (alloc.empty() || alloc == "cap3") enumerate<C>(all_small, wide);
    if (alloc.empty() || alloc == "throw3") enumerate<T>(all_small, wide);
}

int main(int argc, char** argv)
{
    std::string block, alloc;
    bool all_small = false, wide = false;
    int only_init = -1, only_kind = 0;
    std::size_t only_n = 0;
    for (int i = 1; i < argc; ++i)
    {
        std::string a = argv[i];
        if (a == "--block") block = argv[++i];
        else if (a == "--alloc") alloc = argv[++i];
        else if (a == "--all-small") all_small = true;
        else if (a == "--wide-windows") wide = true;
        else if (a == "--deadline") g_deadline = std::atof(argv[++i]);
        else if (a == "--limit-only" && i + 5 < argc)
        {
            block = argv[++i]; alloc = argv[++i]; only_init = std::atoi(argv[++i]); only_kind = std::atoi(argv[++i]);
            only_n = std::size_t(std::strtoull(argv[++i], nullptr, 10));
            if (only_init < 0 || only_init >= NINIT || only_kind < 0 || only_kind >= NKIND) { std::printf("replay: bad case\n"); vf::done(); return 0; }
            g_replaying = true;
        }
    }
    now_s();
    vf::install_crash_handler();
    vf::crash_hook() = [](const char* sig) {
        vf::violation(g_cur_sig, g_cur + ": the process was ended by " + sig + " inside this case (the call under test, or a query on the state it left)", g_cur_replay);
    };
    if (block.empty() || block == "u8") run_block<std::uint8_t>(alloc, all_small, wide, only_init, only_kind, only_n);
    if (block.empty() || block == "u16") run_block<std::uint16_t>(alloc, all_small, wide, only_init, only_kind, only_n);
    if (block.empty() || block == "u32") run_block<std::uint32_t>(alloc, all_small, wide, only_init, only_kind, only_n);
    if (block.empty() || block == "u64") run_block<std::uint64_t>(alloc, all_small, wide, only_init, only_kind, only_n);
    vf::crash_hook() = nullptr;
    emit_stats();
    if (only_init < 0)
        vf::note("C03/limits " + (block.empty() ? std::string("all blocks") : block) + ": allocator" + (alloc.empty() ? std::string("s {std over a 16 MiB operator new, cap3: max_size() = 3 blocks, throw3: allocate(n > 3) throws}") : " " + alloc + " (std = std::allocator over a 16 MiB operator new, cap3: max_size() = 3 blocks, throw3: allocate(n > 3) throws)") + " x " + str(NINIT) +
                 " initial states x 8 size-taking kinds x sizes {block boundaries 0..5w+1" + (all_small || block == "u8" || block == "u16" ? ", every size 0..5w+1" : "") +
                 "; windows of +-(w+1) around 2^64, 2^63, max_size()" + (wide ? " and every 2^k, k = 28..62" : "; 2^k-1..2^k+1 for k = 28..62") + "} + push_back x2, each followed by a 4-step probe sequence: " +
                 str(g_cases) + " cases, " + str(g_ops) + " operations judged (" + str(g_must_fail) + " unsatisfiable, " + str(g_must_ok) + " that must succeed, " + str(g_either) + " either), " +
                 str(g_len) + " length_error, " + str(g_bad) + " bad_alloc, " + str(g_other) + " other exceptions");
    vf::done();
    return 0;
}
