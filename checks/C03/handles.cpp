// C03 (held handles and query interleavings): bounded-exhaustive enumeration of HISTORIES, no state merging.
//
// The BFS part (harness.cpp) creates, uses and drops every bit reference / iterator inside one operation and runs the
// complete query battery in every new state. Two things can therefore never happen there:
//   * a write through a handle (element reference, pointer to an element reference, iterator, reverse iterator, a second
//     view over the same caller memory) that was obtained EARLIER, with queries and other operations in between;
//   * a query whose answer depends on which queries were asked before (anything the object remembers between calls).
// The statement says that after ANY sequence of operations, "writes through element references and iterators" included,
// size/empty/count/any/all/none/==/operator[]/iteration/block_count report the bit sequence a std::vector<bool> would hold,
// and that a view behaves identically on the bits it covers. Here the handle is part of the world and every query is an
// operation of the alphabet of its own:
//   world      = one container (owning bitset, or a view object that LIVES ACROSS the operations, over guarded caller memory)
//                + at most one held handle of the configured kind + the model
//   alphabet   = acquire the handle | every write the handle offers | read through the handle |
//                each const query separately (shape, count, any, all, none, bits, iteration, ==) |
//                non-const reads (operator[], begin(), data()) | non-resizing mutators (set/reset/flip of one bit at a
//                second position and of all bits, b[j].flip(), <<= 1, >>= 1)
//   histories  = ALL sequences of applicable operations up to the depth bound, each executed on a FRESH world (an oracle
//                read never happens in the middle of a history: the only observations inside a history are the query
//                operations of the history itself), followed by the final battery: const queries, handle read, non-const
//                reads, count again, caller memory outside the view's blocks.
// Hidden state (whatever the object caches) is invisible to a state key, so two histories are never merged: the number of
// executions is the number of histories. engine/history.hpp does the enumeration (key = the history itself).
#include <xtl/xdynamic_bitset.hpp>

#include "history.hpp"

#include <cstdint>
#include <memory>
#include <stdexcept>
#include <string>
#include <vector>

using vf::Errs;
using vf::str;

enum HK { H_NONE, H_INDEX, H_AT, H_DEREF, H_ENDS, H_PTR, H_ITER, H_RITER, H_VIEWCOPY, H_VIEWDATA, H_COUNT_ };
static const char* HKN[] = {"none", "ref-index", "ref-at", "ref-deref", "ref-ends", "ptr", "iter", "riter", "view-copy", "view-data"};

struct Cfg
{
    size_t n = 0, i = 0, j = 0;
    int pat = 0, hk = 0;
};
static Cfg g;

static bool pat_bit(int pat, size_t k)
{
    switch (pat)
    {
    case 0: return false;
    case 1: return true;
    case 2: return ((0x5A >> (k % 8)) & 1) != 0;
    default: return k % 3 == 0;
    }
}
static const char* PATN[] = {"zeros", "ones", "x5a", "third"};

static std::string bits(const std::vector<bool>& m)
{
    std::string s;
    for (bool b : m) s += b ? '1' : '0';
    return s.empty() ? "<empty>" : s;
}

template <class B> struct bname;
template <> struct bname<uint8_t> { static const char* n() { return "u8"; } };
template <> struct bname<uint16_t> { static const char* n() { return "u16"; } };
template <> struct bname<uint32_t> { static const char* n() { return "u32"; } };
template <> struct bname<uint64_t> { static const char* n() { return "u64"; } };

template <class B>
struct OwnBox
{
    typedef xtl::xdynamic_bitset<B> C;
    static const bool is_view = false;
    static const char* kind() { return "own"; }
    C c;
    OwnBox() : c(g.n, false) { for (size_t k = 0; k < g.n; ++k) if (pat_bit(g.pat, k)) c.set(k); }
    void memory(const std::vector<bool>&, Errs&) const {}
};

template <class B>
struct ViewBox
{
    typedef xtl::xdynamic_bitset_view<B> C;
    static const bool is_view = true;
    static const char* kind() { return "view"; }
    static B guard() { return B(0xC3C3C3C3C3C3C3C3ull); }
    std::vector<B> mem;   // [guard][covered blocks][one uncovered caller block][guard]; exact-size heap block: ASan red zones
    C c;
    static std::vector<B> make()
    {
        const size_t w = sizeof(B) * 8, nb = (g.n + w - 1) / w;
        std::vector<B> m(nb + 3, B(0));
        for (size_t k = 0; k < nb * w; ++k) if (pat_bit(g.pat, k)) m[1 + k / w] = B(m[1 + k / w] | B(B(1) << (k % w)));   // bits beyond n too: the constructor clears them
        m.front() = guard(); m.back() = guard(); m[m.size() - 2] = guard();
        return m;
    }
    ViewBox() : mem(make()), c(mem.data() + 1, g.n) {}
    ViewBox(const ViewBox&) = delete;
    void memory(const std::vector<bool>& m, Errs& e) const
    {
        const size_t w = sizeof(B) * 8;
        if (mem.front() != guard() || mem.back() != guard() || mem[mem.size() - 2] != guard()) e.add("caller-memory", "caller memory outside the view's blocks was modified");
        for (size_t k = 0; k < m.size(); ++k)
            if (bool((mem[1 + k / w] >> (k % w)) & 1) != m[k]) { e.add("caller-bits", "caller memory disagrees with the model at bit " + str(k) + ", model " + bits(m)); break; }
    }
};

// a copy of a view designates the same caller memory; an owning bitset has no such handle (never configured, see applicable_cfg)
template <class B> xtl::xdynamic_bitset_view<B>* copy_view(xtl::xdynamic_bitset_view<B>& v) { return new xtl::xdynamic_bitset_view<B>(v); }
template <class B> xtl::xdynamic_bitset_view<B>* copy_view(xtl::xdynamic_bitset<B>&) { return nullptr; }

template <class Box>
struct HW
{
    typedef typename Box::C C;
    typedef typename C::block_type B;
    typedef typename C::reference Ref;
    typedef typename C::pointer Ptr;
    typedef typename C::iterator It;
    typedef typename C::reverse_iterator RIt;
    typedef xtl::xdynamic_bitset_view<B> V;

    Box box;
    std::vector<bool> m;
    std::unique_ptr<Ref> r;
    std::unique_ptr<Ptr> p;
    std::unique_ptr<It> it;
    std::unique_ptr<RIt> rit;
    std::unique_ptr<V> v2;
    std::string hist;

    HW() : m(g.n) { for (size_t k = 0; k < g.n; ++k) m[k] = pat_bit(g.pat, k); }
    HW(const HW&) = delete;

    C& c() { return box.c; }
    const C& cc() const { return box.c; }
    bool held() const { return r || p || it || rit || v2; }
    // the history is the key: hidden state cannot be seen, so no two histories are ever identified
    const std::string& key() const { return hist; }

    size_t cnt() const { size_t k = 0; for (bool b : m) k += b; return k; }

    // ---- the individual const queries (also operations of the alphabet) ----
    void q_shape(Errs& e) const
    {
        const size_t w = sizeof(B) * 8;
        if (cc().size() != m.size()) e.add("size", "size()=" + str(cc().size()) + " model " + str(m.size()));
        if (cc().empty() != m.empty()) e.add("empty", "empty() wrong");
        if (cc().block_count() != (m.size() + w - 1) / w) e.add("block_count", "block_count()=" + str(cc().block_count()));
    }
    void q_count(Errs& e) const { if (!m.empty() && cc().count() != cnt()) e.add("count", "count()=" + str(cc().count()) + " but " + str(cnt()) + " bits are set: " + bits(m)); }
    void q_any(Errs& e) const { if (cc().any() != (cnt() > 0)) e.add("any", "any()=" + str(cc().any()) + " wrong for " + bits(m)); }
    void q_all(Errs& e) const { if (cc().all() != (cnt() == m.size())) e.add("all", "all()=" + str(cc().all()) + " wrong for " + bits(m)); }
    void q_none(Errs& e) const { if (cc().none() != (cnt() == 0)) e.add("none", "none()=" + str(cc().none()) + " wrong for " + bits(m)); }
    void q_bits(Errs& e, bool with_throw = true) const
    {
        for (size_t k = 0; k < m.size(); ++k) if (bool(cc()[k]) != m[k]) { e.add("index", "const operator[](" + str(k) + ") wrong; model " + bits(m)); return; }
        if (!m.empty() && bool(cc().at(m.size() - 1)) != m.back()) e.add("at-value", "const at(size-1) wrong");
        if (!with_throw) return;   // the throwing at(size()) is part of the query OPERATION; the final battery of every history does without it (cost)
        bool threw = false;
        try { (void)bool(cc().at(m.size())); } catch (const std::out_of_range&) { threw = true; }
        if (!threw) e.add("at-no-throw", "const at(size()) did not throw");
    }
    void q_iter(Errs& e) const
    {
        size_t k = 0;
        bool ok = true;
        for (auto i = cc().begin(); i != cc().end(); ++i, ++k) if (k >= m.size() || bool(*i) != m[k]) ok = false;
        if (!ok || k != m.size()) e.add("iteration", "const iteration visits " + str(k) + " bits and does not yield the model " + bits(m));
        k = m.size(); ok = true;
        for (auto i = cc().crbegin(); i != cc().crend(); ++i) { if (k == 0) { ok = false; break; } --k; if (bool(*i) != m[k]) ok = false; }
        if (!ok || k != 0) e.add("reverse-iteration", "const reverse iteration wrong; model " + bits(m));
    }
    void q_equal(Errs& e) const
    {
        xtl::xdynamic_bitset<B> ref(m.size(), false);
        for (size_t k = 0; k < m.size(); ++k) if (m[k]) ref.set(k);
        if (!(cc() == ref) || (cc() != ref) || !(ref == cc())) e.add("equality", "== against a bitset rebuilt bit-by-bit from the model is false; model " + bits(m));
        if (!m.empty()) { ref.flip(m.size() - 1); if (cc() == ref || !(cc() != ref)) e.add("equality", "== true against a bitset differing in the last bit"); }
    }
    void q_unused(Errs& e) const
    {
        const size_t w = sizeof(B) * 8;
        if (m.size() % w != 0 && cc().block_count() != 0)
        {
            B last = cc().data()[cc().block_count() - 1];
            if ((last >> (m.size() % w)) != 0) e.add("unused-bits", "bits beyond size() are set in the last block");
        }
    }
    // ---- read through whatever handle is held ----
    void q_handle(Errs& e)
    {
        if (r && bool(*r) != m[g.i]) e.add("handle-read", "the held reference to bit " + str(g.i) + " reads " + str(bool(*r)) + ", model " + bits(m));
        if (p && bool(**p) != m[g.i]) e.add("handle-read", "the held pointer to bit " + str(g.i) + " reads " + str(bool(**p)) + ", model " + bits(m));
        if (it && bool(**it) != m[g.i]) e.add("handle-read", "the held iterator at " + str(g.i) + " reads " + str(bool(**it)) + ", model " + bits(m));
        if (it && (*it - c().begin()) != std::ptrdiff_t(g.i)) e.add("handle-position", "the held iterator is no longer at begin()+" + str(g.i));
        if (rit && bool(**rit) != m[g.i]) e.add("handle-read", "the held reverse iterator at " + str(g.i) + " reads " + str(bool(**rit)) + ", model " + bits(m));
        if (v2)
        {
            const V& v = *v2;
            if (v.size() != m.size()) e.add("view2-size", "second view size");
            for (size_t k = 0; k < m.size(); ++k) if (bool(v[k]) != m[k]) { e.add("view2-index", "second view over the same memory reads bit " + str(k) + " wrong; model " + bits(m)); break; }
            if (!m.empty() && v.count() != cnt()) e.add("view2-count", "second view count()=" + str(v.count()) + " but " + str(cnt()) + " bits are set");
            if (v.any() != (cnt() > 0) || v.all() != (cnt() == m.size())) e.add("view2-any-all", "second view any()/all() wrong for " + bits(m));
        }
    }
    // ---- non-const reads ----
    void q_nc_bits(Errs& e) { for (size_t k = 0; k < m.size(); ++k) if (bool(c()[k]) != m[k]) { e.add("index", "operator[](" + str(k) + ") wrong; model " + bits(m)); return; } }
    void q_nc_iter(Errs& e)
    {
        size_t k = 0;
        bool ok = true;
        for (auto i = c().begin(); i != c().end(); ++i, ++k) if (k >= m.size() || bool(*i) != m[k]) ok = false;
        if (!ok || k != m.size()) e.add("iteration", "iteration visits " + str(k) + " bits and does not yield the model " + bits(m));
    }

    void light(Errs&) {}
    // final battery of every history
    void check(Errs& e)
    {
        q_shape(e); q_count(e); q_any(e); q_all(e); q_none(e); q_bits(e, false); q_iter(e); q_equal(e); q_unused(e);
        if (!e.empty()) return;
        q_handle(e);
        q_nc_bits(e); q_nc_iter(e);
        q_count(e); q_any(e); q_all(e);
        box.memory(m, e);
    }
};

template <class Box>
void build(vf::HistoryExplorer<HW<Box>>& hx)
{
    typedef HW<Box> W;
    typedef typename W::Ref Ref;
    typedef typename W::Ptr Ptr;
    typedef typename W::It It;
    typedef typename W::RIt RIt;
    typedef typename W::V V;
    const size_t n = g.n, i = g.i, j = g.j;
    auto add = [&hx](const std::string& kind, const std::string& name, std::function<bool(W&, Errs&)> f) {
        hx.add_op(kind, name, [f, name](W& w, Errs& e) {
            bool ok;
            try { ok = f(w, e); }
            catch (const std::exception& x) { e.add("unexpected-exception", std::string("threw ") + x.what()); return true; }
            if (ok) { w.hist += name; w.hist += ';'; }
            return ok;
        });
    };
    // ---- the handle ----
    switch (g.hk)
    {
    case H_INDEX: add("hold", "r=b[i]", [i](W& w, Errs&) { w.r.reset(new Ref(w.c()[i])); return true; }); break;
    case H_AT: add("hold", "r=b.at(i)", [i](W& w, Errs&) { w.r.reset(new Ref(w.c().at(i))); return true; }); break;
    case H_DEREF: add("hold", "r=*(begin()+i)", [i](W& w, Errs&) { w.r.reset(new Ref(*(w.c().begin() + std::ptrdiff_t(i)))); return true; }); break;
    case H_ENDS:
        if (i == 0) add("hold", "r=front()", [](W& w, Errs&) { w.r.reset(new Ref(w.c().front())); return true; });
        else add("hold", "r=back()", [](W& w, Errs&) { w.r.reset(new Ref(w.c().back())); return true; });
        break;
    case H_PTR: add("hold", "p=&b[i]", [i](W& w, Errs&) { w.p.reset(new Ptr(&w.c()[i])); return true; }); break;
    case H_ITER: add("hold", "it=begin()+i", [i](W& w, Errs&) { w.it.reset(new It(w.c().begin() + std::ptrdiff_t(i))); return true; }); break;
    case H_RITER: add("hold", "rit=rbegin()+(n-1-i)", [i, n](W& w, Errs&) { w.rit.reset(new RIt(w.c().rbegin() + std::ptrdiff_t(n - 1 - i))); return true; }); break;
    case H_VIEWCOPY: add("hold", "v2=view(copy of b)", [](W& w, Errs&) { w.v2.reset(copy_view(w.c())); return bool(w.v2); }); break;
    case H_VIEWDATA: add("hold", "v2=view(b.data(),n)", [n](W& w, Errs&) { w.v2.reset(new V(w.c().data(), n)); return true; }); break;
    default: break;
    }
    if (g.hk >= H_INDEX && g.hk <= H_ENDS)
    {
        for (int v = 0; v < 2; ++v)
            add("held-ref-assign", "r=" + str(v), [i, v](W& w, Errs&) { if (!w.r) return false; *w.r = (v != 0); w.m[i] = (v != 0); return true; });
        add("held-ref-flip", "r.flip()", [i](W& w, Errs&) { if (!w.r) return false; w.r->flip(); w.m[i] = !w.m[i]; return true; });
        add("held-ref-and", "r&=0", [i](W& w, Errs&) { if (!w.r) return false; *w.r &= false; w.m[i] = false; return true; });
        add("held-ref-or", "r|=1", [i](W& w, Errs&) { if (!w.r) return false; *w.r |= true; w.m[i] = true; return true; });
        add("held-ref-xor", "r^=1", [i](W& w, Errs&) { if (!w.r) return false; *w.r ^= true; w.m[i] = !w.m[i]; return true; });
        add("held-ref-copy", "r=b[j]", [i, j](W& w, Errs&) { if (!w.r) return false; *w.r = w.c()[j]; w.m[i] = w.m[j]; return true; });
    }
    if (g.hk == H_PTR)
    {
        for (int v = 0; v < 2; ++v)
            add("held-ptr-assign", "*p=" + str(v), [i, v](W& w, Errs&) { if (!w.p) return false; **w.p = (v != 0); w.m[i] = (v != 0); return true; });
        add("held-ptr-flip", "(*p).flip()", [i](W& w, Errs&) { if (!w.p) return false; (**w.p).flip(); w.m[i] = !w.m[i]; return true; });
    }
    if (g.hk == H_ITER)
    {
        for (int v = 0; v < 2; ++v)
            add("held-iter-assign", "*it=" + str(v), [i, v](W& w, Errs&) { if (!w.it) return false; **w.it = (v != 0); w.m[i] = (v != 0); return true; });
        add("held-iter-flip", "(*it).flip()", [i](W& w, Errs&) { if (!w.it) return false; (**w.it).flip(); w.m[i] = !w.m[i]; return true; });
        add("held-iter-index", "it[j-i]=1", [i, j](W& w, Errs&) { if (!w.it) return false; (*w.it)[std::ptrdiff_t(j) - std::ptrdiff_t(i)] = true; w.m[j] = true; return true; });
    }
    if (g.hk == H_RITER)
    {
        for (int v = 0; v < 2; ++v)
            add("held-riter-assign", "*rit=" + str(v), [i, v](W& w, Errs&) { if (!w.rit) return false; **w.rit = (v != 0); w.m[i] = (v != 0); return true; });
        add("held-riter-flip", "(*rit).flip()", [i](W& w, Errs&) { if (!w.rit) return false; (**w.rit).flip(); w.m[i] = !w.m[i]; return true; });
    }
    if (g.hk == H_VIEWCOPY || g.hk == H_VIEWDATA)
    {
        add("view2-set-all", "v2.set()", [](W& w, Errs&) { if (!w.v2) return false; w.v2->set(); w.m.assign(w.m.size(), true); return true; });
        add("view2-reset-all", "v2.reset()", [](W& w, Errs&) { if (!w.v2) return false; w.v2->reset(); w.m.assign(w.m.size(), false); return true; });
        add("view2-flip-all", "v2.flip()", [](W& w, Errs&) { if (!w.v2) return false; w.v2->flip(); w.m.flip(); return true; });
        add("view2-set-bit", "v2.set(i)", [i](W& w, Errs&) { if (!w.v2) return false; w.v2->set(i); w.m[i] = true; return true; });
        add("view2-reset-bit", "v2.reset(i)", [i](W& w, Errs&) { if (!w.v2) return false; w.v2->reset(i); w.m[i] = false; return true; });
        add("view2-flip-bit", "v2.flip(i)", [i](W& w, Errs&) { if (!w.v2) return false; w.v2->flip(i); w.m[i] = !w.m[i]; return true; });
        add("view2-ref-assign", "v2[i]=1", [i](W& w, Errs&) { if (!w.v2) return false; (*w.v2)[i] = true; w.m[i] = true; return true; });
        add("view2-shl-assign", "v2<<=1", [](W& w, Errs&) {
            if (!w.v2) return false; *w.v2 <<= 1;
            std::vector<bool> t(w.m.size(), false); for (size_t k = 0; k + 1 < w.m.size(); ++k) t[k + 1] = w.m[k]; w.m = t; return true; });
    }
    if (g.hk != H_NONE) add("handle-read", "read(handle)", [](W& w, Errs& e) { if (!w.held()) return false; w.q_handle(e); return true; });
    // ---- every const query is an operation of its own ----
    add("q-shape", "size/empty/block_count", [](W& w, Errs& e) { w.q_shape(e); return true; });
    add("q-count", "count()", [](W& w, Errs& e) { w.q_count(e); return true; });
    add("q-any", "any()", [](W& w, Errs& e) { w.q_any(e); return true; });
    add("q-all", "all()", [](W& w, Errs& e) { w.q_all(e); return true; });
    add("q-none", "none()", [](W& w, Errs& e) { w.q_none(e); return true; });
    add("q-bits", "const[]/at", [](W& w, Errs& e) { w.q_bits(e); return true; });
    add("q-iteration", "const iteration", [](W& w, Errs& e) { w.q_iter(e); return true; });
    add("q-equality", "==rebuilt", [](W& w, Errs& e) { w.q_equal(e); return true; });
    // ---- non-const reads ----
    add("nc-bits", "read b[k] (non-const)", [](W& w, Errs& e) { w.q_nc_bits(e); return true; });
    add("nc-iteration", "iterate begin()..end() (non-const)", [](W& w, Errs& e) { w.q_nc_iter(e); return true; });
    add("nc-data", "data() (non-const)", [](W& w, Errs& e) { if (w.c().data() != w.cc().data()) e.add("data", "data() differs between const and non-const access"); return true; });
    // ---- non-resizing mutators applied to the container itself (the handle, if any, stays valid) ----
    add("set-bit", "set(j)", [j](W& w, Errs&) { w.c().set(j); w.m[j] = true; return true; });
    add("reset-bit", "reset(j)", [j](W& w, Errs&) { w.c().reset(j); w.m[j] = false; return true; });
    add("flip-bit", "flip(j)", [j](W& w, Errs&) { w.c().flip(j); w.m[j] = !w.m[j]; return true; });
    add("ref-flip", "b[j].flip()", [j](W& w, Errs&) { w.c()[j].flip(); w.m[j] = !w.m[j]; return true; });
    add("set-all", "set()", [](W& w, Errs&) { w.c().set(); w.m.assign(w.m.size(), true); return true; });
    add("reset-all", "reset()", [](W& w, Errs&) { w.c().reset(); w.m.assign(w.m.size(), false); return true; });
    add("flip-all", "flip()", [](W& w, Errs&) { w.c().flip(); w.m.flip(); return true; });
    add("shl-assign", "<<=1", [](W& w, Errs&) {
        w.c() <<= 1; std::vector<bool> t(w.m.size(), false); for (size_t k = 0; k + 1 < w.m.size(); ++k) t[k + 1] = w.m[k]; w.m = t; return true; });
    add("shr-assign", ">>=1", [](W& w, Errs&) {
        w.c() >>= 1; std::vector<bool> t(w.m.size(), false); for (size_t k = 1; k < w.m.size(); ++k) t[k - 1] = w.m[k]; w.m = t; return true; });
}

struct Totals
{
    long long configs = 0, histories = 0, runs = 0, steps = 0, inapplicable = 0, viol = 0, battery = 0;
    size_t ops_min = 1 << 30, ops_max = 0;
    int depth = 0;
    std::map<std::string, long long> per_kind;
    bool capped = false;
};
static Totals T;

static std::string inst_name(const char* block, const char* kind)
{
    return std::string(block) + "/hold-" + kind + "/n" + str(g.n) + "/" + PATN[g.pat] + "/i" + str(g.i) + "j" + str(g.j) + "/" + HKN[g.hk];
}

template <class Box>
void run_cfg(int depth, double deadline, const std::string& replay_trace, bool replay)
{
    typedef typename Box::C::block_type B;
    vf::HistoryExplorer<HW<Box>> hx;
    hx.prop = "C03";
    hx.inst = inst_name(bname<B>::n(), Box::kind());
    hx.max_depth = depth;
    hx.deadline_s = deadline;
    build<Box>(hx);
    if (replay) { hx.replay(replay_trace); return; }
    hx.run();
    T.configs++;
    T.histories += (long long)hx.nodes.size();
    T.runs += hx.transitions;
    T.steps += hx.steps_executed;
    T.inapplicable += hx.inapplicable;
    T.viol += hx.viol_transitions;
    T.battery += hx.full_checks;
    if (hx.depth_reached > T.depth) T.depth = hx.depth_reached;
    if (hx.ops.size() < T.ops_min) T.ops_min = hx.ops.size();
    if (hx.ops.size() > T.ops_max) T.ops_max = hx.ops.size();
    for (auto& kv : hx.per_kind) T.per_kind[kv.first] += kv.second.first;
    // `complete` is false because of the depth bound (expected); anything else that stopped the run is a cap
    if (hx.state_cap_hit) { T.capped = true; vf::cap("C03/" + hx.inst + ": state cap reached"); }
}

static bool applicable_cfg(bool is_view)
{
    if (g.n == 0 || g.i >= g.n || g.j >= g.n) return false;
    if (g.hk == H_ENDS && !(g.i == 0 || g.i == g.n - 1)) return false;
    // a second view over the same memory is a statement about VIEWS ("a view over caller memory behaves identically on the
    // bits it covers"); an owning bitset written through a foreign view of its data() is not in the statement
    if ((g.hk == H_VIEWCOPY || g.hk == H_VIEWDATA) && !is_view) return false;
    return true;
}

template <class B>
void run_block(const std::string& kind, bool thorough, int depth, double deadline)
{
    const size_t w = sizeof(B) * 8;
    // narrow (quick, and the depth-4 pass of thorough): two blocks with a partial last block, mixed content (all-zeros / all-ones are
    // one operation away); wide (thorough, depth 3): one bit, exactly one block, w+1, 2w+1 and three initial contents
    std::vector<size_t> sizes = thorough ? std::vector<size_t>{1, w, w + 1, 2 * w + 1} : std::vector<size_t>{w + 1};
    std::vector<int> pats = thorough ? std::vector<int>{0, 1, 2} : std::vector<int>{2};
    auto t0 = std::chrono::steady_clock::now();
    for (size_t n : sizes)
    {
        // (handle position, position of the direct mutators): first bit, last bit of the first block, the partial last block, same bit
        std::vector<std::pair<size_t, size_t>> pos;
        if (n == 1) pos = {{0, 0}};
        else if (thorough) pos = {{0, n - 1}, {n - 1, 0}, {n - 1, n - 1}, {(w - 1) % n, w % n}, {w % n, (w - 1) % n}};
        else pos = {{0, n - 1}, {n - 1, n - 1}, {w - 1, 0}};
        std::sort(pos.begin(), pos.end());
        pos.erase(std::unique(pos.begin(), pos.end()), pos.end());
        for (int pat : pats)
            for (auto& ij : pos)
                for (int hk = 0; hk < H_COUNT_; ++hk)
                {
                    g.n = n; g.pat = pat; g.i = ij.first; g.j = ij.second; g.hk = hk;
                    if (hk == H_NONE && &ij != &pos[0] && !thorough) continue;   // without a handle only j matters; quick: one position
                    if (!applicable_cfg(kind == "view")) continue;
                    double el = std::chrono::duration<double>(std::chrono::steady_clock::now() - t0).count();
                    if (el > deadline) { if (!T.capped) vf::cap(std::string("C03/") + bname<B>::n() + "/hold-" + kind + ": deadline reached after " + str(T.configs) + " configurations"); T.capped = true; continue; }
                    if (kind == "view") run_cfg<ViewBox<B>>(depth, deadline - el, "", false);
                    else run_cfg<OwnBox<B>>(depth, deadline - el, "", false);
                }
    }
}

// inst = <block>/hold-<kind>/n<N>/<pattern>/i<I>j<J>/<handle kind>
static bool parse_inst(const std::string& inst, std::string& block, std::string& kind)
{
    std::vector<std::string> f;
    size_t p = 0;
    while (p <= inst.size()) { size_t q = inst.find('/', p); if (q == std::string::npos) q = inst.size(); f.push_back(inst.substr(p, q - p)); p = q + 1; }
    if (f.size() != 6 || f[1].compare(0, 5, "hold-") != 0) return false;
    block = f[0]; kind = f[1].substr(5);
    g.n = size_t(std::atol(f[2].c_str() + 1));
    g.pat = -1;
    for (int k = 0; k < 4; ++k) if (f[3] == PATN[k]) g.pat = k;
    size_t jp = f[4].find('j');
    g.i = size_t(std::atol(f[4].c_str() + 1)); g.j = size_t(std::atol(f[4].c_str() + jp + 1));
    g.hk = -1;
    for (int k = 0; k < H_COUNT_; ++k) if (f[5] == HKN[k]) g.hk = k;
    return g.pat >= 0 && g.hk >= 0;
}

int main(int argc, char** argv)
{
    std::string block = "u8", kind = "own", replay_inst, replay_trace;
    bool thorough = false, replay = false;
    int depth = 3;
    double deadline = 1e18;
    for (int k = 1; k < argc; ++k)
    {
        std::string a = argv[k];
        if (a == "--block") block = argv[++k];
        else if (a == "--kind") kind = argv[++k];
        else if (a == "--depth") depth = std::atoi(argv[++k]);
        else if (a == "--wide") thorough = true;
        else if (a == "--deadline") deadline = std::atof(argv[++k]);
        else if (a == "--replay") { replay = true; replay_inst = argv[++k]; replay_trace = argv[++k]; }
    }
    if (replay)
    {
        if (!parse_inst(replay_inst, block, kind) || !applicable_cfg(kind == "view")) { std::printf("replay: bad instantiation %s\n", replay_inst.c_str()); vf::done(); return 0; }
#define RDISPATCH(TY, NAME) if (block == NAME) { if (kind == "view") run_cfg<ViewBox<TY>>(1 << 30, 1e18, replay_trace, true); else run_cfg<OwnBox<TY>>(1 << 30, 1e18, replay_trace, true); }
        RDISPATCH(uint8_t, "u8") RDISPATCH(uint16_t, "u16") RDISPATCH(uint32_t, "u32") RDISPATCH(uint64_t, "u64")
        vf::done();
        return 0;
    }
    if (block == "u8") run_block<uint8_t>(kind, thorough, depth, deadline);
    if (block == "u16") run_block<uint16_t>(kind, thorough, depth, deadline);
    if (block == "u32") run_block<uint32_t>(kind, thorough, depth, deadline);
    if (block == "u64") run_block<uint64_t>(kind, thorough, depth, deadline);
    vf::stat("handle_configurations", T.configs);
    vf::stat("handle_histories", T.histories);
    vf::stat("handle_history_runs", T.runs);
    vf::stat("handle_steps_executed", T.steps);
    vf::stat("handle_final_batteries", T.battery);
    vf::stat("handle_inapplicable_skipped", T.inapplicable);
    vf::stat("handle_violating_runs", T.viol);
    vf::smax("handle_history_depth", T.depth);
    std::string kinds;
    for (auto& kv : T.per_kind) kinds += kv.first + ":" + str(kv.second) + " ";
    vf::note("C03/" + block + "/hold-" + kind + ": " + str(T.configs) + " configurations (size x initial content x handle/mutator positions x handle kind), alphabet " + str(T.ops_min) + ".." + str(T.ops_max) +
             " operations, ALL histories up to length " + str(depth) + " each on a fresh world + final battery: " + str(T.histories) + " histories kept, " + str(T.runs) + " history executions, " +
             str(T.steps) + " steps; last-step kinds: " + kinds);
    vf::done();
    return 0;
}
