"""C03 xdynamic_bitset / view vs std::vector<bool>: explicit-state BFS (E1) to fixpoint for narrow blocks, depth-bounded for wide ones;
size sweep, allocation faults, held handles / query interleavings (bounded histories), initializer lists of every length, the allocator
dimension (the whole owning alphabet and the list routes over a default-initialising allocator on dirtied memory) and requests at the top of
size_type's range / around the allocator's limit (see NOTES.md)."""
import os
import vlib

LEVEL = "model_checking"
HERE = os.path.dirname(os.path.abspath(__file__))
SRC = os.path.join(HERE, "harness.cpp")


def build():
    return vlib.compile_cxx(SRC, "c03", std="c++14", opt="-O1", san="asan")


SWEEP = os.path.join(HERE, "sweep.cpp")


def build_sweep():
    return vlib.compile_cxx(SWEEP, "c03sw", std="c++14", opt="-O1", san="asan")


LISTS = os.path.join(HERE, "lists.cpp")
HANDLES = os.path.join(HERE, "handles.cpp")


def build_lists():
    return vlib.compile_cxx(LISTS, "c03li", std="c++14", opt="-O1", san="asan")


def build_handles():
    return vlib.compile_cxx(HANDLES, "c03hd", std="c++14", opt="-O1", san="asan")


LIMITS = os.path.join(HERE, "limits.cpp")


def build_dirty():
    # the same source as build(): -DC03_DIRTY_ALLOC makes the owning world an xdynamic_bitset<B, c03::DirtyAlloc<B>>
    return vlib.compile_cxx(SRC, "c03da", std="c++14", opt="-O1", san="asan", defines=("C03_DIRTY_ALLOC",))


def build_limits():
    return vlib.compile_cxx(LIMITS, "c03lm", std="c++14", opt="-O1", san="asan")


# the handle part executes millions of short histories, each on a fresh world: a small quarantine keeps its resident size at ~100 MB
HANDLES_ENV = {"ASAN_OPTIONS": vlib.ASAN_ENV + ":quarantine_size_mb=32"}
BLOCKS = ("u8", "u16", "u32", "u64")


def plan_lists(tier):
    if tier == "quick":
        return [["--block", b, "--lmax", "136", "--xmax", "10"] for b in BLOCKS]
    return [["--block", b, "--lmax", "200", "--xmax", "13", "--pairs"] for b in BLOCKS]


def plan_handles(tier):
    if tier == "quick":
        return [["--block", b, "--kind", k, "--depth", "3"] for k in ("view", "own") for b in reversed(BLOCKS)]
    return ([["--block", b, "--kind", k, "--depth", "4"] for k in ("view", "own") for b in reversed(BLOCKS)] +
            [["--block", b, "--kind", k, "--depth", "3", "--wide"] for k in ("view", "own") for b in reversed(BLOCKS)])


def plan_dirty(tier):
    """owning alphabet over the default-initialising allocator; --fill = the byte allocate() leaves in the memory it hands out"""
    if tier == "quick":
        return [["--block", b, "--kind", "owning", "--fill", f] + a
                for b, a in (("u8", ["--S", "10"]), ("u64", ["--S", "129", "--depth", "3"]), ("u32", ["--S", "65", "--depth", "3"]), ("u16", ["--S", "17", "--depth", "3"]))
                for f in ("FF", "A5")]
    return [["--block", b, "--kind", "owning", "--fill", f] + a
            for b, a in (("u8", ["--S", "10", "--full-gallery"]), ("u8", ["--S", "17", "--depth", "4", "--max-states", "100000"]),
                         ("u16", ["--S", "17", "--depth", "4", "--max-states", "100000"]),
                         ("u32", ["--S", "65", "--depth", "4", "--max-states", "100000"]), ("u64", ["--S", "129", "--depth", "4", "--max-states", "100000"]))
            for f in ("FF", "A5")]


def plan_limits(tier):
    if tier == "quick":
        return ([["--block", b, "--alloc", a] for b in ("u64", "u32") for a in ("std", "cap3", "throw3")] + [["--block", "u16"], ["--block", "u8"]])
    return [["--block", b, "--alloc", a, "--all-small", "--wide-windows"] for b in reversed(BLOCKS) for a in ("std", "cap3", "throw3")]


def plan(tier):
    # (args, fixpoint?)
    if tier == "quick":
        return [
            ["--block", "u8", "--kind", "owning", "--S", "10"],
            ["--block", "u8", "--kind", "view", "--S", "10"],
            ["--block", "u16", "--kind", "owning", "--S", "17", "--depth", "3"],
            ["--block", "u32", "--kind", "owning", "--S", "65", "--depth", "3"],
            ["--block", "u64", "--kind", "owning", "--S", "129", "--depth", "3"],
            ["--block", "u16", "--kind", "view", "--S", "17", "--depth", "3"],
            ["--block", "u32", "--kind", "view", "--S", "65", "--depth", "2"],
            ["--block", "u64", "--kind", "view", "--S", "129", "--depth", "2"],
            ["--block", "u8", "--kind", "fault", "--S", "10"],
            ["--block", "u64", "--kind", "fault", "--S", "129", "--depth", "3"],
        ]
    return [
        ["--block", "u8", "--kind", "owning", "--S", "10", "--full-gallery"],
        ["--block", "u8", "--kind", "view", "--S", "10", "--full-gallery"],
        ["--block", "u8", "--kind", "owning", "--S", "17"],
        ["--block", "u16", "--kind", "owning", "--S", "17"],
        ["--block", "u8", "--kind", "view", "--S", "17"],
        ["--block", "u16", "--kind", "view", "--S", "17"],
        ["--block", "u32", "--kind", "owning", "--S", "65", "--depth", "4", "--max-states", "400000"],
        ["--block", "u64", "--kind", "owning", "--S", "129", "--depth", "4", "--max-states", "400000"],
        ["--block", "u32", "--kind", "view", "--S", "65", "--depth", "3", "--max-states", "200000"],
        ["--block", "u64", "--kind", "view", "--S", "129", "--depth", "3", "--max-states", "200000"],
        ["--block", "u8", "--kind", "fault", "--S", "17"],
        ["--block", "u16", "--kind", "fault", "--S", "33"],
        ["--block", "u64", "--kind", "fault", "--S", "129", "--depth", "4"],
    ]


def run(ctx):
    binary, sw, li, hd, da, lm = vlib.parallel([build, build_sweep, build_lists, build_handles, build_dirty, build_limits])
    dl = str(int(max(60, ctx.time_left() - 30)))
    jobs = [(lambda a=a: ctx.run_harness(binary, a + ["--deadline", dl], tag="c03")) for a in plan(ctx.tier)]
    nmax = "2200" if ctx.tier == "quick" else "6400"
    jobs += [(lambda b=b: ctx.run_harness(sw, ["--block", b, "--nmax", nmax], tag="c03sw")) for b in BLOCKS]
    # these jobs are queued behind the ones above: their deadline is computed when they start
    jobs += [(lambda a=a: ctx.run_harness(hd, a + ["--deadline", str(int(max(30, ctx.time_left() - 30)))], tag="c03hd", env=HANDLES_ENV)) for a in plan_handles(ctx.tier)]
    jobs += [(lambda a=a: ctx.run_harness(li, a, tag="c03li")) for a in plan_lists(ctx.tier)]
    # short jobs (2..10 s each on an idle machine) queued behind everything else: on an overloaded machine they start late, and get at least 120 s
    # (run_harness allows a harness 300 s at least)
    late = lambda: str(int(max(120, ctx.time_left() - 30)))
    jobs += [(lambda a=a: ctx.run_harness(da, a + ["--deadline", late()], tag="c03da")) for a in plan_dirty(ctx.tier)]
    jobs += [(lambda a=a: ctx.run_harness(lm, a + ["--deadline", late()], tag="c03lm", env=HANDLES_ENV)) for a in plan_limits(ctx.tier)]
    vlib.parallel(jobs)
    ctx.rule = ("BFS over raw states (size, block count, every block incl. bits beyond size()) of real xdynamic_bitset / xdynamic_bitset_view objects; "
                "every operation instance of the alphabet (constructors, assign x3, resize(s[,b]), clear, push/pop_back, set/reset/flip all and per bit, reference and iterator writes, "
                "<<= >>= << >> by {0,1,3,w/2,w-1,w,w+1,2w,2w+1,size-1,size,size+1}, &= |= ^= & | ^ swap against an operand gallery, ~, copy, move, view round trip) applied to every reachable state; "
                "oracle std::vector<bool>; in every new state all queries (size empty count any all none [] at front back iteration x5 block_count == != copy move unused-bit invariant). "
                "narrow blocks to fixpoint, wide blocks depth-bounded (see notes). Fault part: a bitset over an allocator whose allocate() is a throw point; resize/assign/push_back/copy/reserve "
                "are also run with the k-th allocation failing for every k; afterwards block_count, the unused-bit invariant and all queries must be consistent. "
                "SIZE SWEEP (sweep.cpp): every size 0..2200 (quick) / 0..6400 (thorough) x 8 structured patterns (ones, zeros, alternating, every third, last only, all but first, one byte lane, ones with a hole per 64) x 4 block types, "
                "built through proxies, bulk constructors, set/flip/reset/resize and push_back, as bitset and as view: size/count/any/all/none/every bit/iteration, complement and & | ^ identities, shifts by 1, w, w+1, single-bit inequality. "
                "HELD HANDLES AND QUERY INTERLEAVINGS (handles.cpp): the world is one container (owning bitset, or a view object that lives across the operations) plus at most one HELD handle "
                "(element reference from operator[] / at() / *iterator / front()/back(), pointer to an element reference, iterator, reverse iterator, for views a second view over the same caller memory: a copy, and one made from data()); "
                "alphabet: acquire the handle, every write the handle offers, read through it, each const query as an operation of its own (size/empty/block_count, count, any, all, none, const []/at, const iteration, ==), "
                "non-const reads ([], begin(), data()), non-resizing mutators (set/reset/flip of one bit and of all bits, b[j].flip(), <<=1, >>=1); ALL histories up to length 3 (thorough: 4, and length 3 over more sizes/contents/positions), "
                "each executed on a fresh world with no oracle read in between (hidden state cannot be keyed, so histories are never merged), then the final battery (const queries, handle read, non-const reads, count/any/all again, caller memory); "
                "4 block types x {owning, view} x size w+1 x mixed content x 3 (handle, mutator) positions x every handle kind (quick). "
                "BOOL LISTS (lists.cpp): std::initializer_list<bool> of EVERY length 0..136 (thorough 0..200) x content (all 2^L contents for L <= 10 (13); above: 9 structured contents + a walking one and a walking zero at every position; "
                "thorough: every pair of set bits at lengths w-1, w, w+1, 2w+1 of every block width) x 4 block types x 9 routes (constructor, constructor with allocator, copy-list-initialisation, assign() onto 6 earlier contents): "
                "all queries, unused-bit invariant, == against push_back-built and set(i)-built bitsets. "
                "ALLOCATOR DIMENSION: harness.cpp built a second time with the owning world over c03::DirtyAlloc (construct(p) without arguments default-initialises, allocate() hands out memory filled with 0xFF / 0xA5): "
                "the WHOLE owning alphabet (plus the allocator-taking constructors) applied to every reachable state, same oracle and queries: u8 S=10 to fixpoint, u16/u32/u64 to the depth of the owning part, both fill bytes; "
                "lists.cpp runs its 9 routes over std::allocator and over DirtyAlloc with both fill bytes. "
                "SIZE LIMITS (limits.cpp): allocator {std::allocator over an operator new that refuses > 16 MiB at once, max_size() = 3 blocks, allocate(n > 3) throws} x 9 initial states x "
                "{resize(n), resize(n,true), assign(n,b), bitset(n), bitset(n,b), reserve(n)} x n in {block boundaries up to 5w+1 (every size for u8/u16), SIZE_MAX-w-1..SIZE_MAX, 2^63 +-(w+1), max_size() +-(w+1), 2^k-1..2^k+1 for k = 28..62} "
                "and push_back at every initial state, each followed by a 4-step probe sequence (push_back, resize(SIZE_MAX,true), flip, assign(SIZE_MAX-w+1,true)) on the same object; oracle: exact arithmetic (ceil(n/w) in 128 bits against the allocator's known limit): "
                "an unsatisfiable request must throw (any type) and leave size/block_count/blocks as they were (assign: a well formed bitset), a satisfiable one must succeed and hold what std::vector<bool> holds, "
                "never size() over blocks that cannot back it; full query battery after every operation. "
                "distinct_nontrivial = distinct raw states reached by the BFS parts; evaluations = BFS transitions + history executions of the handle part + list constructions/assignments judged + limit operations judged")
    ctx.stats["distinct_nontrivial"] = ctx.stats.get("states", 0)
    ctx.stats["evaluations"] = ctx.stats.get("transitions", 0) + ctx.stats.get("handle_history_runs", 0) + ctx.stats.get("list_evaluations", 0) + ctx.stats.get("limit_operations_judged", 0)
    ctx.assumptions += [
        "std::vector<bool> and zero-fill shift semantics are the reference",
        "operations with a precondition the statement does not cover are not in the alphabet: pop_back/front/back on empty, set/reset/flip/[] with pos >= size, binary operators on operands of different size, use of a moved-from bitset",
        "uint32_t/uint64_t blocks are explored to a depth bound with boundary bit indices (2^(2w+1) patterns cannot be exhausted); the code is generic in the block type and the narrow types carry the exhaustive part",
        "count() on an empty owning bitset is not called (it forms &m_buffer[0] of an empty vector, which no property mentions)",
        "held handles: only operations that keep the size are applied while a handle is held (resizing invalidates references and iterators, as for std::vector<bool>); an owning bitset written through a foreign view of its data() is not in the statement and is not enumerated (a second view over the same CALLER memory is)",
        "the handle part is bounded by history length, not run to a fixpoint: what a container may remember between calls is invisible, so two histories are never identified",
        "initializer lists: the length is a compile-time property (one instantiation per length 0..200), the content is enumerated at run time",
        "allocator dimension: an allocator may leave default-inserted elements uninitialised and hand out memory with any content (the standard's allocator requirements allow both); fill bytes 0xFF and 0xA5 stand for 'any content'",
        "size limits: WHICH exception an unsatisfiable request throws is not judged (length_error, bad_alloc and anything else are accepted and counted); after a failed assign only well-formedness is required "
        "(std::vector<bool>::assign gives the basic guarantee), after a failed resize / push_back / reserve / constructor the bitset must be unchanged (std::vector<bool> has no effects there); whether reserve(n) throws, capacity() and max_size() are not judged; "
        "no huge allocation is ever attempted: the std::allocator runs sit on a replaced global operator new that answers requests above 16 MiB with std::bad_alloc (under ASan the default one aborts the process instead of throwing)",
    ]


def replay(ctx, rec):
    if rec["args"] and rec["args"][0] == "--sweep-only":
        ctx.run_harness(build_sweep(), rec["args"], tag="c03sw")
        return
    if rec["args"] and rec["args"][0] == "--only":
        ctx.run_harness(build_lists(), rec["args"], tag="c03li")
        return
    if rec["args"] and rec["args"][0] == "--limit-only":
        ctx.run_harness(build_limits(), rec["args"], tag="c03lm", env=HANDLES_ENV)
        return
    if len(rec["args"]) > 1 and rec["args"][0] == "--replay" and "/dirty" in rec["args"][1]:
        ctx.run_harness(build_dirty(), rec["args"], tag="c03da")
        return
    if len(rec["args"]) > 1 and rec["args"][0] == "--replay" and "/hold-" in rec["args"][1]:
        ctx.run_harness(build_handles(), rec["args"], tag="c03hd", env=HANDLES_ENV)
        return
    ctx.run_harness(build(), rec["args"], tag="c03")
