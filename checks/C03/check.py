"""C03 xdynamic_bitset / view vs std::vector<bool>: explicit-state BFS (E1) to fixpoint for narrow blocks, depth-bounded for wide ones."""
import os
import vlib

LEVEL = "model_checking"
HERE = os.path.dirname(os.path.abspath(__file__))
SRC = os.path.join(HERE, "harness.cpp")


def build():
    return vlib.compile_cxx(SRC, "c03", std="c++14", opt="-O1", san="asan")


SWEEP = os.path.join(HERE, "sweep.cpp")


def build_sweep():
    return vlib.compile_cxx(SWEEP, "c03sw", std="c++14", opt="-O1", san="asan")


def plan(tier):
    # (args, fixpoint?)
    if tier == "quick":
        return [
            ["--block", "u8", "--kind", "owning", "--S", "10"],
            ["--block", "u8", "--kind", "view", "--S", "10"],
            ["--block", "u16", "--kind", "owning", "--S", "17", "--depth", "3"],
            ["--block", "u32", "--kind", "owning", "--S", "65", "--depth", "3"],
            ["--block", "u64", "--kind", "owning", "--S", "129", "--depth", "3"],
            ["--block", "u16", "--kind", "view", "--S", "17", "--depth", "3"],
            ["--block", "u32", "--kind", "view", "--S", "65", "--depth", "2"],
            ["--block", "u64", "--kind", "view", "--S", "129", "--depth", "2"],
            ["--block", "u8", "--kind", "fault", "--S", "10"],
            ["--block", "u64", "--kind", "fault", "--S", "129", "--depth", "3"],
        ]
    return [
        ["--block", "u8", "--kind", "owning", "--S", "10", "--full-gallery"],
        ["--block", "u8", "--kind", "view", "--S", "10", "--full-gallery"],
        ["--block", "u8", "--kind", "owning", "--S", "17"],
        ["--block", "u16", "--kind", "owning", "--S", "17"],
        ["--block", "u8", "--kind", "view", "--S", "17"],
        ["--block", "u16", "--kind", "view", "--S", "17"],
        ["--block", "u32", "--kind", "owning", "--S", "65", "--depth", "4", "--max-states", "400000"],
        ["--block", "u64", "--kind", "owning", "--S", "129", "--depth", "4", "--max-states", "400000"],
        ["--block", "u32", "--kind", "view", "--S", "65", "--depth", "3", "--max-states", "200000"],
        ["--block", "u64", "--kind", "view", "--S", "129", "--depth", "3", "--max-states", "200000"],
        ["--block", "u8", "--kind", "fault", "--S", "17"],
        ["--block", "u16", "--kind", "fault", "--S", "33"],
        ["--block", "u64", "--kind", "fault", "--S", "129", "--depth", "4"],
    ]


def run(ctx):
    binary, sw = vlib.parallel([build, build_sweep])
    dl = str(int(max(60, ctx.time_left() - 30)))
    jobs = [(lambda a=a: ctx.run_harness(binary, a + ["--deadline", dl], tag="c03")) for a in plan(ctx.tier)]
    nmax = "2200" if ctx.tier == "quick" else "6400"
    jobs += [(lambda b=b: ctx.run_harness(sw, ["--block", b, "--nmax", nmax], tag="c03sw")) for b in ("u8", "u16", "u32", "u64")]
    vlib.parallel(jobs)
    ctx.rule = ("BFS over raw states (size, block count, every block incl. bits beyond size()) of real xdynamic_bitset / xdynamic_bitset_view objects; "
                "every operation instance of the alphabet (constructors, assign x3, resize(s[,b]), clear, push/pop_back, set/reset/flip all and per bit, reference and iterator writes, "
                "<<= >>= << >> by {0,1,3,w/2,w-1,w,w+1,2w,2w+1,size-1,size,size+1}, &= |= ^= & | ^ swap against an operand gallery, ~, copy, move, view round trip) applied to every reachable state; "
                "oracle std::vector<bool>; in every new state all queries (size empty count any all none [] at front back iteration x5 block_count == != copy move unused-bit invariant). "
                "narrow blocks to fixpoint, wide blocks depth-bounded (see notes). Fault part: a bitset over an allocator whose allocate() is a throw point; resize/assign/push_back/copy/reserve "
                "are also run with the k-th allocation failing for every k; afterwards block_count, the unused-bit invariant and all queries must be consistent. "
                "SIZE SWEEP (sweep.cpp): every size 0..2200 (quick) / 0..6400 (thorough) x 8 structured patterns (ones, zeros, alternating, every third, last only, all but first, one byte lane, ones with a hole per 64) x 4 block types, "
                "built through proxies, bulk constructors, set/flip/reset/resize and push_back, as bitset and as view: size/count/any/all/none/every bit/iteration, complement and & | ^ identities, shifts by 1, w, w+1, single-bit inequality. "
                "distinct_nontrivial = distinct raw states reached")
    ctx.stats["distinct_nontrivial"] = ctx.stats.get("states", 0)
    ctx.stats["evaluations"] = ctx.stats.get("transitions", 0)
    ctx.assumptions += [
        "std::vector<bool> and zero-fill shift semantics are the reference",
        "operations with a precondition the statement does not cover are not in the alphabet: pop_back/front/back on empty, set/reset/flip/[] with pos >= size, binary operators on operands of different size, use of a moved-from bitset",
        "uint32_t/uint64_t blocks are explored to a depth bound with boundary bit indices (2^(2w+1) patterns cannot be exhausted); the code is generic in the block type and the narrow types carry the exhaustive part",
        "count() on an empty owning bitset is not called (it forms &m_buffer[0] of an empty vector, which no property mentions)",
    ]


def replay(ctx, rec):
    if rec["args"] and rec["args"][0] == "--sweep-only":
        ctx.run_harness(build_sweep(), rec["args"], tag="c03sw")
        return
    ctx.run_harness(build(), rec["args"], tag="c03")
