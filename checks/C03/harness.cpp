// C03: xdynamic_bitset / xdynamic_bitset_view against std::vector<bool> — explicit-state BFS (engine E1).
#include <xtl/xdynamic_bitset.hpp>

#include "explorer.hpp"
#include "history.hpp"

// ALLOCATOR DIMENSION of the owning bitset: the same source is built a second time with -DC03_DIRTY_ALLOC; in that build the
// owning world is an xdynamic_bitset<B, c03::DirtyAlloc<B>> (construct(p) without arguments default-initialises, allocate()
// hands out memory filled with the byte given by --fill), and the WHOLE alphabet of build_owning runs over it, judged by
// std::vector<bool> as before: every storage-creating site must produce the right bits no matter what the memory held.
#include "dirty_alloc.hpp"
#ifdef C03_DIRTY_ALLOC
template <class B> struct own_alloc { typedef c03::DirtyAlloc<B> type; };
#else
template <class B> struct own_alloc { typedef std::allocator<B> type; };
#endif

#include <algorithm>
#include <cstdint>
#include <set>
#include <stdexcept>
#include <string>
#include <vector>

using vf::Errs;
using vf::str;

static std::string bits(const std::vector<bool>& m)
{
    std::string s;
    for (bool b : m) s += b ? '1' : '0';
    return s.empty() ? "<empty>" : s;
}

template <class B> struct bname;
template <> struct bname<uint8_t> { static const char* n() { return "u8"; } };
template <> struct bname<uint16_t> { static const char* n() { return "u16"; } };
template <> struct bname<uint32_t> { static const char* n() { return "u32"; } };
template <> struct bname<uint64_t> { static const char* n() { return "u64"; } };

template <class B>
std::string hexblocks(const B* p, size_t n)
{
    std::string s;
    char buf[32];
    for (size_t i = 0; i < n; ++i) { std::snprintf(buf, sizeof buf, "%llx.", (unsigned long long)p[i]); s += buf; }
    return s;
}

// ---- queries common to owning bitsets and views: everything the statement lists, against the model ----
template <class BS>
void query_all(const BS& cbs, const std::vector<bool>& m, Errs& e, bool owning)
{
    typedef typename BS::block_type B;
    const size_t w = sizeof(B) * 8;
    BS& bs = const_cast<BS&>(cbs);
    const size_t n = m.size();
    if (cbs.size() != n) { e.add("size", "size()=" + str(cbs.size()) + " model " + str(n)); return; }
    if (cbs.empty() != m.empty()) e.add("empty", "empty() wrong");
    size_t cnt = size_t(std::count(m.begin(), m.end(), true));
    if (n > 0 || owning)
    {
        // count() on an empty *owning* bitset forms &m_buffer[0] of an empty vector; harmless, no property speaks of it
        if (n > 0 && cbs.count() != cnt) e.add("count", "count()=" + str(cbs.count()) + " model " + str(cnt) + " bits " + bits(m));
    }
    if (cbs.any() != (cnt > 0)) e.add("any", "any() wrong for " + bits(m));
    if (cbs.none() != (cnt == 0)) e.add("none", "none() wrong for " + bits(m));
    if (cbs.all() != (cnt == n)) e.add("all", "all()=" + str(cbs.all()) + " wrong for " + bits(m));
    if (cbs.block_count() != (n + w - 1) / w) e.add("block_count", "block_count()=" + str(cbs.block_count()) + " for size " + str(n));
    for (size_t i = 0; i < n; ++i)
    {
        if (bool(cbs[i]) != m[i]) { e.add("index", "const operator[](" + str(i) + ") wrong; model " + bits(m)); break; }
        if (bool(bs[i]) != m[i]) { e.add("index", "operator[](" + str(i) + ") wrong; model " + bits(m)); break; }
    }
    // at(i): value for i < size, std::out_of_range exactly when i >= size
    for (size_t i = 0; i <= n + w + 1; ++i)
    {
        bool threw = false, val = false;
        try { val = bool(cbs.at(i)); } catch (const std::out_of_range&) { threw = true; }
        bool threw2 = false;
        try { (void)bool(bs.at(i)); } catch (const std::out_of_range&) { threw2 = true; }
        if (i < n)
        {
            if (threw || threw2) { e.add("at-throws-in-range", "at(" + str(i) + ") threw with size " + str(n)); break; }
            if (val != m[i]) { e.add("at-value", "at(" + str(i) + ") wrong"); break; }
        }
        else if (!threw || !threw2)
        {
            e.add("at-no-throw", "at(" + str(i) + ") did not throw std::out_of_range although size()=" + str(n));
            break;
        }
    }
    if (n > 0)
    {
        if (bool(cbs.front()) != m.front() || bool(bs.front()) != m.front()) e.add("front", "front() wrong");
        if (bool(cbs.back()) != m.back() || bool(bs.back()) != m.back()) e.add("back", "back() wrong");
    }
    // traversals
    {
        std::vector<bool> f, cf, r, cr, mf;
        for (auto it = cbs.begin(); it != cbs.end(); ++it) f.push_back(bool(*it));
        for (auto it = cbs.cbegin(); it != cbs.cend(); ++it) cf.push_back(bool(*it));
        for (auto it = bs.begin(); it != bs.end(); ++it) mf.push_back(bool(*it));
        for (auto it = cbs.rbegin(); it != cbs.rend(); ++it) r.push_back(bool(*it));
        for (auto it = cbs.crbegin(); it != cbs.crend(); ++it) cr.push_back(bool(*it));
        std::vector<bool> rm(m.rbegin(), m.rend());
        if (f != m || cf != m || mf != m) e.add("iteration", "forward iteration yields " + bits(f) + " model " + bits(m));
        if (r != rm || cr != rm) e.add("reverse-iteration", "reverse iteration yields " + bits(r) + " model reversed " + bits(rm));
        if (size_t(cbs.end() - cbs.begin()) != n) e.add("iteration", "end()-begin() != size()");
    }
    // canonical form: bits beyond size() in the last block are zero
    if (n % w != 0)
    {
        B last = cbs.data()[cbs.block_count() - 1];
        B mask = B(~B(0)) << (n % w);
        if ((last & mask) != 0) e.add("unused-bits", "bits beyond size() are set in the last block: " + hexblocks(cbs.data(), cbs.block_count()) + " size " + str(n));
    }
    // equality against a bitset rebuilt bit by bit (different construction route)
    {
        xtl::xdynamic_bitset<B> ref;
        for (bool b : m) ref.push_back(b);
        if (!(cbs == ref) || (cbs != ref)) e.add("equality", "== against a bitset rebuilt bit-by-bit from the model is false; blocks " + hexblocks(cbs.data(), cbs.block_count()) + " model " + bits(m));
        if (!(ref == cbs)) e.add("equality", "rebuilt == bitset false");
        if (n > 0)
        {
            xtl::xdynamic_bitset<B> other(ref);
            other.flip(n - 1);
            if (cbs == other || !(cbs != other)) e.add("equality", "== true against a bitset differing in the last bit");
            xtl::xdynamic_bitset<B> shorter(ref);
            shorter.pop_back();
            if (cbs == shorter) e.add("equality", "== true against a shorter bitset");
        }
        xtl::xdynamic_bitset<B> longer(ref);
        longer.push_back(false);
        if (cbs == longer || longer == cbs) e.add("equality", "== true against a longer bitset");
        // copies are equal and independent
        xtl::xdynamic_bitset<B> cp(cbs);
        if (!(cp == ref) || cp.size() != n) e.add("copy", "copy differs from source");
        xtl::xdynamic_bitset<B> as;
        as = cp;
        if (!(as == ref)) e.add("copy", "copy-assigned differs");
        xtl::xdynamic_bitset<B> mv(std::move(cp));
        if (!(mv == ref)) e.add("move", "move-constructed differs");
        // operator~ and shifts returning temporaries are checked as transitions
    }
}

static std::vector<bool> shl(const std::vector<bool>& m, size_t k)
{
    std::vector<bool> r(m.size(), false);
    for (size_t i = 0; i + k < m.size() && k < m.size(); ++i) r[i + k] = m[i];
    return r;
}
static std::vector<bool> shr(const std::vector<bool>& m, size_t k)
{
    std::vector<bool> r(m.size(), false);
    for (size_t i = k; i < m.size(); ++i) r[i - k] = m[i];
    return r;
}

template <class B>
xtl::xdynamic_bitset<B> make_bs(const std::vector<bool>& m)
{
    xtl::xdynamic_bitset<B> r(m.size());
    for (size_t i = 0; i < m.size(); ++i) if (m[i]) r.set(i);
    return r;
}

static std::vector<std::pair<std::string, std::vector<bool>>> gallery(size_t n, bool full)
{
    std::vector<std::pair<std::string, std::vector<bool>>> g;
    if (full && n <= 10)
    {
        for (unsigned v = 0; v < (1u << n); ++v)
        {
            std::vector<bool> m(n);
            for (size_t i = 0; i < n; ++i) m[i] = (v >> i) & 1;
            g.emplace_back("p" + str(v), m);
        }
        return g;
    }
    std::vector<bool> ones(n, true), zeros(n, false), a01(n), a10(n), s0(n, false), sl(n, false), low(n, false);
    for (size_t i = 0; i < n; ++i) { a01[i] = i & 1; a10[i] = !(i & 1); low[i] = i < n / 2; }
    if (n) { s0[0] = true; sl[n - 1] = true; }
    g.emplace_back("ones", ones); g.emplace_back("zeros", zeros); g.emplace_back("a01", a01); g.emplace_back("a10", a10);
    g.emplace_back("first", s0); g.emplace_back("last", sl); g.emplace_back("lowhalf", low);
    return g;
}

// ---------------------------------------------------------------------------------------------------------
// owning bitset
// ---------------------------------------------------------------------------------------------------------
template <class B>
struct OW
{
    typedef xtl::xdynamic_bitset<B, typename own_alloc<B>::type> BS;
    BS bs;
    std::vector<bool> m;
    std::string key() const
    {
        return str(bs.size()) + ":" + str(bs.block_count()) + ":" + hexblocks(bs.data(), bs.block_count());
    }
};

template <class B>
bool agree(const OW<B>& w, Errs& e)
{
    if (w.bs.size() != w.m.size()) { e.add("state-size", "size()=" + str(w.bs.size()) + " model " + str(w.m.size())); return false; }
    for (size_t i = 0; i < w.m.size(); ++i)
        if (bool(w.bs[i]) != w.m[i])
        {
            std::string got;
            for (size_t j = 0; j < w.m.size(); ++j) got += bool(w.bs[j]) ? '1' : '0';
            e.add("state-bits", "bits " + got + " model " + bits(w.m));
            return false;
        }
    return true;
}

template <class B>
void build_owning(vf::Explorer<OW<B>>& ex, size_t S, bool full_gallery, bool all_indices)
{
    typedef OW<B> W;
    typedef typename W::BS BS;
    const size_t w = sizeof(B) * 8;
    auto add = [&ex](const std::string& kind, const std::string& name, std::function<bool(W&, Errs&)> f) {
        ex.add_op(kind, name, [f](W& wd, Errs& e) {
            bool ok;
            try { ok = f(wd, e); }
            catch (const std::exception& x) { e.add("unexpected-exception", std::string("threw ") + x.what()); return true; }
            if (ok && e.empty()) agree(wd, e);
            return ok;
        });
    };
    std::set<size_t> sz = {0, 1, w - 1, w, w + 1, 2 * w - 1, 2 * w, 2 * w + 1, S};
    std::vector<size_t> sizes;
    for (size_t s : sz) if (s <= S) sizes.push_back(s);
    std::vector<size_t> idx;
    if (all_indices) for (size_t i = 0; i < S; ++i) idx.push_back(i);
    else { std::set<size_t> t = {0, 1, w - 1, w, w + 1, 2 * w - 1, 2 * w}; for (size_t i : t) if (i < S) idx.push_back(i); }

    // constructors (transition: replace the object by the constructed value)
    for (size_t s : sizes)
    {
        add("ctor", "ctor(" + str(s) + ")", [s](W& x, Errs&) { x.bs = BS(s); x.m.assign(s, false); return true; });
        for (int b = 0; b < 2; ++b)
        {
            add("ctor", "ctor(" + str(s) + "," + str(b) + ")", [s, b](W& x, Errs&) { x.bs = BS(s, b != 0); x.m.assign(s, b != 0); return true; });
            add("assign", "assign(" + str(s) + "," + str(b) + ")", [s, b](W& x, Errs&) { x.bs.assign(s, b != 0); x.m.assign(s, b != 0); return true; });
        }
        add("resize", "resize(" + str(s) + ")", [s](W& x, Errs&) { x.bs.resize(s); x.m.resize(s, false); return true; });
        add("resize", "resize(" + str(s) + ",true)", [s](W& x, Errs&) { x.bs.resize(s, true); x.m.resize(s, true); return true; });
        add("resize", "resize(" + str(s) + ",false)", [s](W& x, Errs&) { x.bs.resize(s, false); x.m.resize(s, false); return true; });
    }
    add("ctor", "ctor{}", [](W& x, Errs&) { x.bs = BS(); x.m.clear(); return true; });
#ifdef C03_DIRTY_ALLOC
    add("ctor", "ctor(alloc)", [](W& x, Errs&) { x.bs = BS(typename BS::allocator_type()); x.m.clear(); return true; });
    for (size_t s : sizes)
        add("ctor", "ctor(" + str(s) + ",alloc)", [s](W& x, Errs&) { typename BS::allocator_type a; x.bs = BS(s, a); x.m.assign(s, false); return true; });
    add("ctor", "ctor({1,0,1},alloc)", [S](W& x, Errs&) { if (S < 3) return false; typename BS::allocator_type a; x.bs = BS({true, false, true}, a); x.m = {true, false, true}; return true; });
#endif
    add("ctor", "ctor{1}", [](W& x, Errs&) { x.bs = BS({true}); x.m = {true}; return true; });
    add("ctor", "ctor{0,1,1}", [S](W& x, Errs&) { if (S < 3) return false; x.bs = BS({false, true, true}); x.m = {false, true, true}; return true; });
    add("assign", "assign{1,0,1}", [S](W& x, Errs&) { if (S < 3) return false; x.bs.assign({true, false, true}); x.m = {true, false, true}; return true; });
    add("assign", "assign{}", [](W& x, Errs&) { x.bs.assign(std::initializer_list<bool>{}); x.m.clear(); return true; });
    if (w + 1 <= S)
    {
        add("ctor", "ctor{alt w+1}", [w](W& x, Errs&) {
            // initializer_list cannot be sized at run time: use the generic iterator route through assign of a bool list of w+1 <= 65 elements
            std::vector<bool> m(w + 1); for (size_t i = 0; i < m.size(); ++i) m[i] = !(i & 1);
            BS t(m.size()); std::copy(m.begin(), m.end(), t.begin());
            x.bs = t; x.m = m; return true; });
    }
    // block range constructors / assign
    for (size_t nb = 0; nb * w <= S && nb <= 2; ++nb)
    {
        std::vector<B> blocks;
        for (size_t k = 0; k < nb; ++k) blocks.push_back(k == 0 ? B(0xA5A5A5A5A5A5A5A5ull) : B(~B(0) >> 1 | 1));
        std::vector<bool> m(nb * w);
        for (size_t i = 0; i < m.size(); ++i) m[i] = (blocks[i / w] >> (i % w)) & 1;
        add("ctor", "ctor(blocks" + str(nb) + ")", [blocks, m](W& x, Errs&) { x.bs = BS(blocks.begin(), blocks.end()); x.m = m; return true; });
        add("assign", "assign(blocks" + str(nb) + ")", [blocks, m](W& x, Errs&) { x.bs.assign(blocks.begin(), blocks.end()); x.m = m; return true; });
    }
    add("clear", "clear()", [](W& x, Errs&) { x.bs.clear(); x.m.clear(); return true; });
    for (int b = 0; b < 2; ++b)
        add("push_back", "push_back(" + str(b) + ")", [S, b](W& x, Errs&) { if (x.m.size() >= S) return false; x.bs.push_back(b != 0); x.m.push_back(b != 0); return true; });
    add("pop_back", "pop_back()", [](W& x, Errs&) { if (x.m.empty()) return false; x.bs.pop_back(); x.m.pop_back(); return true; });
    add("set-all", "set()", [](W& x, Errs& e) { auto& r = x.bs.set(); if (&r != &x.bs) e.add("return", "set() does not return *this"); x.m.assign(x.m.size(), true); return true; });
    add("reset-all", "reset()", [](W& x, Errs&) { x.bs.reset(); x.m.assign(x.m.size(), false); return true; });
    add("flip-all", "flip()", [](W& x, Errs&) { x.bs.flip(); x.m.flip(); return true; });
    add("not", "~", [](W& x, Errs& e) {
        auto before = x.key();
        BS r = ~x.bs;
        if (x.key() != before) e.add("operand-modified", "operator~ changed its operand");
        x.bs = r; x.m.flip(); return true; });
    // single-bit operations
    auto bitops = [&](const std::string& iname, std::function<size_t(const W&)> at) {
        add("set-bit", "set(" + iname + ")", [at](W& x, Errs&) { size_t i = at(x); if (i >= x.m.size()) return false; x.bs.set(i); x.m[i] = true; return true; });
        add("set-bit", "set(" + iname + ",false)", [at](W& x, Errs&) { size_t i = at(x); if (i >= x.m.size()) return false; x.bs.set(i, false); x.m[i] = false; return true; });
        add("reset-bit", "reset(" + iname + ")", [at](W& x, Errs&) { size_t i = at(x); if (i >= x.m.size()) return false; x.bs.reset(i); x.m[i] = false; return true; });
        add("flip-bit", "flip(" + iname + ")", [at](W& x, Errs&) { size_t i = at(x); if (i >= x.m.size()) return false; x.bs.flip(i); x.m[i] = !x.m[i]; return true; });
        for (int v = 0; v < 2; ++v)
        {
            add("ref-assign", "[" + iname + "]=" + str(v), [at, v](W& x, Errs&) { size_t i = at(x); if (i >= x.m.size()) return false; x.bs[i] = (v != 0); x.m[i] = (v != 0); return true; });
            add("ref-and", "[" + iname + "]&=" + str(v), [at, v](W& x, Errs&) { size_t i = at(x); if (i >= x.m.size()) return false; x.bs[i] &= (v != 0); x.m[i] = x.m[i] && v; return true; });
            add("ref-or", "[" + iname + "]|=" + str(v), [at, v](W& x, Errs&) { size_t i = at(x); if (i >= x.m.size()) return false; x.bs[i] |= (v != 0); x.m[i] = x.m[i] || v; return true; });
            add("ref-xor", "[" + iname + "]^=" + str(v), [at, v](W& x, Errs&) { size_t i = at(x); if (i >= x.m.size()) return false; x.bs[i] ^= (v != 0); x.m[i] = x.m[i] != (v != 0); return true; });
            add("at-assign", "at(" + iname + ")=" + str(v), [at, v](W& x, Errs&) { size_t i = at(x); if (i >= x.m.size()) return false; x.bs.at(i) = (v != 0); x.m[i] = (v != 0); return true; });
            add("iter-assign", "*(begin()+" + iname + ")=" + str(v), [at, v](W& x, Errs&) { size_t i = at(x); if (i >= x.m.size()) return false; *(x.bs.begin() + std::ptrdiff_t(i)) = (v != 0); x.m[i] = (v != 0); return true; });
        }
        add("ref-flip", "[" + iname + "].flip()", [at](W& x, Errs&) { size_t i = at(x); if (i >= x.m.size()) return false; x.bs[i].flip(); x.m[i] = !x.m[i]; return true; });
        add("ref-copy", "[" + iname + "]=[next]", [at](W& x, Errs&) {
            size_t i = at(x); if (i >= x.m.size()) return false; size_t j = (i + 1) % x.m.size();
            x.bs[i] = x.bs[j]; x.m[i] = x.m[j]; return true; });
        // assignment from an LVALUE reference object (the const& overload; b[i] = b[j] above uses the && overload), source at another bit offset
        for (size_t dj : {size_t(1), size_t(3)})
            add("ref-copy-lvalue", "r=[" + iname + "+" + str(dj) + "] then [" + iname + "]=r", [at, dj](W& x, Errs&) {
                size_t i = at(x); if (i >= x.m.size()) return false; size_t j = (i + dj) % x.m.size();
                auto r = x.bs[j]; x.bs[i] = r; x.m[i] = x.m[j]; return true; });
        add("ref-copy-const", "[" + iname + "]=const[next]", [at](W& x, Errs&) {
            size_t i = at(x); if (i >= x.m.size()) return false; size_t j = (i + 1) % x.m.size();
            const BS& c = x.bs; auto r = c[j]; bool v = r; x.bs[i] = v; x.m[i] = x.m[j]; return true; });
        add("std-fill", "fill(begin+" + iname + ",end,[0])", [at](W& x, Errs&) {
            size_t i = at(x); if (i >= x.m.size()) return false;
            auto r = x.bs[0]; bool v0 = x.m[0];
            std::fill(x.bs.begin() + std::ptrdiff_t(i), x.bs.end(), r);
            for (size_t k = i; k < x.m.size(); ++k) x.m[k] = (k == 0) ? v0 : v0;
            return true; });
        add("ref-not", "~[" + iname + "]", [at](W& x, Errs& e) { size_t i = at(x); if (i >= x.m.size()) return false; if ((~x.bs[i]) != !x.m[i]) e.add("value", "~reference wrong"); return true; });
    };
    for (size_t i : idx) bitops(str(i), [i](const W&) { return i; });
    bitops("last", [](const W& x) { return x.m.empty() ? size_t(-1) : x.m.size() - 1; });
    add("riter-assign", "*rbegin()=1", [](W& x, Errs&) { if (x.m.empty()) return false; *x.bs.rbegin() = true; x.m.back() = true; return true; });
    // shifts
    {
        std::set<size_t> ks = {0, 1, w - 1, w, w + 1, 2 * w, 2 * w + 1, S - 1 < S ? S - 1 : 0, S, S + 1, 3, w / 2};
        for (size_t k : ks)
        {
            add("shl-assign", "<<=" + str(k), [k](W& x, Errs&) { x.bs <<= k; x.m = shl(x.m, k); return true; });
            add("shr-assign", ">>=" + str(k), [k](W& x, Errs&) { x.bs >>= k; x.m = shr(x.m, k); return true; });
            add("shl", "<<" + str(k), [k](W& x, Errs& e) { auto before = x.key(); BS r = x.bs << k; if (x.key() != before) e.add("operand-modified", "operator<< changed its operand"); x.bs = r; x.m = shl(x.m, k); return true; });
            add("shr", ">>" + str(k), [k](W& x, Errs& e) { auto before = x.key(); BS r = x.bs >> k; if (x.key() != before) e.add("operand-modified", "operator>> changed its operand"); x.bs = r; x.m = shr(x.m, k); return true; });
        }
        add("shl-assign", "<<=size-1", [](W& x, Errs&) { if (x.m.empty()) return false; size_t k = x.m.size() - 1; x.bs <<= k; x.m = shl(x.m, k); return true; });
        add("shr-assign", ">>=size-1", [](W& x, Errs&) { if (x.m.empty()) return false; size_t k = x.m.size() - 1; x.bs >>= k; x.m = shr(x.m, k); return true; });
        add("shl-assign", "<<=size", [](W& x, Errs&) { size_t k = x.m.size(); x.bs <<= k; x.m = shl(x.m, k); return true; });
        add("shr-assign", ">>=size", [](W& x, Errs&) { size_t k = x.m.size(); x.bs >>= k; x.m = shr(x.m, k); return true; });
        add("shl-assign", "<<=size+1", [](W& x, Errs&) { size_t k = x.m.size() + 1; x.bs <<= k; x.m = shl(x.m, k); return true; });
        add("shr-assign", ">>=size+1", [](W& x, Errs&) { size_t k = x.m.size() + 1; x.bs >>= k; x.m = shr(x.m, k); return true; });
    }
    // bitwise operators against an operand gallery of the same size
    {
        // the gallery depends on the size of the state: generate per size lazily inside the op, operand chosen by name
        std::vector<std::string> names;
        if (full_gallery && S <= 10) { for (unsigned v = 0; v < (1u << S); ++v) names.push_back("p" + str(v)); }
        else names = {"ones", "zeros", "a01", "a10", "first", "last", "lowhalf"};
        for (auto& gn : names)
        {
            auto pick = [gn, full_gallery](size_t n, std::vector<bool>& out) {
                if (gn[0] == 'p')
                {
                    unsigned v = unsigned(std::atoi(gn.c_str() + 1));
                    if (n > 10 || v >= (1u << n)) return false;
                    out.assign(n, false); for (size_t i = 0; i < n; ++i) out[i] = (v >> i) & 1; return true;
                }
                for (auto& g : gallery(n, false)) if (g.first == gn) { out = g.second; return true; }
                return false;
            };
            add("and-assign", "&=" + gn, [pick](W& x, Errs&) { std::vector<bool> o; if (!pick(x.m.size(), o)) return false; BS rhs = make_bs<B>(o); x.bs &= rhs; for (size_t i = 0; i < o.size(); ++i) x.m[i] = x.m[i] && o[i]; return true; });
            add("or-assign", "|=" + gn, [pick](W& x, Errs&) { std::vector<bool> o; if (!pick(x.m.size(), o)) return false; BS rhs = make_bs<B>(o); x.bs |= rhs; for (size_t i = 0; i < o.size(); ++i) x.m[i] = x.m[i] || o[i]; return true; });
            add("xor-assign", "^=" + gn, [pick](W& x, Errs&) { std::vector<bool> o; if (!pick(x.m.size(), o)) return false; BS rhs = make_bs<B>(o); x.bs ^= rhs; for (size_t i = 0; i < o.size(); ++i) x.m[i] = x.m[i] != o[i]; return true; });
            add("and", "&" + gn, [pick](W& x, Errs&) { std::vector<bool> o; if (!pick(x.m.size(), o)) return false; BS rhs = make_bs<B>(o); BS r = x.bs & rhs; x.bs = r; for (size_t i = 0; i < o.size(); ++i) x.m[i] = x.m[i] && o[i]; return true; });
            add("or", "|" + gn, [pick](W& x, Errs&) { std::vector<bool> o; if (!pick(x.m.size(), o)) return false; BS rhs = make_bs<B>(o); BS r = x.bs | rhs; x.bs = r; for (size_t i = 0; i < o.size(); ++i) x.m[i] = x.m[i] || o[i]; return true; });
            add("xor", "^" + gn, [pick](W& x, Errs&) { std::vector<bool> o; if (!pick(x.m.size(), o)) return false; BS rhs = make_bs<B>(o); BS r = x.bs ^ rhs; x.bs = r; for (size_t i = 0; i < o.size(); ++i) x.m[i] = x.m[i] != o[i]; return true; });
            add("swap", "swap(" + gn + ")", [pick](W& x, Errs& e) {
                std::vector<bool> o; if (!pick(x.m.size(), o)) return false;
                BS rhs = make_bs<B>(o); BS keep(x.bs);
                x.bs.swap(rhs);
                if (!(rhs == keep)) e.add("swap-other", "after swap the other bitset does not hold the old value");
                x.m = o; return true; });
        }
    }
    // aliasing operands: the same object on both sides, and a view over the bitset's own blocks as right operand
    add("and-assign", "&=self", [](W& x, Errs&) { x.bs &= x.bs; return true; });
    add("or-assign", "|=self", [](W& x, Errs&) { x.bs |= x.bs; return true; });
    add("xor-assign", "^=self", [](W& x, Errs&) { x.bs ^= x.bs; x.m.assign(x.m.size(), false); return true; });
    add("xor", "^self", [](W& x, Errs&) { BS r = x.bs ^ x.bs; x.bs = r; x.m.assign(x.m.size(), false); return true; });
    add("and-assign", "&=view(self)", [](W& x, Errs&) { xtl::xdynamic_bitset_view<B> v(x.bs.data(), x.m.size()); x.bs &= v; return true; });
    add("or-assign", "|=view(self)", [](W& x, Errs&) { xtl::xdynamic_bitset_view<B> v(x.bs.data(), x.m.size()); x.bs |= v; return true; });
    add("xor-assign", "^=view(self)", [](W& x, Errs&) { xtl::xdynamic_bitset_view<B> v(x.bs.data(), x.m.size()); x.bs ^= v; x.m.assign(x.m.size(), false); return true; });
    add("copy", "=self", [](W& x, Errs&) { BS& r = x.bs; x.bs = r; return true; });
    add("swap", "swap(self)", [](W& x, Errs&) { x.bs.swap(x.bs); return true; });
    // copy / move / round trip through a view
    add("copy", "copy-assign-self-copy", [](W& x, Errs&) { BS c(x.bs); x.bs = c; return true; });
    add("move", "move-construct", [](W& x, Errs&) { BS c(std::move(x.bs)); x.bs = std::move(c); return true; });
    add("from-view", "from-view", [w](W& x, Errs&) {
        std::vector<B> mem(x.bs.data(), x.bs.data() + x.bs.block_count());
        xtl::xdynamic_bitset_view<B> v(mem.data(), x.m.size());
        BS c(v); x.bs = c; return true; });
    add("reserve", "reserve(3w)", [w](W& x, Errs& e) { x.bs.reserve(3 * w); if (x.bs.capacity() < 3 * w) e.add("capacity", "capacity() < reserved"); return true; });

    ex.check_state = [](const W& x, Errs& e) { query_all(x.bs, x.m, e, true); };
}

// ---------------------------------------------------------------------------------------------------------
// view over caller memory: [guard][covered blocks ...][one uncovered block][guard]
// ---------------------------------------------------------------------------------------------------------
template <class B>
struct VW
{
    std::vector<B> mem;   // exact-size heap block: ASan red zones on both sides
    size_t n = 0;         // view size in bits
    std::vector<bool> m;
    static B guard() { return B(0xC3C3C3C3C3C3C3C3ull); }
    size_t nb() const { return (n + sizeof(B) * 8 - 1) / (sizeof(B) * 8); }
    std::string key() const { return str(n) + ":" + hexblocks(mem.data(), mem.size()); }
};

template <class B>
bool vagree(const VW<B>& w, Errs& e)
{
    const size_t bw = sizeof(B) * 8;
    if (w.mem.front() != VW<B>::guard() || w.mem.back() != VW<B>::guard() || w.mem[w.mem.size() - 2] != VW<B>::guard())
    {
        e.add("caller-memory", "caller memory outside the view's blocks was modified: " + hexblocks(w.mem.data(), w.mem.size()));
        return false;
    }
    for (size_t i = 0; i < w.n; ++i)
        if (bool((w.mem[1 + i / bw] >> (i % bw)) & 1) != w.m[i]) { e.add("state-bits", "view memory disagrees with model at bit " + str(i) + ": " + hexblocks(w.mem.data(), w.mem.size()) + " model " + bits(w.m)); return false; }
    return true;
}

template <class B>
void build_view(vf::Explorer<VW<B>>& ex, size_t n, bool full_gallery)
{
    typedef VW<B> W;
    typedef xtl::xdynamic_bitset_view<B> V;
    typedef xtl::xdynamic_bitset<B> BS;
    const size_t w = sizeof(B) * 8;
    auto add = [&ex](const std::string& kind, const std::string& name, std::function<bool(V&, W&, Errs&)> f) {
        ex.add_op("view-" + kind, name, [f](W& wd, Errs& e) {
            bool ok;
            try { V v(wd.mem.data() + 1, wd.n); ok = f(v, wd, e); }
            catch (const std::exception& x) { e.add("unexpected-exception", std::string("threw ") + x.what()); return true; }
            if (ok && e.empty()) vagree(wd, e);
            return ok;
        });
    };
    add("set-all", "set()", [](V& v, W& x, Errs&) { v.set(); x.m.assign(x.n, true); return true; });
    add("reset-all", "reset()", [](V& v, W& x, Errs&) { v.reset(); x.m.assign(x.n, false); return true; });
    add("flip-all", "flip()", [](V& v, W& x, Errs&) { v.flip(); x.m.flip(); return true; });
    add("not", "~", [](V& v, W& x, Errs& e) {
        BS r = ~v; std::vector<bool> f(x.m); f.flip();
        for (size_t i = 0; i < x.n; ++i) if (bool(r[i]) != f[i]) { e.add("value", "operator~ on a view wrong at " + str(i)); break; }
        if (r.size() != x.n) e.add("value", "operator~ size");
        Errs q; query_all(r, f, q, true); for (auto& kv : q.v) e.add("not-result-" + kv.first, kv.second);
        return true; });
    for (size_t i = 0; i < n; ++i)
    {
        if (n > 24 && !(i < 2 || i + 2 >= n || (i % w) == 0 || (i % w) == w - 1)) continue;
        add("set-bit", "set(" + str(i) + ")", [i](V& v, W& x, Errs&) { v.set(i); x.m[i] = true; return true; });
        add("reset-bit", "reset(" + str(i) + ")", [i](V& v, W& x, Errs&) { v.reset(i); x.m[i] = false; return true; });
        add("flip-bit", "flip(" + str(i) + ")", [i](V& v, W& x, Errs&) { v.flip(i); x.m[i] = !x.m[i]; return true; });
        add("ref-assign", "[" + str(i) + "]=1", [i](V& v, W& x, Errs&) { v[i] = true; x.m[i] = true; return true; });
        add("ref-assign", "[" + str(i) + "]=0", [i](V& v, W& x, Errs&) { v[i] = false; x.m[i] = false; return true; });
        add("iter-assign", "*(begin()+" + str(i) + ")=1", [i](V& v, W& x, Errs&) { *(v.begin() + std::ptrdiff_t(i)) = true; x.m[i] = true; return true; });
        add("ref-flip", "[" + str(i) + "].flip()", [i](V& v, W& x, Errs&) { v[i].flip(); x.m[i] = !x.m[i]; return true; });
    }
    std::set<size_t> ks = {0, 1, w - 1, w, w + 1, 2 * w, n ? n - 1 : 0, n, n + 1, 3};
    for (size_t k : ks)
    {
        add("shl-assign", "<<=" + str(k), [k](V& v, W& x, Errs&) { v <<= k; x.m = shl(x.m, k); return true; });
        add("shr-assign", ">>=" + str(k), [k](V& v, W& x, Errs&) { v >>= k; x.m = shr(x.m, k); return true; });
        add("shl", "<<" + str(k), [k](V& v, W& x, Errs& e) {
            BS r = v << k; std::vector<bool> f = shl(x.m, k);
            Errs q; query_all(r, f, q, true); for (auto& kv : q.v) e.add("shl-result-" + kv.first, kv.second);
            return true; });
        add("shr", ">>" + str(k), [k](V& v, W& x, Errs& e) {
            BS r = v >> k; std::vector<bool> f = shr(x.m, k);
            Errs q; query_all(r, f, q, true); for (auto& kv : q.v) e.add("shr-result-" + kv.first, kv.second);
            return true; });
    }
    for (auto& g : gallery(n, full_gallery))
    {
        std::vector<bool> o = g.second;
        add("and-assign", "&=" + g.first, [o](V& v, W& x, Errs&) { BS rhs = make_bs<B>(o); v &= rhs; for (size_t i = 0; i < o.size(); ++i) x.m[i] = x.m[i] && o[i]; return true; });
        add("or-assign", "|=" + g.first, [o](V& v, W& x, Errs&) { BS rhs = make_bs<B>(o); v |= rhs; for (size_t i = 0; i < o.size(); ++i) x.m[i] = x.m[i] || o[i]; return true; });
        add("xor-assign", "^=" + g.first, [o](V& v, W& x, Errs&) { BS rhs = make_bs<B>(o); v ^= rhs; for (size_t i = 0; i < o.size(); ++i) x.m[i] = x.m[i] != o[i]; return true; });
        add("or-view", "|=view:" + g.first, [o, w](V& v, W& x, Errs&) {
            BS tmp = make_bs<B>(o); std::vector<B> mem2(tmp.data(), tmp.data() + tmp.block_count());
            V rhs(mem2.data(), o.size()); v |= rhs; for (size_t i = 0; i < o.size(); ++i) x.m[i] = x.m[i] || o[i]; return true; });
        add("and", "&" + g.first, [o](V& v, W& x, Errs& e) {
            BS rhs = make_bs<B>(o); BS r = v & rhs; std::vector<bool> f(x.m); for (size_t i = 0; i < o.size(); ++i) f[i] = f[i] && o[i];
            Errs q; query_all(r, f, q, true); for (auto& kv : q.v) e.add("and-result-" + kv.first, kv.second); return true; });
    }
    // aliasing operands: the view itself, and a second view over the same caller memory
    add("and-assign", "&=self", [](V& v, W&, Errs&) { v &= v; return true; });
    add("or-assign", "|=self", [](V& v, W&, Errs&) { v |= v; return true; });
    add("xor-assign", "^=self", [](V& v, W& x, Errs&) { v ^= v; x.m.assign(x.m.size(), false); return true; });
    add("and-assign", "&=view2(same memory)", [](V& v, W& x, Errs&) { V v2(v.data(), x.m.size()); v &= v2; return true; });
    add("or-assign", "|=view2(same memory)", [](V& v, W& x, Errs&) { V v2(v.data(), x.m.size()); v |= v2; return true; });
    add("xor-assign", "^=view2(same memory)", [](V& v, W& x, Errs&) { V v2(v.data(), x.m.size()); v ^= v2; x.m.assign(x.m.size(), false); return true; });
    add("resize", "resize(same)", [](V& v, W& x, Errs&) { v.resize(x.n); return true; });
    add("resize", "resize(other)", [](V& v, W& x, Errs& e) {
        bool threw = false;
        try { v.resize(x.n + 1); } catch (const std::runtime_error&) { threw = true; }
        if (!threw) e.add("resize-no-throw", "view.resize(size()+1) did not throw");
        return true; });
    add("copy", "copy-of-view-writes-through", [](V& v, W& x, Errs& e) {
        if (x.n == 0) return false;
        V c(v); c.flip(0); x.m[0] = !x.m[0];
        if (bool(v[0]) != x.m[0]) e.add("copy", "a copy of a view does not designate the same memory");
        return true; });
    ex.check_state = [](const W& x, Errs& e) {
        W& y = const_cast<W&>(x);
        V v(y.mem.data() + 1, y.n);
        query_all(v, x.m, e, false);
        vagree(x, e);
    };
}

template <class B>
std::vector<VW<B>> view_inits(size_t n)
{
    const size_t w = sizeof(B) * 8;
    std::vector<VW<B>> r;
    B pats[3] = {B(0), B(~B(0)), B(0x5A5A5A5A5A5A5A5Aull)};
    for (B p : pats)
    {
        VW<B> x;
        x.n = n;
        x.mem.assign(x.nb() + 3, p);
        x.mem.front() = VW<B>::guard();
        x.mem.back() = VW<B>::guard();
        x.mem[x.mem.size() - 2] = VW<B>::guard();   // an uncovered caller block right after the view's blocks
        x.m.resize(n);
        for (size_t i = 0; i < n; ++i) x.m[i] = (p >> (i % w)) & 1;
        // constructing the view canonicalises the unused bits of its last block (documented); do it once here so
        // that the initial key is the state the first operation sees
        { xtl::xdynamic_bitset_view<B> v(x.mem.data() + 1, n); (void)v; }
        r.push_back(x);
    }
    return r;
}

// ---------------------------------------------------------------------------------------------------------
// fault part: an allocator whose allocate() is a throw point; after a failed (throwing) operation the bitset must
// still be a well-formed bitset: block_count() == ceil(size()/w), bits beyond size() zero, all queries consistent
// ---------------------------------------------------------------------------------------------------------
template <class T>
struct FaultAlloc
{
    typedef T value_type;
    FaultAlloc() = default;
    template <class U> FaultAlloc(const FaultAlloc<U>&) {}
    T* allocate(std::size_t n) { pl::throw_point("allocate"); return static_cast<T*>(::operator new(n * sizeof(T))); }
    void deallocate(T* p, std::size_t) { ::operator delete(p); }
    template <class U> bool operator==(const FaultAlloc<U>&) const { return true; }
    template <class U> bool operator!=(const FaultAlloc<U>&) const { return false; }
};

template <class B>
struct FW
{
    typedef xtl::xdynamic_bitset<B, FaultAlloc<B>> BS;
    BS bs;
    std::vector<bool> m;
    std::string key() const { return str(bs.size()) + ":" + str(bs.block_count()) + ":" + hexblocks(bs.data(), bs.block_count()); }
    void light(Errs& e)
    {
        if (bs.size() != m.size()) { e.add("state-size", "size()=" + str(bs.size()) + " model " + str(m.size())); return; }
        for (size_t i = 0; i < m.size(); ++i) if (bool(bs[i]) != m[i]) { e.add("state-bits", "bit " + str(i) + " differs from the model " + bits(m)); return; }
    }
    void check(Errs& e) { query_all(bs, m, e, true); }
    // after an injected allocation failure: continue from what is there, but it must be a well-formed bitset
    void resync_after_fault(Errs& e)
    {
        const size_t w = sizeof(B) * 8;
        m.assign(bs.size(), false);
        if (bs.block_count() != (bs.size() + w - 1) / w) { e.add("fault-block-count", "after the failed operation block_count()=" + str(bs.block_count()) + " with size()=" + str(bs.size())); return; }
        for (size_t i = 0; i < m.size(); ++i) m[i] = bool(bs[i]);
    }
};

template <class B>
void build_fault(vf::HistoryExplorer<FW<B>>& hx, size_t S)
{
    typedef FW<B> W;
    const size_t w = sizeof(B) * 8;
    std::set<size_t> sz = {0, 1, w - 1, w, w + 1, 2 * w - 1, 2 * w, 2 * w + 1, S};
    auto guarded = [](std::function<void(W&)> impl, std::function<void(W&)> model) {
        return [impl, model](W& x, Errs& e) {
            try { pl::Arm arm; impl(x); } catch (const pl::Injected&) { x.resync_after_fault(e); return true; }
            model(x);
            return true; };
    };
    for (size_t s : sz)
    {
        if (s > S) continue;
        for (int b = 0; b < 2; ++b)
        {
            hx.add_op("resize", "resize(" + str(s) + "," + str(b) + ")", guarded([s, b](W& x) { x.bs.resize(s, b != 0); }, [s, b](W& x) { x.m.resize(s, b != 0); }));
            hx.add_op("assign", "assign(" + str(s) + "," + str(b) + ")", guarded([s, b](W& x) { x.bs.assign(s, b != 0); }, [s, b](W& x) { x.m.assign(s, b != 0); }));
        }
    }
    for (int b = 0; b < 2; ++b)
        hx.add_op("push_back", "push_back(" + str(b) + ")", [S, b](W& x, Errs& e) {
            if (x.m.size() >= S) return false;
            try { pl::Arm arm; x.bs.push_back(b != 0); } catch (const pl::Injected&) { x.resync_after_fault(e); return true; }
            x.m.push_back(b != 0); return true; });
    hx.add_op("pop_back", "pop_back()", [](W& x, Errs&) { if (x.m.empty()) return false; x.bs.pop_back(); x.m.pop_back(); return true; });
    hx.add_op("flip-all", "flip()", [](W& x, Errs&) { x.bs.flip(); x.m.flip(); return true; });
    hx.add_op("set-all", "set()", [](W& x, Errs&) { x.bs.set(); x.m.assign(x.m.size(), true); return true; });
    hx.add_op("clear", "clear()", [](W& x, Errs&) { x.bs.clear(); x.m.clear(); return true; });
    hx.add_op("copy-assign", "bs=copy(bs)", [](W& x, Errs& e) {
        try { pl::Arm arm; typename W::BS c(x.bs); x.bs = c; } catch (const pl::Injected&) { x.resync_after_fault(e); }
        return true; });
    hx.add_op("reserve", "reserve(3w)", [w](W& x, Errs& e) {
        try { pl::Arm arm; x.bs.reserve(3 * w); } catch (const pl::Injected&) { x.resync_after_fault(e); }
        return true; });
}

template <class B>
void run_fault(const struct Opts& o);

struct Opts
{
    std::string mode, replay_inst, replay_trace;
    size_t S = 10;
    int depth = 1 << 30;
    long long max_states = 1LL << 40;
    bool full_gallery = false;
    double deadline = 1e18;
    unsigned fill = 0xFF;   // C03_DIRTY_ALLOC build: the byte allocate() fills its memory with
};

static std::string hex2(unsigned v) { char b[8]; std::snprintf(b, sizeof b, "%02X", v & 0xFFu); return b; }

template <class B>
void run_owning(const Opts& o)
{
    vf::Explorer<OW<B>> ex;
    ex.prop = "C03";
#ifdef C03_DIRTY_ALLOC
    c03::alloc_stats::fill() = static_cast<unsigned char>(o.fill);
    ex.inst = std::string(bname<B>::n()) + "/dirty" + hex2(o.fill) + "-S" + str(o.S);
#else
    ex.inst = std::string(bname<B>::n()) + "/S" + str(o.S);
#endif
    ex.max_depth = o.depth;
    ex.max_states = o.max_states;
    ex.deadline_s = o.deadline;
    build_owning<B>(ex, o.S, o.full_gallery, o.S <= 24);
    std::vector<OW<B>> inits(1);
    if (!o.replay_trace.empty() || o.mode == "replay") { ex.replay(inits, o.replay_trace); return; }
    ex.run(inits);
    ex.summarize(o.depth == (1 << 30));
#ifdef C03_DIRTY_ALLOC
    // the allocator dimension's own counters (the BFS counters above are added to the totals of the check)
    vf::stat("dirty_alloc_states", (long long)ex.worlds.size());
    vf::stat("dirty_alloc_transitions", ex.transitions);
    vf::stat("dirty_alloc_allocations", c03::alloc_stats::allocations());
    vf::stat("dirty_alloc_blocks_value_constructed", c03::alloc_stats::value_constructs());
    vf::stat("dirty_alloc_blocks_default_inserted", c03::alloc_stats::default_inits());
    vf::stat("dirty_alloc_explorations", 1);
#endif
}

template <class B>
void run_view(const Opts& o)
{
    // one exploration per view size (a view cannot be resized)
    const size_t w = sizeof(B) * 8;
    std::set<size_t> sz = {0, 1, w - 1, w, w + 1, 2 * w - 1, 2 * w, 2 * w + 1, o.S};
    for (size_t n : sz)
    {
        if (n > o.S) continue;
        vf::Explorer<VW<B>> ex;
        ex.prop = "C03";
        ex.inst = std::string(bname<B>::n()) + "/view" + str(n);
        ex.max_depth = o.depth;
        ex.max_states = o.max_states;
        ex.deadline_s = o.deadline;
        build_view<B>(ex, n, o.full_gallery);
        auto inits = view_inits<B>(n);
        if (o.mode == "replay")
        {
            if (o.replay_inst == ex.inst) ex.replay(inits, o.replay_trace);
            continue;
        }
        ex.run(inits);
        ex.summarize(o.depth == (1 << 30));
    }
}

template <class B>
void run_fault(const Opts& o)
{
    vf::HistoryExplorer<FW<B>> hx;
    hx.prop = "C03";
    hx.inst = std::string(bname<B>::n()) + "/fault" + str(o.S);
    hx.max_depth = o.depth;
    hx.max_states = o.max_states;
    hx.deadline_s = o.deadline;
    build_fault<B>(hx, o.S);
    if (o.mode == "replay") { hx.replay(o.replay_trace); return; }
    hx.run();
    hx.summarize(o.depth == (1 << 30));
}

int main(int argc, char** argv)
{
    Opts o;
    std::string block = "u8", kind = "owning";
    for (int i = 1; i < argc; ++i)
    {
        std::string a = argv[i];
        if (a == "--block") block = argv[++i];
        else if (a == "--kind") kind = argv[++i];
        else if (a == "--S") o.S = size_t(atoi(argv[++i]));
        else if (a == "--depth") o.depth = atoi(argv[++i]);
        else if (a == "--max-states") o.max_states = atoll(argv[++i]);
        else if (a == "--full-gallery") o.full_gallery = true;
        else if (a == "--deadline") o.deadline = atof(argv[++i]);
        else if (a == "--fill") o.fill = unsigned(std::strtoul(argv[++i], nullptr, 16));
        else if (a == "--replay")
        {
            o.mode = "replay";
            o.replay_inst = argv[++i];
            o.replay_trace = argv[++i];
            // inst = <block>/S<n> or <block>/view<n>
            size_t sl = o.replay_inst.find('/');
            block = o.replay_inst.substr(0, sl);
            std::string rest = o.replay_inst.substr(sl + 1);
            if (rest[0] == 'S') { kind = "owning"; o.S = size_t(atoi(rest.c_str() + 1)); }
            else if (rest.compare(0, 5, "dirty") == 0)   // <block>/dirty<FILL>-S<n>: the C03_DIRTY_ALLOC build
            {
                kind = "owning";
                o.fill = unsigned(std::strtoul(rest.substr(5, 2).c_str(), nullptr, 16));
                o.S = size_t(atoi(rest.c_str() + rest.find("-S") + 2));
            }
            else if (rest[0] == 'f') { kind = "fault"; o.S = size_t(atoi(rest.c_str() + 5)); }
            else { kind = "view"; o.S = size_t(atoi(rest.c_str() + 4)); }
        }
    }
#ifdef C03_DIRTY_ALLOC
    // this build only carries the owning world (over DirtyAlloc); views have no allocator, the fault part has its own
#define DISPATCH(T, NAME) if (block == NAME) { if (kind == "owning") run_owning<T>(o); else { std::printf("the C03_DIRTY_ALLOC build only knows --kind owning\n"); return 2; } }
#else
#define DISPATCH(T, NAME) if (block == NAME) { if (kind == "owning") run_owning<T>(o); else if (kind == "fault") run_fault<T>(o); else run_view<T>(o); }
#endif
    DISPATCH(uint8_t, "u8")
    DISPATCH(uint16_t, "u16")
    DISPATCH(uint32_t, "u32")
    DISPATCH(uint64_t, "u64")
    vf::done();
    return 0;
}
