// C03 (bool-list part): construction and assign from std::initializer_list<bool> of EVERY length 0..LMAX, for every block type.
//
// The BFS part can only feed the few literal lists written in its source ({}, {1}, {0,1,1}, {1,0,1}); anything that
// depends on the position of an element inside a block (an element's shift computed in the wrong type, a block boundary,
// the partial last block) needs lists longer than a block. The LENGTH of an initializer list is a compile-time property,
// its CONTENT is not: `f({v[I]...})` with an index pack I = 0..L-1 builds a list of length L from run-time values. One
// such function is instantiated for every L in 0..LMAX and reached through a table, so the content is enumerated at run time:
//   * L <= XMAX: all 2^L contents (exhaustive),
//   * every L: a structured family (zeros, ones, both alternations, every third, first only, last only, all but first,
//     all but last) plus a walking one and a walking zero at EVERY position,
//   * thorough: additionally every pair of set bits for the lengths w-1, w, w+1, 2w+1 of every block width w.
// For every (block type, list) the list is given to: the constructor, the constructor with an explicit allocator,
// copy-list-initialisation, and assign() onto five different earlier contents (empty, same size all ones, longer all ones,
// shorter all ones, alternating 2w+1) - "no result depends on earlier contents".
// Oracle: std::vector<bool> built from the same list; size, empty, count, any, all, none, block_count, every bit through
// operator[] and iteration, bits beyond size() zero, == against a bitset built by push_back and one built by set(i).
// ALLOCATOR DIMENSION: all nine routes run over std::allocator AND over c03::DirtyAlloc (construct(p) without arguments
// default-initialises; allocate() hands out memory filled with 0xFF, then with 0xA5): the list constructor creates its storage
// first and writes only the list's elements into it, so whatever the storage-creating site leaves in the rest of the last
// block (and, for a too large storage, in further blocks) shows as count / all / == / unused-bit failures.
#include <xtl/xdynamic_bitset.hpp>

#include "report.hpp"
#include "dirty_alloc.hpp"

#include <cstdint>
#include <functional>
#include <initializer_list>
#include <utility>
#include <vector>

using vf::str;

#ifndef LMAX
#define LMAX 200
#endif

typedef std::function<void(std::initializer_list<bool>)> Sink;

template <std::size_t... I>
static void call_with(std::index_sequence<I...>, const bool* v, const Sink& s)
{
    (void)v;
    s({v[I]...});
}
template <std::size_t L>
static void call_n(const bool* v, const Sink& s)
{
    call_with(std::make_index_sequence<L>(), v, s);
}
typedef void (*CallFn)(const bool*, const Sink&);
template <std::size_t... L>
static const CallFn* make_table(std::index_sequence<L...>)
{
    static const CallFn t[] = {&call_n<L>...};
    return t;
}
static const CallFn* g_table = make_table(std::make_index_sequence<LMAX + 1>());

// calls s with an initializer_list<bool> holding exactly the elements of v
static void with_list(const std::vector<bool>& v, const Sink& s)
{
    static bool buf[LMAX + 1];
    for (std::size_t i = 0; i < v.size(); ++i) buf[i] = v[i];
    g_table[v.size()](buf, s);
}

template <class B> struct bname;
template <> struct bname<std::uint8_t> { static const char* s() { return "u8"; } };
template <> struct bname<std::uint16_t> { static const char* s() { return "u16"; } };
template <> struct bname<std::uint32_t> { static const char* s() { return "u32"; } };
template <> struct bname<std::uint64_t> { static const char* s() { return "u64"; } };

static long long g_cases = 0, g_evals = 0, g_exhaustive_cases = 0, g_dirty_evals = 0;
static const char* g_alloc = "";   // "" (std::allocator), "dirtyFF", "dirtyA5": the allocator of the routes being judged
static std::size_t g_max_len = 0;

// ---- patterns: "x<value>" (bit i of value), or a structured family member, or w1:<i>, w0:<i>, pair:<i>:<j> ----
static const char* FAM[] = {"zeros", "ones", "alt01", "alt10", "third", "first", "last", "allbutfirst", "allbutlast"};
static const int NFAM = 9;
static bool fam_bit(int f, std::size_t i, std::size_t n)
{
    switch (f)
    {
    case 0: return false;
    case 1: return true;
    case 2: return i % 2 == 1;
    case 3: return i % 2 == 0;
    case 4: return i % 3 == 0;
    case 5: return i == 0;
    case 6: return i + 1 == n;
    case 7: return i != 0;
    default: return i + 1 != n;
    }
}

static bool parse_pattern(const std::string& p, std::size_t n, std::vector<bool>& out)
{
    out.assign(n, false);
    if (p[0] == 'x') { unsigned long long v = std::strtoull(p.c_str() + 1, nullptr, 10); for (std::size_t i = 0; i < n && i < 64; ++i) out[i] = (v >> i) & 1; return true; }
    if (p.compare(0, 3, "w1:") == 0) { std::size_t i = std::size_t(std::atol(p.c_str() + 3)); if (i >= n) return false; out[i] = true; return true; }
    if (p.compare(0, 3, "w0:") == 0) { std::size_t i = std::size_t(std::atol(p.c_str() + 3)); if (i >= n) return false; out.assign(n, true); out[i] = false; return true; }
    if (p.compare(0, 5, "pair:") == 0)
    {
        std::size_t c = p.find(':', 5);
        std::size_t i = std::size_t(std::atol(p.c_str() + 5)), j = std::size_t(std::atol(p.c_str() + c + 1));
        if (i >= n || j >= n) return false;
        out[i] = true; out[j] = true; return true;
    }
    for (int f = 0; f < NFAM; ++f) if (p == FAM[f]) { for (std::size_t i = 0; i < n; ++i) out[i] = fam_bit(f, i, n); return true; }
    return false;
}

static std::string bits(const std::vector<bool>& m)
{
    std::string s;
    for (bool b : m) s += b ? '1' : '0';
    return s.empty() ? "<empty>" : s;
}

// signature class of the length relative to int / block widths, so that one slip gives a handful of signatures, not hundreds
template <class B>
static std::string band(std::size_t n)
{
    const std::size_t w = sizeof(B) * 8;
    return n == 0 ? "n=0" : n < w ? "n<w" : n == w ? "n=w" : n <= 2 * w ? "w<n<=2w" : "n>2w";
}

template <class B>
static void fail(const char* op, const char* q, const std::string& pat, std::size_t n, const std::string& msg)
{
    // signature: route class (ctor / assign) x failing query x length class; the exact route, length and content are in the message
    const std::string cls = std::string(op).compare(0, 6, "assign") == 0 ? "assign-list" : std::string(op) == "harness" ? "harness" : "ctor-list";
    vf::violation(std::string("C03/lists-") + bname<B>::s() + "/" + cls + (*g_alloc ? std::string("-") + g_alloc : std::string()) + "/" + q + "/" + band<B>(n),
                  std::string("block ") + bname<B>::s() + (*g_alloc ? std::string(", allocator ") + g_alloc + " (default-initialising construct(p), memory pre-filled)" : std::string()) + ", initializer list of " + str(n) + " elements, content " + pat + ": " + op + ": " + msg,
                  {"--only", bname<B>::s(), str(n), pat});
}

template <class BS>
static void judge(const char* op, const BS& b, const std::vector<bool>& ref, const std::string& pat)
{
    typedef typename BS::block_type B;
    const std::size_t w = sizeof(B) * 8, n = ref.size();
    ++g_evals;
    std::size_t cnt = 0;
    for (bool x : ref) cnt += x;
    if (b.size() != n) { fail<B>(op, "size", pat, n, "size() = " + str(b.size())); return; }
    if (b.empty() != (n == 0)) fail<B>(op, "empty", pat, n, "empty() wrong");
    if (b.block_count() != (n + w - 1) / w) { fail<B>(op, "block_count", pat, n, "block_count() = " + str(b.block_count())); return; }
    for (std::size_t i = 0; i < n; ++i)
        if (bool(b[i]) != ref[i]) { fail<B>(op, "element", pat, n, "bit " + str(i) + " reads " + str(int(bool(b[i]))) + ", the list has " + str(int(ref[i])) + " there (list " + bits(ref) + ")"); break; }
    std::size_t k = 0;
    bool it_ok = true;
    for (auto it = b.cbegin(); it != b.cend(); ++it, ++k) if (k >= n || bool(*it) != ref[k]) it_ok = false;
    if (!it_ok || k != n) fail<B>(op, "iteration", pat, n, "iteration does not yield the list");
    if (n != 0 && b.count() != cnt) fail<B>(op, "count", pat, n, "count() = " + str(b.count()) + ", the list has " + str(cnt) + " true elements");
    if (b.any() != (cnt != 0)) fail<B>(op, "any", pat, n, "any() wrong");
    if (b.none() != (cnt == 0)) fail<B>(op, "none", pat, n, "none() wrong");
    if (b.all() != (cnt == n)) fail<B>(op, "all", pat, n, "all() wrong");
    if (n % w != 0)
    {
        B last = b.data()[b.block_count() - 1];
        if ((last >> (n % w)) != 0) fail<B>(op, "unused-bits", pat, n, "bits beyond size() are set in the last block");
    }
    xtl::xdynamic_bitset<B> pb, st(n, false);
    for (std::size_t i = 0; i < n; ++i) { pb.push_back(ref[i]); if (ref[i]) st.set(i); }
    if (!(b == pb) || (b != pb) || !(pb == b)) fail<B>(op, "equality", pat, n, "!= a bitset holding the same elements built by push_back");
    if (!(b == st) || (b != st)) fail<B>(op, "equality", pat, n, "!= a bitset holding the same elements built by set(i)");
}

template <class BS>
static void routes(std::initializer_list<bool> il, const std::vector<bool>& ref, const std::string& pat)
{
    typedef typename BS::block_type B;
    typedef typename BS::allocator_type A;
    const std::size_t w = sizeof(B) * 8, n = ref.size();
    { BS a(il); judge("ctor(list)", a, ref, pat); }
    { BS a(il, A()); judge("ctor(list,alloc)", a, ref, pat); }
    { BS a = il; judge("copy-list-init", a, ref, pat); }
    { BS a; a.assign(il); judge("assign(list) onto empty", a, ref, pat); }
    { BS a(n, true); a.assign(il); judge("assign(list) onto same-size ones", a, ref, pat); }
    { BS a(n + w + 3, true); a.assign(il); judge("assign(list) onto longer ones", a, ref, pat); }
    { BS a(n / 2, true); a.assign(il); judge("assign(list) onto shorter ones", a, ref, pat); }
    { BS a(2 * w + 1, false); for (std::size_t i = 0; i < a.size(); i += 2) a.set(i); a.assign(il); judge("assign(list) onto alternating 2w+1", a, ref, pat); }
    { BS a(il); a.assign(il); judge("assign(list) onto itself-valued", a, ref, pat); }
}

template <class B>
static void one(const std::vector<bool>& v, const std::string& pat)
{
    const std::size_t n = v.size();
    ++g_cases;
    if (n > g_max_len) g_max_len = n;
    // the oracle is built from the very same list object the library sees
    with_list(v, [&](std::initializer_list<bool> il) {
        std::vector<bool> ref(il);
        if (ref != v) { fail<B>("harness", "list", pat, n, "the generated list does not hold the requested content"); return; }
        g_alloc = "";
        routes<xtl::xdynamic_bitset<B>>(il, ref, pat);
        const long long before = g_evals;
        g_alloc = "dirtyFF"; c03::alloc_stats::fill() = 0xFF;
        routes<xtl::xdynamic_bitset<B, c03::DirtyAlloc<B>>>(il, ref, pat);
        g_alloc = "dirtyA5"; c03::alloc_stats::fill() = 0xA5;
        routes<xtl::xdynamic_bitset<B, c03::DirtyAlloc<B>>>(il, ref, pat);
        g_alloc = "";
        g_dirty_evals += g_evals - before;
    });
}

template <class B>
static void enumerate(std::size_t lmax, std::size_t xmax, bool pairs)
{
    const std::size_t w = sizeof(B) * 8;
    std::vector<bool> v;
    for (std::size_t n = 0; n <= lmax; ++n)
    {
        if (n <= xmax)
        {
            for (unsigned long long x = 0; x < (1ull << n); ++x) { parse_pattern("x" + str(x), n, v); one<B>(v, "x" + str(x)); ++g_exhaustive_cases; }
            continue;
        }
        for (int f = 0; f < NFAM; ++f) { parse_pattern(FAM[f], n, v); one<B>(v, FAM[f]); }
        for (std::size_t i = 0; i < n; ++i)
        {
            parse_pattern("w1:" + str(i), n, v); one<B>(v, "w1:" + str(i));
            parse_pattern("w0:" + str(i), n, v); one<B>(v, "w0:" + str(i));
        }
    }
    if (pairs)
    {
        // every pair of set bits, for the boundary lengths of EVERY block width (a 64-wide slip is also visible to the narrow types' lists)
        for (std::size_t ww : {std::size_t(8), std::size_t(16), std::size_t(32), std::size_t(64)})
            for (std::size_t n : {ww - 1, ww, ww + 1, 2 * ww + 1})
            {
                if (n > lmax || n <= xmax) continue;
                for (std::size_t i = 0; i < n; ++i)
                    for (std::size_t j = i + 1; j < n; ++j) { std::string p = "pair:" + str(i) + ":" + str(j); parse_pattern(p, n, v); one<B>(v, p); }
            }
    }
    (void)w;
}

int main(int argc, char** argv)
{
    std::size_t lmax = 136, xmax = 10;
    bool pairs = false;
    std::string block, only_pat;
    long only_n = -1;
    for (int i = 1; i < argc; ++i)
    {
        std::string a = argv[i];
        if (a == "--block") block = argv[++i];
        else if (a == "--lmax") lmax = std::size_t(std::atol(argv[++i]));
        else if (a == "--xmax") xmax = std::size_t(std::atol(argv[++i]));
        else if (a == "--pairs") pairs = true;
        else if (a == "--only") { block = argv[++i]; only_n = std::atol(argv[++i]); only_pat = argv[++i]; }
    }
    if (lmax > LMAX) lmax = LMAX;
    if (xmax > 20) xmax = 20;
    vf::install_crash_handler();
    if (only_n >= 0)
    {
        std::vector<bool> v;
        if (only_n > LMAX || !parse_pattern(only_pat, std::size_t(only_n), v)) { std::printf("replay: bad case\n"); vf::done(); return 0; }
        if (block == "u8") one<std::uint8_t>(v, only_pat);
        if (block == "u16") one<std::uint16_t>(v, only_pat);
        if (block == "u32") one<std::uint32_t>(v, only_pat);
        if (block == "u64") one<std::uint64_t>(v, only_pat);
        vf::done();
        return 0;
    }
    if (block.empty() || block == "u8") enumerate<std::uint8_t>(lmax, xmax, pairs);
    if (block.empty() || block == "u16") enumerate<std::uint16_t>(lmax, xmax, pairs);
    if (block.empty() || block == "u32") enumerate<std::uint32_t>(lmax, xmax, pairs);
    if (block.empty() || block == "u64") enumerate<std::uint64_t>(lmax, xmax, pairs);
    vf::stat("list_cases", g_cases);
    vf::stat("list_cases_exhaustive_content", g_exhaustive_cases);
    vf::stat("list_evaluations", g_evals);
    vf::stat("list_evaluations_dirty_allocator", g_dirty_evals);
    vf::stat("list_dirty_blocks_default_inserted", c03::alloc_stats::default_inits());
    vf::smax("list_max_length", (long long)g_max_len);
    vf::note("C03/lists " + (block.empty() ? std::string("all blocks") : block) + ": initializer lists of every length 0.." + str(lmax) + " (all 2^L contents for L <= " + str(xmax) +
             ", above that " + str(NFAM) + " structured contents + walking one + walking zero at every position" + (pairs ? ", every pair of set bits at the boundary lengths of every block width" : "") +
             "): " + str(g_cases) + " lists, " + str(g_evals) + " constructions/assignments judged (9 routes per list x 3 allocators: std::allocator, default-initialising allocator over 0xFF-filled and over 0xA5-filled memory)");
    vf::done();
    return 0;
}
