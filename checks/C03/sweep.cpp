// C03 (size sweep): every size 0..NMAX x a family of bit patterns x every block type, owning bitset and view.
// The BFS part of C03 is exhaustive over small sizes; this part enumerates ALL sizes up to a few thousand bits with
// structured dense/sparse patterns, so that word-run / lane / multi-block boundaries of bulk algorithms (count, any, all,
// flip, shifts, comparison) are crossed. Oracle: the pattern's generating function (std::vector<bool> built bit by bit).
#include <xtl/xdynamic_bitset.hpp>

#include "report.hpp"

#include <cstdint>
#include <cstring>
#include <vector>

using vf::str;

static long long g_evals = 0, g_cases = 0;
static const char* PAT[] = {"ones", "zeros", "alternating", "every-third", "last-only", "all-but-first", "byte-lane", "ones-but-one-per-64"};
static const int NPAT = 8;
static bool bit_of(int pat, std::size_t i, std::size_t n)
{
    switch (pat)
    {
    case 0: return true;
    case 1: return false;
    case 2: return i % 2 == 1;
    case 3: return i % 3 == 0;
    case 4: return i + 1 == n;
    case 5: return i != 0;
    case 6: return (i / 8) % 8 == 3;
    default: return i % 64 != 17;
    }
}

template <class B> struct bname;
template <> struct bname<std::uint8_t> { static const char* s() { return "u8"; } };
template <> struct bname<std::uint16_t> { static const char* s() { return "u16"; } };
template <> struct bname<std::uint32_t> { static const char* s() { return "u32"; } };
template <> struct bname<std::uint64_t> { static const char* s() { return "u64"; } };

template <class B>
static void fail(const char* q, int pat, std::size_t n, const std::string& msg)
{
    std::string band = n < 256 ? "n<256" : n < 2048 ? "n<2048" : "n>=2048";
    vf::violation(std::string("C03/sweep-") + bname<B>::s() + "/" + q + "/" + PAT[pat] + "/" + band,
                  std::string("block ") + bname<B>::s() + ", size " + str(n) + ", pattern " + PAT[pat] + ": " + msg,
                  {"--sweep-only", bname<B>::s(), str(n), str(pat)});
}

template <class BS>
static void queries(const char* who, const BS& b, const std::vector<bool>& ref, std::size_t expected, int pat, bool allow_count)
{
    typedef typename BS::block_type B;
    const std::size_t n = ref.size();
    std::string w = std::string(who) + ": ";
    ++g_evals;
    if (b.size() != n) fail<B>("size", pat, n, w + "size() = " + str(b.size()));
    if (allow_count && b.count() != expected) fail<B>("count", pat, n, w + "count() = " + str(b.count()) + ", " + str(expected) + " bits are set");
    if (b.any() != (expected != 0)) fail<B>("any", pat, n, w + "any() wrong");
    if (b.none() != (expected == 0)) fail<B>("none", pat, n, w + "none() wrong");
    if (b.all() != (expected == n)) fail<B>("all", pat, n, w + "all() wrong");
    if (b.empty() != (n == 0)) fail<B>("empty", pat, n, w + "empty() wrong");
    for (std::size_t i = 0; i < n; ++i)
        if (b[i] != ref[i]) { fail<B>("element", pat, n, w + "bit " + str(i) + " reads " + str(int(b[i])) + ", expected " + str(int(ref[i]))); break; }
    std::size_t it_count = 0, k = 0;
    bool it_ok = true;
    for (auto it = b.cbegin(); it != b.cend(); ++it, ++k) { if (k < n && bool(*it) != ref[k]) it_ok = false; if (*it) ++it_count; }
    if (k != n || !it_ok || it_count != expected) fail<B>("iteration", pat, n, w + "iteration visits " + str(k) + " bits, " + str(it_count) + " of them set");
}

template <class B>
static void one(std::size_t n, int pat)
{
    typedef xtl::xdynamic_bitset<B> BS;
    ++g_cases;
    std::vector<bool> ref(n);
    std::size_t expected = 0;
    for (std::size_t i = 0; i < n; ++i) { ref[i] = bit_of(pat, i, n); expected += ref[i]; }
    // built bit by bit through the proxy
    BS b(n, false);
    for (std::size_t i = 0; i < n; ++i) if (ref[i]) b[i] = true;
    queries("bitset written bit by bit", b, ref, expected, pat, n != 0);
    // built by bulk constructors / whole-set operations where the pattern allows
    if (pat == 0)
    {
        BS c(n, true);
        queries("bitset(n, true)", c, ref, expected, pat, n != 0);
        BS d(n, false); d.set();
        queries("bitset(n,false).set()", d, ref, expected, pat, n != 0);
        BS e(n, false); e.flip();
        queries("bitset(n,false).flip()", e, ref, expected, pat, n != 0);
        BS f; f.resize(n, true);
        queries("resize(n, true)", f, ref, expected, pat, n != 0);
        if (!(c == b) || c != b) fail<B>("equality", pat, n, "bitset(n,true) != the same bits written one by one");
    }
    if (pat == 1)
    {
        BS c(n, true); c.reset();
        queries("bitset(n,true).reset()", c, ref, expected, pat, n != 0);
    }
    // push_back construction
    if (n <= 600 || n % 64 < 2)
    {
        BS p;
        for (std::size_t i = 0; i < n; ++i) p.push_back(ref[i]);
        queries("bitset built by push_back", p, ref, expected, pat, n != 0);
        if (!(p == b)) fail<B>("equality", pat, n, "push_back-built bitset != proxy-written bitset");
    }
    // view over the same blocks
    {
        xtl::xdynamic_bitset_view<B> v(b.data(), n);
        queries("view over the bitset's blocks", v, ref, expected, pat, n != 0);
    }
    // complement
    {
        BS c(b);
        c.flip();
        std::vector<bool> r2(ref); r2.flip();
        queries("flip() of it", c, r2, n - expected, pat, n != 0);
        BS t = ~b;
        if (!(t == c)) fail<B>("complement", pat, n, "~b differs from b.flip()");
        if (n != 0 && (b & c).any()) fail<B>("and", pat, n, "b & ~b has a bit set");
        if (n != 0 && !(b | c).all()) fail<B>("or", pat, n, "b | ~b is not all ones");
        if (n != 0 && (b ^ c).count() != n) fail<B>("xor", pat, n, "(b ^ ~b).count() = " + str((b ^ c).count()));
        if (n != 0 && (c == b)) fail<B>("equality", pat, n, "a bitset compares equal to its complement");
    }
    // shifts by one and by one block
    if (n != 0)
    {
        for (std::size_t s : {std::size_t(1), std::size_t(8 * sizeof(B)), std::size_t(8 * sizeof(B) + 1)})
        {
            std::vector<bool> l(n, false), r(n, false);
            std::size_t el = 0, er = 0;
            for (std::size_t i = 0; i < n; ++i)
            {
                if (i >= s) { l[i] = ref[i - s]; el += l[i]; }
                if (i + s < n) { r[i] = ref[i + s]; er += r[i]; }
            }
            BS sl = b << s, sr = b >> s;
            queries(("b << " + str(s)).c_str(), sl, l, el, pat, true);
            queries(("b >> " + str(s)).c_str(), sr, r, er, pat, true);
        }
    }
    // a single differing bit (first, middle, last) breaks equality
    if (n != 0)
    {
        for (std::size_t pos : {std::size_t(0), n / 2, n - 1})
        {
            BS c(b);
            c[pos] = !ref[pos];
            if (c == b || !(c != b)) fail<B>("equality", pat, n, "bitsets differing only in bit " + str(pos) + " compare equal");
            std::size_t ec = ref[pos] ? expected - 1 : expected + 1;
            if (c.count() != ec) fail<B>("count", pat, n, "after toggling bit " + str(pos) + " count() = " + str(c.count()) + ", expected " + str(ec));
        }
    }
}

template <class B>
static void sweep(std::size_t nmax, long only_n, int only_pat)
{
    for (std::size_t n = 0; n <= nmax; ++n)
    {
        if (only_n >= 0 && n != std::size_t(only_n)) continue;
        for (int p = 0; p < NPAT; ++p) if (only_pat < 0 || p == only_pat) one<B>(n, p);
    }
}

int main(int argc, char** argv)
{
    std::size_t nmax = 2200;
    std::string only_block;
    long only_n = -1;
    int only_pat = -1;
    for (int i = 1; i < argc; ++i)
    {
        std::string a = argv[i];
        if (a == "--nmax") nmax = std::size_t(atol(argv[++i]));
        else if (a == "--block") only_block = argv[++i];
        else if (a == "--sweep-only") { only_block = argv[++i]; only_n = atol(argv[++i]); only_pat = atoi(argv[++i]); nmax = std::size_t(only_n); }
    }
    vf::install_crash_handler();
    if (only_block.empty() || only_block == "u8") sweep<std::uint8_t>(nmax, only_n, only_pat);
    if (only_block.empty() || only_block == "u16") sweep<std::uint16_t>(nmax, only_n, only_pat);
    if (only_block.empty() || only_block == "u32") sweep<std::uint32_t>(nmax, only_n, only_pat);
    if (only_block.empty() || only_block == "u64") sweep<std::uint64_t>(nmax, only_n, only_pat);
    vf::stat("sweep_cases", g_cases);
    vf::stat("sweep_query_rounds", g_evals);
    vf::smax("sweep_max_size", (long long)nmax);
    if (only_n < 0) vf::note("C03/sweep " + (only_block.empty() ? std::string("all blocks") : only_block) + ": every size 0.." + str(nmax) + " x " + str(NPAT) + " patterns: " + str(g_cases) + " cases, " + str(g_evals) + " query rounds");
    vf::done();
    return 0;
}
