// C16: span views cover exactly the requested sub-range; checked mode rejects bad ones (see DESIGN.md "### C16").
//
// Bounded exhaustive enumeration (engine E3).  Every request (a constructor call or a first/last/subspan call with
// concrete arguments on a concrete parent) is executed on the REAL xtl::span and judged by an oracle that is written
// in 128-bit integer arithmetic on (parent size, offset, count) and in terms of raw addresses of the parent block --
// it never goes through span code.  Two builds of this file exist:
//   -DTCB_SPAN_NO_CONTRACT_CHECKING          only requests that are valid by the oracle are executed
//   -DTCB_SPAN_THROW_ON_CONTRACT_VIOLATION   all requests are executed; invalid ones must be rejected by an exception
// The instantiation matrix (which span<E,N> parents, which first<C>/last<C>/subspan<O,C>) comes from the generated
// file c16_cases.inc (written by check.py, which holds the manifest of well-formed instantiations).
#include <xtl/xspan.hpp>
#include "report.hpp"

#include <array>
#include <climits>
#include <cstdint>
#include <cstdlib>
#include <cstring>
#include <limits>
#include <new>
#include <string>
#include <type_traits>
#include <unordered_set>
#include <vector>

#include <sys/mman.h>
#include <sys/wait.h>

#if defined(TCB_SPAN_THROW_ON_CONTRACT_VIOLATION)
#define C16_CHECKED 1
static const char* const MODE = "checked";
#elif defined(TCB_SPAN_NO_CONTRACT_CHECKING)
#define C16_CHECKED 0
static const char* const MODE = "nocheck";
#else
#error "build with -DTCB_SPAN_THROW_ON_CONTRACT_VIOLATION or -DTCB_SPAN_NO_CONTRACT_CHECKING"
#endif

#ifndef C16_GETMAX
#define C16_GETMAX 8   // get<N>(view) is instantiated for N in {-1, 0..C16_GETMAX, PTRDIFF_MAX}; check.py passes nmax+2
#endif
#pragma GCC diagnostic ignored "-Wdeprecated-declarations"   // operator()(idx) is [[deprecated]] but public, so it is enumerated

#ifndef C16_PART
#error "C16_PART must select the element type of this binary"
#endif

typedef __int128 i128;
static const std::ptrdiff_t DYN = -1;
#define PMAX (std::numeric_limits<std::ptrdiff_t>::max())

// ------------------------------------------------------------------------------------------------ options / counters
static int g_nmax = 6;
static bool g_have_only = false;
static std::string g_only;
static std::string g_cur, g_cur_inst = "harness", g_cur_op = "startup";   // request being executed (crash attribution)
static long long g_eval = 0, g_requests = 0, g_probes = 0, g_skipped = 0, g_valid = 0, g_invalid = 0, g_views = 0, g_writes = 0;
static std::unordered_set<uint64_t> g_keys_nt, g_keys_req;

// The enumeration runs in a forked child; the request being executed is kept in memory shared with the parent so that a
// child that dies without a word (a fatal UBSan report calls _exit) is still attributed to an input.
struct Shared
{
    volatile int done;
    char key[700], inst[120], op[120];
};
static Shared* g_shared = nullptr;
static void share(char* dst, size_t cap, const std::string& v)
{
    size_t n = v.size() < cap - 1 ? v.size() : cap - 1;
    std::memcpy(dst, v.data(), n);
    dst[n] = 0;
}

static uint64_t fnv(const std::string& s)
{
    uint64_t h = 1469598103934665603ull;
    for (unsigned char c : s) { h ^= c; h *= 1099511628211ull; }
    return h;
}

static std::string s128(i128 x)
{
    bool neg = x < 0;
    unsigned __int128 u = neg ? -(unsigned __int128)x : (unsigned __int128)x;
    std::string s;
    do { s.insert(s.begin(), char('0' + int(u % 10))); u /= 10; } while (u);
    return neg ? "-" + s : s;
}
static std::string su(size_t x) { return s128((i128)(unsigned __int128)x); }

// readable form of a size_t argument in messages: small values as they are, big ones relative to 2^k / SIZE_MAX
static std::string nice(size_t x)
{
    if (x <= 1000000) return su(x);
    if (SIZE_MAX - x <= 1000) return SIZE_MAX == x ? "SIZE_MAX" : "SIZE_MAX-" + su(SIZE_MAX - x);
    for (int k = 31; k <= 63; ++k)
    {
        size_t p = size_t(1) << k;
        if (x >= p && x - p <= 1000) return "2^" + std::to_string(k) + (x == p ? "" : "+" + su(x - p));
        if (x < p && p - x <= 1000) return "2^" + std::to_string(k) + "-" + su(p - x);
    }
    return su(x);
}

// ------------------------------------------------------------------------------------------------ element types
struct rec12
{
    int id;
    int pad[2];
};
static_assert(sizeof(rec12) == 12, "rec12 is the odd-sized element");

template <class V> struct elem;
template <> struct elem<int>
{
    static const char* name() { return "int"; }
    static int mk(int id) { return 70000 + id; }
    static int idof(const int& v) { return v - 70000; }
};
template <> struct elem<unsigned char>
{
    static const char* name() { return "uchar"; }
    static unsigned char mk(int id) { return (unsigned char)id; }
    static int idof(const unsigned char& v) { return v; }
};
template <> struct elem<double>
{
    static const char* name() { return "double"; }
    static double mk(int id) { return id + 0.5; }
    static int idof(const double& v) { return (v - 0.5 == double(int(v - 0.5))) ? int(v - 0.5) : -1; }
};
template <> struct elem<rec12>
{
    static const char* name() { return "rec12"; }
    static rec12 mk(int id) { rec12 r; r.id = id; r.pad[0] = ~id; r.pad[1] = id * 3; return r; }
    static int idof(const rec12& v) { return (v.pad[0] == ~v.id && v.pad[1] == v.id * 3) ? v.id : -1; }
};
template <class E> std::string ename()
{
    typedef typename std::remove_const<E>::type V;
    return std::string(std::is_const<E>::value ? "const " : "") + elem<V>::name();
}

// A region of memory that contains the parent's n elements at [first, first+n) and knows, as plain ids, what every
// element of the region must currently hold.  layout 0: two guard elements on either side; layout 1: exact-size heap
// block (any access off the parent is an ASan report); attached: memory owned by a C array / std::array / vector.
template <class V>
struct Region
{
    V* lo;
    size_t total, first, n;
    bool owned;
    std::vector<int> model;

    Region(size_t n_, int layout) : n(n_), owned(true)
    {
        size_t g = layout == 0 ? 2 : 0;
        total = n + 2 * g;
        first = g;
        lo = static_cast<V*>(std::malloc(total * sizeof(V) ? total * sizeof(V) : 1));
        if (!lo) { std::fprintf(stderr, "malloc failed\n"); std::exit(2); }
        fill();
    }
    Region(V* p, size_t n_) : lo(p), total(n_), first(0), n(n_), owned(false) { fill(); }
    Region(const Region&) = delete;
    ~Region() { if (owned) std::free(lo); }

    void fill()
    {
        model.resize(total);
        for (size_t j = 0; j < total; ++j)
        {
            int id = j < first ? 240 + int(j) : j < first + n ? 10 + int(j - first) : 244 + int(j - first - n);
            model[j] = id;
            lo[j] = elem<V>::mk(id);
        }
    }
    V* elems() const { return lo + first; }
    bool verify(std::string& why) const
    {
        for (size_t j = 0; j < total; ++j)
        {
            int got = elem<V>::idof(lo[j]);
            if (got != model[j])
            {
                why = "block position " + std::to_string((long long)j - (long long)first) + " (relative to parent[0]) holds id " + std::to_string(got) +
                      ", expected " + std::to_string(model[j]);
                return false;
            }
        }
        return true;
    }
};

// ------------------------------------------------------------------------------------------------ the oracle
enum OpKind { OP_CTOR, OP_FIRST, OP_LAST, OP_SUB };

struct Want
{
    bool valid;
    size_t off, cnt;
    const char* cls;   // class of an invalid request
};

// a, b: mathematical values of the arguments (size_t arguments as non-negative integers, template arguments signed);
// rest: the count argument is the "dynamic_extent" sentinel (absent count); limit: largest value of the argument type.
static Want oracle(size_t n_, OpKind k, i128 a, i128 b, bool rest, i128 limit)
{
    const i128 n = (i128)(unsigned __int128)n_;
    Want w = {false, 0, 0, ""};
    if (k == OP_FIRST || k == OP_LAST)
    {
        if (a < 0) w.cls = "negative_count";
        else if (a > n) w.cls = "count>size";
        else { w.valid = true; w.cnt = size_t(a); w.off = k == OP_FIRST ? 0 : size_t(n - a); }
        return w;
    }
    if (a < 0) w.cls = "negative_offset";
    else if (a > n) w.cls = "offset>size";
    else if (rest) { w.valid = true; w.off = size_t(a); w.cnt = size_t(n - a); }
    else if (b < 0) w.cls = "negative_count";
    else if (a + b <= n) { w.valid = true; w.off = size_t(a); w.cnt = size_t(b); }
    else if (a + b > limit) w.cls = "offset+count_overflows";
    else w.cls = "count>size-offset";
    return w;
}
static const i128 ULIMIT = (i128)(unsigned __int128)SIZE_MAX;
static const i128 SLIMIT = (i128)PMAX;

// argument alphabet for a parent of n elements (DESIGN: {0..n+2, SIZE_MAX, SIZE_MAX-1, SIZE_MAX-n.., dynamic_extent} plus
// the values around 2^31/2^32/2^63 and the element counts whose byte offset wraps to 0 for 4- and 8-byte elements)
static std::vector<size_t> alphabet(size_t n)
{
    std::vector<size_t> v;
    for (size_t k = 0; k <= n + 2; ++k) v.push_back(k);
    const size_t one = 1;
    const size_t extra[] = {one << 31, (one << 32) - 1, one << 32, (one << 32) + 1, one << 61, (one << 61) + 1, one << 62, (one << 62) + 1,
                            (one << 63) - 1, one << 63, (one << 63) + 1};
    for (size_t x : extra) v.push_back(x);
    for (size_t k = n + 3; k-- > 0;) v.push_back(SIZE_MAX - k);
    return v;
}
// out-of-range indices for a view of cnt elements
static std::vector<size_t> out_indices(size_t cnt, size_t esz)
{
    std::vector<size_t> v;
    const size_t one = 1;
    const size_t c[] = {cnt, cnt + 1, cnt + 2, one << 31, one << 32, (one << 32) + cnt, one << 61, (one << 61) + (cnt ? cnt - 1 : 0), one << 62,
                        (one << 62) + (cnt ? cnt - 1 : 0), (one << 63) - 1, one << 63, (one << 63) + cnt, SIZE_MAX / esz, SIZE_MAX / esz + 1, SIZE_MAX - cnt, SIZE_MAX - 1, SIZE_MAX};
    for (size_t x : c)
    {
        bool dup = x < cnt;
        for (size_t y : v) if (y == x) dup = true;
        if (!dup) v.push_back(x);
    }
    return v;
}

// ------------------------------------------------------------------------------------------------ exceptions as outcomes
enum Thrown { T_NONE, T_CONTRACT, T_OOR, T_STD, T_OTHER, T_FATAL };
static const char* tname(Thrown t)
{
    return t == T_FATAL ? "a fatal sanitizer report / crash (the accessor formed a null reference)" : t == T_NONE ? "no exception" : t == T_CONTRACT ? "contract_violation_error" : t == T_OOR ? "std::out_of_range" : t == T_STD ? "std::exception" : "non-std exception";
}
template <class F>
static Thrown guarded(F f)
{
    try { f(); return T_NONE; }
#if C16_CHECKED
    catch (const tcb::contract_violation_error&) { return T_CONTRACT; }
#endif
    catch (const std::out_of_range&) { return T_OOR; }
    catch (const std::exception&) { return T_STD; }
    catch (...) { return T_OTHER; }
}

// An out-of-range probe on a view whose data() is null (empty vector, std::array<T,0>, default-constructed span) would, if the
// accessor wrongly accepted the index, bind a reference to address 0: UBSan reports that fatally.  Such probes run in a forked
// grandchild so that the outcome (rejected / accepted / fatal report) is an ordinary observation and the enumeration goes on.
static long long g_isolated = 0;
template <class F>
static Thrown guarded_iso(bool danger, F f)
{
    if (!danger) return guarded(f);
    ++g_isolated;
    std::fflush(stdout);
    pid_t pid = fork();
    if (pid < 0) return guarded(f);
    if (pid == 0)
    {
        int sigs[] = {SIGSEGV, SIGABRT, SIGFPE, SIGBUS, SIGILL};
        for (int sg : sigs) std::signal(sg, SIG_DFL);
        Thrown t = guarded(f);
        _exit(t == T_NONE ? 11 : 20 + int(t));
    }
    int st = 0;
    if (waitpid(pid, &st, 0) != pid || !WIFEXITED(st)) return T_FATAL;
    int rc = WEXITSTATUS(st);
    if (rc == 11) return T_NONE;
    if (rc > 20 && rc < 20 + int(T_FATAL)) return Thrown(rc - 20);
    return T_FATAL;
}
template <class E>
static bool null_ref(const E* data, size_t i) { return uintptr_t(data) + uintptr_t(i) * sizeof(E) == 0; }

static std::string kind_name(bool dynamic) { return dynamic ? "span<T,dyn>" : "span<T,N>"; }

// ------------------------------------------------------------------------------------------------ requests
struct Req
{
    std::string key;    // replay key: elem|parent|n|layout|op|args
    std::string inst;   // span<T,dyn> | span<T,N> | container kinds
    std::string op;     // first(c), subspan<O,C>, ctor(ptr,count), ...
    std::string text;   // human readable
    Want w;
    bool failed;        // some judgement on this request failed (later probes that would touch memory are skipped)
};

static void viol(const Req& rq, const std::string& inst, const std::string& op, const std::string& kind, const std::string& msg)
{
    vf::violation("C16/" + inst + "/" + op + "/" + MODE + ":" + kind, "[" + std::string(MODE) + " build] " + rq.text + ": " + msg, {"--nmax", std::to_string(g_nmax), "--only", rq.key});
}

static std::set<std::string> g_sampled;

// returns false if the request is not to be executed (filtered by --only, or invalid in the unchecked build)
static bool begin_request(Req& rq, const std::string& elemname, const std::string& parent, const std::string& inst, size_t n, int layout,
                          const std::string& op, const std::string& args, const Want& w, bool nontrivial_if_valid)
{
    rq.key = elemname + "|" + parent + "|n=" + std::to_string(n) + "|L" + std::to_string(layout) + "|" + op + "|" + args;
    if (g_have_only && rq.key != g_only) return false;
    rq.inst = inst;
    rq.op = op;
    rq.w = w;
    rq.failed = false;
    if (!w.valid && !C16_CHECKED) { ++g_skipped; return false; }
    rq.text = op + " [" + args + "] on " + parent + " of " + elemname + ", parent size " + std::to_string(n) + (layout == 0 ? " (guarded block)" : layout == 1 ? " (exact-size heap block)" : " (container storage)");
    ++g_eval;
    ++g_requests;
    (w.valid ? g_valid : g_invalid)++;
    uint64_t h = fnv(rq.key);
    g_keys_req.insert(h);
    bool nt = !w.valid || nontrivial_if_valid;
    if (nt) g_keys_nt.insert(h);
    g_cur = rq.key;
    g_cur_inst = inst;
    g_cur_op = op;
    if (g_shared) { share(g_shared->key, sizeof g_shared->key, rq.key); share(g_shared->inst, sizeof g_shared->inst, inst); share(g_shared->op, sizeof g_shared->op, op); }
    // a few cases written out for the evidence: the first request of every (class, operation) on a 3-element guarded parent
    if (n == 3 && layout != 1)
    {
        std::string cat = (!w.valid ? std::string(w.cls) : nontrivial_if_valid ? std::string("proper") : std::string("whole/empty")) + "/" + op;
        if (g_sampled.insert(cat).second)
            vf::sample(std::string(MODE) + ": " + rq.key + (w.valid ? " => view of parent[" + su(w.off) + "," + su(w.off + w.cnt) + ")" : std::string(" => must be rejected (") + w.cls + ")") + " {" + cat + "}", 400);
    }
    return true;
}

// judge what a request produced.  parent = address of parent element 0, esz = element size.
// returns true when a view was produced that is exactly the expected one (so that it can be probed)
static bool finish_request(Req& rq, Thrown t, const void* parent, size_t esz, size_t n, const void* d, size_t s)
{
    if (vf::take_asan()) { rq.failed = true; viol(rq, rq.inst, rq.op, "asan", "AddressSanitizer reported an error while the request was executed"); }
    if (t != T_NONE)
    {
        vf::stat(std::string("outcome_threw_") + tname(t));
        if (rq.w.valid)
        {
            rq.failed = true;
            viol(rq, rq.inst, rq.op, "rejected_valid", std::string("valid request (expected view parent[") + su(rq.w.off) + "," + su(rq.w.off + rq.w.cnt) + ")) threw " + tname(t));
        }
        return false;
    }
    const char* p0 = static_cast<const char*>(parent);
    const char* dd = static_cast<const char*>(d);
    long long rel = (long long)(dd - p0);
    bool inside = dd >= p0 && (rel % (long long)esz) == 0 && size_t(rel) / esz <= n && s <= n - size_t(rel) / esz;
    std::string got = "view {data = parent" + std::string(rel >= 0 ? "+" : "") + std::to_string(rel) + " bytes, size = " + nice(s) + "}" + (inside ? "" : " which is NOT inside the parent");
    if (!rq.w.valid)
    {
        rq.failed = true;
        viol(rq, rq.inst, rq.op, std::string("accepted_invalid:") + rq.w.cls, std::string("invalid request (") + rq.w.cls + ") was not rejected; it returned " + got);
        return false;
    }
    const char* want = p0 + rq.w.off * esz;
    if (dd != want || s != rq.w.cnt)
    {
        rq.failed = true;
        viol(rq, rq.inst, rq.op, inside ? "wrong_range" : "outside_parent",
             "expected view {data = parent+" + su(rq.w.off * esz) + " bytes, size = " + su(rq.w.cnt) + "}, observed " + got);
        return false;
    }
    return true;
}

// ------------------------------------------------------------------------------------------------ probing a view
static void pviol(Req& rq, const std::string& vk, const std::string& probe, const std::string& kind, const std::string& msg)
{
    rq.failed = true;
    viol(rq, vk, probe, kind, "on the resulting view (size " + su(rq.w.cnt) + "): " + msg);
}
static void probe_count(const Req& rq, const char* what, size_t i, bool nontrivial)
{
    ++g_eval;
    ++g_probes;
    if (nontrivial) g_keys_nt.insert(fnv(rq.key + "#" + what + "#" + su(i)));
}

template <class Vw, class V>
static void write_probes(Req&, const Vw&, Region<V>&, size_t, size_t, const std::string&, std::true_type) {}

template <class Vw, class V>
static void write_probes(Req& rq, const Vw& v, Region<V>& rg, size_t off, size_t cnt, const std::string& vk, std::false_type)
{
    static const char* const how_name[] = {"write via operator[]", "write via at()", "write via iterator", "write via reverse iterator", "write via front()", "write via back()"};
    const size_t pos0 = rg.first + off;
    for (size_t i = 0; i < cnt; ++i)
    {
        for (int how = 0; how < 6; ++how)
        {
            if (how == 4 && i != 0) continue;
            if (how == 5 && i != cnt - 1) continue;
            const V val = elem<V>::mk(100 + int(i));
            probe_count(rq, how_name[how], i, false);
            ++g_writes;
            Thrown t = guarded([&] {
                switch (how)
                {
                case 0: v[i] = val; break;
                case 1: v.at(i) = val; break;
                case 2: *(v.begin() + std::ptrdiff_t(i)) = val; break;
                case 3: *(v.rbegin() + std::ptrdiff_t(cnt - 1 - i)) = val; break;
                case 4: v.front() = val; break;
                default: v.back() = val; break;
                }
            });
            rg.model[pos0 + i] = 100 + int(i);
            std::string why;
            bool asan = vf::take_asan();
            if (t != T_NONE) pviol(rq, vk, how_name[how], "threw", std::string("element ") + su(i) + ": " + tname(t));
            else if (asan) pviol(rq, vk, how_name[how], "asan", "AddressSanitizer report while writing element " + su(i));
            else if (!rg.verify(why)) pviol(rq, vk, how_name[how], "lands_elsewhere", "after writing element " + su(i) + " of the view (parent element " + su(off + i) + "): " + why);
            rg.fill();
            if (rq.failed) return;
        }
    }
}

// ---- every public element-access entry point (the list is cross-checked against the header by check.py: ACCESSORS)
// operator()(idx): present unless TCB_SPAN_NO_FUNCTION_CALL_OPERATOR; detected, so that its absence is a note, not a build failure
template <class Vw, class = void> struct has_call_op : std::false_type {};
template <class Vw> struct has_call_op<Vw, decltype(void(std::declval<const Vw&>()(size_t(0))))> : std::true_type {};
template <class Vw> static typename Vw::pointer call_op(const Vw& v, size_t i, std::true_type) { return &v(i); }
template <class Vw> static typename Vw::pointer call_op(const Vw&, size_t, std::false_type) { return nullptr; }

static std::string relpos(const void* a, const void* parent) { return "parent" + std::string((const char*)a >= (const char*)parent ? "+" : "") + std::to_string((long long)((const char*)a - (const char*)parent)) + " bytes"; }

// get<N>(view) for one compile-time N: in range => the address of parent element off+N; out of range (N < 0 or N >= size) => rejected in the checked build
template <std::ptrdiff_t N>
struct get_one
{
    template <class Vw, class V>
    static void run(Req& rq, const Vw& v, Region<V>& rg, size_t off, size_t cnt, const std::string& vk)
    {
        typedef typename Vw::element_type E;
        const bool in = N >= 0 && size_t(N) < cnt;
        if (!in && !C16_CHECKED) return;
        if (in && rq.failed) return;
        const E* a = nullptr;
        const char* pn = in ? "get<N>(N<size)" : "get<N>(N>=size)";
        probe_count(rq, pn, size_t(N), !in);
        const bool danger = !in && null_ref(v.data(), size_t(N));
        Thrown t = guarded_iso(danger, [&] { a = &tcb::get<N>(v); });
        if (in)
        {
            if (t != T_NONE) pviol(rq, vk, pn, "threw", "N = " + s128(N) + " threw " + tname(t));
            else if (a != rg.elems() + off + size_t(N)) pviol(rq, vk, pn, "wrong_element", "N = " + s128(N) + " refers to " + relpos(a, rg.elems()) + ", expected parent element " + su(off + size_t(N)));
        }
        else if (t == T_NONE || t == T_FATAL) pviol(rq, vk, pn, "accepted_out_of_range", danger ? "get<" + s128(N) + ">(view) on a view with data() == nullptr ended with " + tname(t) + " instead of being rejected" : "get<" + s128(N) + ">(view) returned a reference (" + relpos(a, rg.elems()) + ") instead of being rejected");
    }
};
template <std::ptrdiff_t N, std::ptrdiff_t Max>
struct get_range
{
    template <class Vw, class V>
    static void run(Req& rq, const Vw& v, Region<V>& rg, size_t off, size_t cnt, const std::string& vk)
    {
        get_one<N>::run(rq, v, rg, off, cnt, vk);
        get_range<N + 1, Max>::run(rq, v, rg, off, cnt, vk);
    }
};
template <std::ptrdiff_t Max>
struct get_range<Max, Max>
{
    template <class Vw, class V>
    static void run(Req& rq, const Vw& v, Region<V>& rg, size_t off, size_t cnt, const std::string& vk) { get_one<Max>::run(rq, v, rg, off, cnt, vk); }
};

template <class Vw, class V>
static void check_view(Req& rq, const Vw& v, Region<V>& rg, size_t off, size_t cnt)
{
    typedef typename Vw::element_type E;
    const size_t ext = Vw::extent;
    const std::string vk = kind_name(ext == size_t(DYN));
    E* const P = rg.elems() + off;
    const size_t pos0 = rg.first + off;
    ++g_views;

    probe_count(rq, "observers", 0, false);
    if (v.size_bytes() != cnt * sizeof(E)) pviol(rq, vk, "size_bytes()", "wrong", "size_bytes() = " + su(v.size_bytes()) + ", expected " + su(cnt * sizeof(E)));
    if (v.empty() != (cnt == 0)) pviol(rq, vk, "empty()", "wrong", std::string("empty() = ") + (v.empty() ? "true" : "false"));
    if (ext != size_t(DYN) && ext != v.size()) pviol(rq, vk, "extent", "differs_from_size", "static extent " + su(ext) + " but size() = " + su(v.size()));

    // element access inside the view through EVERY entry point: addresses first, values only when the address is the right one
    static const char* const acc[] = {"operator[](i<size)", "at(i<size)", "operator()(i<size)", "begin()[i]", "*(begin()+i)", "cbegin()[i]", "rbegin()[size-1-i]", "crbegin()[size-1-i]", "data()[i]"};
    const bool have_call = has_call_op<Vw>::value;
    if (!have_call) vf::stat("views_without_operator()", 1);
    if (v.data() + v.size() != v.end() || v.data() != v.begin()) pviol(rq, vk, "data()+size()", "inconsistent", "data()/size() do not agree with begin()/end()");
    for (size_t i = 0; i < cnt && !rq.failed; ++i)
    {
        for (int how = 0; how < 9; ++how)
        {
            if (how == 2 && !have_call) continue;
            const char* pn = acc[how];
            const E* a = nullptr;
            probe_count(rq, pn, i, false);
            Thrown t = guarded([&] {
                switch (how)
                {
                case 0: a = &v[i]; break;
                case 1: a = &v.at(i); break;
                case 2: a = call_op(v, i, has_call_op<Vw>()); break;
                case 3: a = &v.begin()[std::ptrdiff_t(i)]; break;
                case 4: a = &*(v.begin() + std::ptrdiff_t(i)); break;
                case 5: a = &v.cbegin()[std::ptrdiff_t(i)]; break;
                case 6: a = &v.rbegin()[std::ptrdiff_t(cnt - 1 - i)]; break;
                case 7: a = &v.crbegin()[std::ptrdiff_t(cnt - 1 - i)]; break;
                default: a = &v.data()[i]; break;
                }
            });
            if (t != T_NONE) pviol(rq, vk, pn, "threw", "i = " + su(i) + " threw " + tname(t));
            else if (a != P + i) pviol(rq, vk, pn, "wrong_element", "i = " + su(i) + " refers to " + relpos(a, rg.elems()) + ", expected parent element " + su(off + i));
            else if (elem<V>::idof(*a) != rg.model[pos0 + i]) pviol(rq, vk, pn, "wrong_value", "i = " + su(i));
        }
    }
    // get<N>(view): N = -1 (SIZE_MAX as an index), 0..C16_GETMAX, PTRDIFF_MAX
    get_one<-1>::run(rq, v, rg, off, cnt, vk);
    get_range<0, C16_GETMAX>::run(rq, v, rg, off, cnt, vk);
    get_one<PMAX>::run(rq, v, rg, off, cnt, vk);
    if (cnt > 0 && !rq.failed)
    {
        const E *f = nullptr, *b = nullptr;
        probe_count(rq, "front(),back()", 0, false);
        Thrown t = guarded([&] { f = &v.front(); b = &v.back(); });
        if (t != T_NONE) pviol(rq, vk, "front(),back()", "threw", std::string("non-empty view threw ") + tname(t));
        else if (f != P || b != P + (cnt - 1)) pviol(rq, vk, "front(),back()", "wrong_element", "front/back do not refer to the first/last element of the requested range");
    }
    // iteration
    if (!rq.failed)
    {
        probe_count(rq, "iteration", 0, false);
        if (v.begin() != P || v.end() != P + cnt || v.cbegin() != P || v.cend() != P + cnt)
            pviol(rq, vk, "begin(),end()", "wrong", "begin/end/cbegin/cend do not delimit the requested range");
        else if (v.rbegin().base() != P + cnt || v.rend().base() != P || v.crbegin().base() != P + cnt || v.crend().base() != P)
            pviol(rq, vk, "rbegin(),rend()", "wrong", "reverse iterators do not delimit the requested range");
        else
        {
            size_t k = 0;
            bool bad = false;
            for (auto it = v.begin(); it != v.end() && k <= cnt; ++it, ++k)
                if (&*it != P + k || elem<V>::idof(*it) != rg.model[pos0 + k]) bad = true;
            if (k != cnt || bad) pviol(rq, vk, "forward iteration", "wrong_sequence", "visited " + su(k) + " elements");
            k = 0;
            bad = false;
            for (auto it = v.rbegin(); it != v.rend() && k <= cnt; ++it, ++k)
                if (&*it != P + (cnt - 1 - k) || elem<V>::idof(*it) != rg.model[pos0 + cnt - 1 - k]) bad = true;
            if (k != cnt || bad) pviol(rq, vk, "reverse iteration", "wrong_sequence", "visited " + su(k) + " elements");
            k = 0;
            bad = false;
            for (auto it = v.crbegin(); it != v.crend() && k <= cnt; ++it, ++k)
                if (&*it != P + (cnt - 1 - k)) bad = true;
            if (k != cnt || bad) pviol(rq, vk, "reverse iteration", "wrong_sequence", "const reverse iteration visited " + su(k) + " elements");
        }
    }
    // out of range: at() must throw in every build; operator[] / front / back must be rejected in the checked build
    const std::vector<size_t> out = out_indices(cnt, sizeof(E));
    for (size_t i : out)
    {
        const E* a = nullptr;
        probe_count(rq, "at(i>=size)", i, true);
        const bool danger = null_ref(v.data(), i);
        Thrown t = guarded_iso(danger, [&] { a = &v.at(i); });
        if (t == T_NONE || t == T_FATAL) pviol(rq, vk, "at(i>=size)", "no_throw", danger ? "at(" + nice(i) + ") on a view with data() == nullptr ended with " + tname(t) + " instead of throwing" : "at(" + nice(i) + ") returned a reference (parent" + std::to_string((long long)((const char*)a - (const char*)rg.elems())) + " bytes) instead of throwing");
        else vf::stat(std::string("at_out_of_range_threw_") + tname(t));
#if C16_CHECKED
        a = nullptr;
        probe_count(rq, "operator[](i>=size)", i, true);
        t = guarded_iso(danger, [&] { a = &v[i]; });
        if (t == T_NONE || t == T_FATAL) pviol(rq, vk, "operator[](i>=size)", "accepted_out_of_range", danger ? "[" + nice(i) + "] on a view with data() == nullptr ended with " + tname(t) + " instead of being rejected" : "[" + nice(i) + "] returned a reference (parent" + std::to_string((long long)((const char*)a - (const char*)rg.elems())) + " bytes) instead of being rejected");
        if (have_call)
        {
            a = nullptr;
            probe_count(rq, "operator()(i>=size)", i, true);
            t = guarded_iso(danger, [&] { a = call_op(v, i, has_call_op<Vw>()); });
            if (t == T_NONE || t == T_FATAL) pviol(rq, vk, "operator()(i>=size)", "accepted_out_of_range", danger ? "(" + nice(i) + ") on a view with data() == nullptr ended with " + tname(t) + " instead of being rejected" : "(" + nice(i) + ") returned a reference (" + relpos(a, rg.elems()) + ") instead of being rejected");
        }
#endif
    }
#if C16_CHECKED
    if (cnt == 0)
    {
        const E* a = nullptr;
        probe_count(rq, "front() on empty", 0, true);
        const Thrown tf = guarded_iso(v.data() == nullptr, [&] { a = &v.front(); });
        if (tf == T_NONE || tf == T_FATAL) pviol(rq, vk, "front() on empty", "accepted", std::string("front() of an empty view ended with ") + tname(tf) + " instead of being rejected");
        probe_count(rq, "back() on empty", 0, true);
        if (guarded([&] { a = &v.back(); }) == T_NONE) pviol(rq, vk, "back() on empty", "accepted", "back() of an empty view returned a reference");
        (void)a;
    }
#endif
    if (vf::take_asan()) pviol(rq, vk, "reads", "asan", "AddressSanitizer report while reading through the view");
    if (!rq.failed) write_probes(rq, v, rg, off, cnt, vk, std::is_const<E>());
    std::string why;
    if (!rg.verify(why)) { pviol(rq, vk, "reads", "modified_parent", why); rg.fill(); }
}

// run one request: call() returns the view (or throws)
template <class V, class F>
static void do_request(Req& rq, Region<V>& rg, F call)
{
    typedef decltype(call()) Vw;
    alignas(Vw) unsigned char buf[sizeof(Vw)];
    Vw* pv = nullptr;
    Thrown t = guarded([&] { pv = new (buf) Vw(call()); });
    bool ok = finish_request(rq, t, rg.elems(), sizeof(V), rg.n, pv ? static_cast<const void*>(pv->data()) : nullptr, pv ? pv->size() : 0);
    if (ok) check_view(rq, *pv, rg, rq.w.off, rq.w.cnt);
}

static std::string pname(std::ptrdiff_t pe) { return pe < 0 ? "span<dyn>" : "span<" + std::to_string(pe) + ">"; }

// ------------------------------------------------------------------------------------------------ run-time arguments
// all constructor forms and all first(c)/last(c)/subspan(o[,c]) requests on parents of type span<E,PE>
template <class E, std::ptrdiff_t PE>
struct dyn_ops
{
    typedef typename std::remove_const<E>::type V;
    typedef xtl::span<E, PE> P;
    typedef xtl::span<E, DYN> D;

    static Want whole(size_t n) { Want w = {true, 0, n, ""}; return w; }
    static Want ctor_want(size_t have) { Want w = {PE < 0 || size_t(PE) == have, 0, have, "count!=extent"}; return w; }

    static void sub_ops(const P& p, Region<V>& rg, size_t n, int layout, const std::string& en, const std::string& pn, const std::string& inst)
    {
        const std::vector<size_t> A = alphabet(n);
        Req rq;
        for (size_t c : A)
        {
            Want w = oracle(n, OP_FIRST, (i128)(unsigned __int128)c, 0, false, ULIMIT);
            if (begin_request(rq, en, pn, inst, n, layout, "first(c)", "c=" + su(c), w, w.cnt > 0 && w.cnt < n))
                do_request(rq, rg, [&] { return p.first(c); });
            w = oracle(n, OP_LAST, (i128)(unsigned __int128)c, 0, false, ULIMIT);
            if (begin_request(rq, en, pn, inst, n, layout, "last(c)", "c=" + su(c), w, w.cnt > 0 && w.cnt < n))
                do_request(rq, rg, [&] { return p.last(c); });
            w = oracle(n, OP_SUB, (i128)(unsigned __int128)c, 0, true, ULIMIT);
            if (begin_request(rq, en, pn, inst, n, layout, "subspan(o)", "o=" + su(c), w, w.cnt > 0 && w.cnt < n))
                do_request(rq, rg, [&] { return p.subspan(c); });
        }
        for (size_t o : A)
            for (size_t c : A)
            {
                Want w = oracle(n, OP_SUB, (i128)(unsigned __int128)o, (i128)(unsigned __int128)c, c == size_t(xtl::dynamic_extent), ULIMIT);
                if (begin_request(rq, en, pn, inst, n, layout, "subspan(o,c)", "o=" + su(o) + ",c=" + su(c), w, w.cnt > 0 && w.cnt < n))
                    do_request(rq, rg, [&] { return p.subspan(o, c); });
            }
    }

    static void conversions(const P& p, Region<V>& rg, size_t n, int layout, const std::string& en, const std::string& pn, const std::string& inst)
    {
        Req rq;
        if (begin_request(rq, en, pn, inst, n, layout, "copy ctor", "", whole(n), n > 0)) do_request(rq, rg, [&] { return P(p); });
        if (begin_request(rq, en, pn, inst, n, layout, "copy assignment", "", whole(n), n > 0))
            do_request(rq, rg, [&] { P q(p); P r(p); q = r; return q; });
        if (begin_request(rq, en, pn, inst, n, layout, "convert to span<const T,same extent>", "", whole(n), n > 0))
            do_request(rq, rg, [&] { return xtl::span<const V, PE>(p); });
        if (begin_request(rq, en, pn, inst, n, layout, "convert to span<T,dyn>", "", whole(n), n > 0)) do_request(rq, rg, [&] { return D(p); });
        if (begin_request(rq, en, pn, inst, n, layout, "convert to span<const T,dyn>", "", whole(n), n > 0))
            do_request(rq, rg, [&] { return xtl::span<const V, DYN>(p); });
        if (begin_request(rq, en, pn, inst, n, layout, "make_span(span)", "", whole(n), n > 0)) do_request(rq, rg, [&] { return tcb::make_span(p); });
    }

    // vector<V> of every size as constructor argument / argument of the non-member operations
    template <class Vec>
    static void vector_ops(const std::string& en, const std::string& inst, const char* what, std::true_type /*usable*/)
    {
        typedef typename std::remove_const<Vec>::type MV;
        const std::string pn = pname(PE);
        const size_t lo = 0, hi = PE < 0 ? size_t(g_nmax) : size_t(PE) + 2;
        for (size_t n = lo; n <= hi; ++n)
        {
            MV vec(n);
            Region<V> rg(vec.data(), n);
            Vec& cv = vec;
            Req rq;
            if (begin_request(rq, en, pn, inst, n, 2, std::string("ctor(") + what + ")", "size=" + su(n), ctor_want(n), n > 0))
                do_request(rq, rg, [&] { return P(cv); });
            if (PE >= 0) continue;
            if (begin_request(rq, en, pn, inst, n, 2, std::string("make_span(") + what + ")", "size=" + su(n), whole(n), n > 0))
                do_request(rq, rg, [&] { return tcb::make_span(cv); });
            // non-member first/last/subspan take std::ptrdiff_t arguments
            const std::string ninst = "nonmember(container)";
            const std::vector<size_t> A = alphabet(n);
            for (size_t c : A)
            {
                std::ptrdiff_t sc = std::ptrdiff_t(c);
                Want w = oracle(n, OP_FIRST, (i128)(unsigned __int128)c, 0, false, ULIMIT);
                if (begin_request(rq, en, what, ninst, n, 2, "first(t,c)", "c=" + s128(sc), w, w.cnt > 0 && w.cnt < n)) do_request(rq, rg, [&] { return tcb::first(cv, sc); });
                w = oracle(n, OP_LAST, (i128)(unsigned __int128)c, 0, false, ULIMIT);
                if (begin_request(rq, en, what, ninst, n, 2, "last(t,c)", "c=" + s128(sc), w, w.cnt > 0 && w.cnt < n)) do_request(rq, rg, [&] { return tcb::last(cv, sc); });
                w = oracle(n, OP_SUB, (i128)(unsigned __int128)c, 0, true, ULIMIT);
                if (begin_request(rq, en, what, ninst, n, 2, "subspan(t,o)", "o=" + s128(sc), w, w.cnt > 0 && w.cnt < n)) do_request(rq, rg, [&] { return tcb::subspan(cv, sc); });
            }
            for (size_t o : A)
                for (size_t c : A)
                {
                    std::ptrdiff_t so = std::ptrdiff_t(o), sc = std::ptrdiff_t(c);
                    Want w = oracle(n, OP_SUB, (i128)(unsigned __int128)o, (i128)(unsigned __int128)c, sc == xtl::dynamic_extent, ULIMIT);
                    if (begin_request(rq, en, what, ninst, n, 2, "subspan(t,o,c)", "o=" + s128(so) + ",c=" + s128(sc), w, w.cnt > 0 && w.cnt < n))
                        do_request(rq, rg, [&] { return tcb::subspan(cv, so, sc); });
                }
        }
    }
    template <class Vec>
    static void vector_ops(const std::string&, const std::string&, const char*, std::false_type) {}

    // C array / std::array of exactly PE elements
    static void array_ops(const std::string& en, const std::string& inst, std::true_type /*PE >= 1*/)
    {
        const std::string pn = pname(PE);
        const size_t n = size_t(PE);
        Req rq;
        {
            V storage[PE > 0 ? PE : 1];
            E(&carr)[PE > 0 ? PE : 1] = storage;
            Region<V> rg(storage, n);
            if (begin_request(rq, en, pn, inst, n, 2, "ctor(T(&)[N])", "N=" + su(n), whole(n), true)) do_request(rq, rg, [&] { return P(carr); });
            if (begin_request(rq, en, pname(DYN), kind_name(true), n, 2, "ctor(T(&)[N])", "N=" + su(n), whole(n), true)) do_request(rq, rg, [&] { return D(carr); });
            if (begin_request(rq, en, pn, inst, n, 2, "make_span(T(&)[N])", "N=" + su(n), whole(n), true)) do_request(rq, rg, [&] { return tcb::make_span(carr); });
        }
        array_std(en, inst);
    }
    static void array_ops(const std::string& en, const std::string& inst, std::false_type) { array_std(en, inst); }

    static void array_std(const std::string& en, const std::string& inst)
    {
        const std::string pn = pname(PE);
        const size_t n = size_t(PE);
        Req rq;
        std::array<V, size_t(PE > 0 ? PE : 0)> arr;
        Region<V> rg(arr.data(), n);
        typedef typename std::conditional<std::is_const<E>::value, const std::array<V, size_t(PE > 0 ? PE : 0)>, std::array<V, size_t(PE > 0 ? PE : 0)>>::type A;
        A& ar = arr;
        const char* what = std::is_const<E>::value ? "const std::array&" : "std::array&";
        if (begin_request(rq, en, pn, inst, n, 2, std::string("ctor(") + what + ")", "N=" + su(n), whole(n), n > 0)) do_request(rq, rg, [&] { return P(ar); });
        if (begin_request(rq, en, pname(DYN), kind_name(true), n, 2, std::string("ctor(") + what + ")", "N=" + su(n), whole(n), n > 0)) do_request(rq, rg, [&] { return D(ar); });
        if (begin_request(rq, en, pn, inst, n, 2, std::string("make_span(") + what + ")", "N=" + su(n), whole(n), n > 0)) do_request(rq, rg, [&] { return tcb::make_span(ar); });
    }

    static void default_ctor(const std::string& en, const std::string& pn, const std::string& inst, std::true_type)
    {
        Req rq;
        V dummy[1];
        Region<V> rg(dummy, 0);   // never touched: the expected view is {nullptr, 0}
        if (!begin_request(rq, en, pn, inst, 0, 2, "default ctor", "", whole(0), false)) return;
        P p;
        if (p.data() != nullptr || p.size() != 0 || !p.empty() || p.size_bytes() != 0 || p.begin() != p.end())
            viol(rq, inst, "default ctor", "not_empty", "default-constructed span is not {nullptr, 0}");
        // sub-views of the null span: only the empty ones are valid
        Want w = oracle(0, OP_SUB, 0, 0, false, ULIMIT);
        if (begin_request(rq, en, pn, inst, 0, 2, "subspan(o,c) of default-constructed", "o=0,c=0", w, false))
        {
            D d = p.subspan(0, 0);
            D f = p.first(0);
            D l = p.last(0);
            if (d.data() != nullptr || d.size() != 0 || f.data() != nullptr || f.size() != 0 || l.data() != nullptr || l.size() != 0)
                viol(rq, inst, "subspan(o,c) of default-constructed", "not_empty", "empty sub-view of the null span is not {nullptr, 0}");
        }
#if C16_CHECKED
        w = oracle(0, OP_SUB, 1, 0, true, ULIMIT);
        if (begin_request(rq, en, pn, inst, 0, 2, "subspan(o) of default-constructed", "o=1", w, false))
        {
            Thrown t = guarded([&] { D d = p.subspan(1); (void)d; });
            if (t == T_NONE) viol(rq, inst, "subspan(o)", std::string("accepted_invalid:") + w.cls, "subspan(1) of the null span was not rejected");
        }
#endif
    }
    static void default_ctor(const std::string&, const std::string&, const std::string&, std::false_type) {}

    static void run()
    {
        const std::string en = ename<E>(), pn = pname(PE), inst = kind_name(PE < 0);
        const size_t nlo = PE < 0 ? 0 : size_t(PE), nhi = PE < 0 ? size_t(g_nmax) : size_t(PE);
        for (size_t n = nlo; n <= nhi; ++n)
            for (int layout = 0; layout < 2; ++layout)
            {
                Region<V> rg(n, layout);
                E* base = rg.elems();
                Req rq;
                if (begin_request(rq, en, pn, inst, n, layout, "ctor(ptr,count)", "count=" + su(n), whole(n), n > 0)) do_request(rq, rg, [&] { return P(base, n); });
                if (begin_request(rq, en, pn, inst, n, layout, "ctor(first,last)", "last-first=" + su(n), whole(n), n > 0)) do_request(rq, rg, [&] { return P(base, base + n); });
                // the parent of all sub-view requests (built in a way that cannot be rejected)
                alignas(P) unsigned char buf[sizeof(P)];
                P* pp = nullptr;
                if (guarded([&] { pp = new (buf) P(base, n); }) != T_NONE || pp->data() != base || pp->size() != n) continue;   // reported by the request above
                sub_ops(*pp, rg, n, layout, en, pn, inst);
                conversions(*pp, rg, n, layout, en, pn, inst);
            }
        // static extent: every count around the extent (the designated range is what the parent "is")
        if (PE >= 0)
        {
            std::vector<size_t> counts;
            for (size_t k = 0; k <= size_t(PE) + 2; ++k) counts.push_back(k);
            const size_t big[] = {size_t(1) << 32, (size_t(1) << 32) + size_t(PE), size_t(1) << 63, SIZE_MAX - 1, SIZE_MAX};
            for (size_t b : big)
            {
                bool dup = false;
                for (size_t x : counts) if (x == b) dup = true;
                if (!dup) counts.push_back(b);
            }
            for (size_t have : counts)
            {
                if (have == size_t(PE)) continue;
                const size_t mem = have <= size_t(PE) + 2 ? (have > size_t(PE) ? have : size_t(PE)) : size_t(PE);
                Region<V> rg(mem, 0);
                E* base = rg.elems();
                Req rq;
                if (begin_request(rq, en, pn, inst, mem, 0, "ctor(ptr,count)", "count=" + su(have), ctor_want(have), true)) do_request(rq, rg, [&] { return P(base, have); });
                if (have <= mem && begin_request(rq, en, pn, inst, mem, 0, "ctor(first,last)", "last-first=" + su(have), ctor_want(have), true))
                    do_request(rq, rg, [&] { return P(base, base + have); });
            }
        }
        vector_ops<std::vector<V>>(en, inst, "vector&", std::integral_constant<bool, !std::is_const<E>::value>());
        vector_ops<const std::vector<V>>(en, inst, "const vector&", std::integral_constant<bool, std::is_const<E>::value>());
        if (PE >= 0) array_ops(en, inst, std::integral_constant<bool, (PE >= 1)>());
        default_ctor(en, pn, inst, std::integral_constant<bool, (PE <= 0)>());
    }
};

// ------------------------------------------------------------------------------------------------ template arguments
template <std::ptrdiff_t C> struct s_first
{
    static std::string name() { return "first<C>"; }
    static std::string args() { return "C=" + s128(C); }
    static Want want(size_t n) { return oracle(n, OP_FIRST, C, 0, false, SLIMIT); }
    template <class P> static auto call(const P& p) -> decltype(p.template first<C>()) { return p.template first<C>(); }
    template <class T> static auto nm(T& t) -> decltype(tcb::first<C>(t)) { return tcb::first<C>(t); }
};
template <std::ptrdiff_t C> struct s_last
{
    static std::string name() { return "last<C>"; }
    static std::string args() { return "C=" + s128(C); }
    static Want want(size_t n) { return oracle(n, OP_LAST, C, 0, false, SLIMIT); }
    template <class P> static auto call(const P& p) -> decltype(p.template last<C>()) { return p.template last<C>(); }
    template <class T> static auto nm(T& t) -> decltype(tcb::last<C>(t)) { return tcb::last<C>(t); }
};
template <std::ptrdiff_t O> struct s_sub1
{
    static std::string name() { return "subspan<O>"; }
    static std::string args() { return "O=" + s128(O); }
    static Want want(size_t n) { return oracle(n, OP_SUB, O, 0, true, SLIMIT); }
    template <class P> static auto call(const P& p) -> decltype(p.template subspan<O>()) { return p.template subspan<O>(); }
    template <class T> static auto nm(T& t) -> decltype(tcb::subspan<O>(t)) { return tcb::subspan<O>(t); }
};
template <std::ptrdiff_t O, std::ptrdiff_t C> struct s_sub2
{
    static std::string name() { return "subspan<O,C>"; }
    static std::string args() { return "O=" + s128(O) + ",C=" + s128(C); }
    static Want want(size_t n) { return oracle(n, OP_SUB, O, C, C == xtl::dynamic_extent, SLIMIT); }
    template <class P> static auto call(const P& p) -> decltype(p.template subspan<O, C>()) { return p.template subspan<O, C>(); }
    template <class T> static auto nm(T& t) -> decltype(tcb::subspan<O, C>(t)) { return tcb::subspan<O, C>(t); }
};

template <class E, std::ptrdiff_t PE, class Op>
static void run_static()
{
    typedef typename std::remove_const<E>::type V;
    typedef xtl::span<E, PE> P;
    const std::string en = ename<E>(), pn = pname(PE), inst = kind_name(PE < 0);
    const size_t nlo = PE < 0 ? 0 : size_t(PE), nhi = PE < 0 ? size_t(g_nmax) : size_t(PE);
    for (size_t n = nlo; n <= nhi; ++n)
        for (int layout = 0; layout < 2; ++layout)
        {
            Req rq;
            Want w = Op::want(n);
            if (!begin_request(rq, en, pn, inst, n, layout, Op::name(), Op::args(), w, w.cnt > 0 && w.cnt < n)) continue;
            Region<V> rg(n, layout);
            E* base = rg.elems();
            P p(base, n);
            do_request(rq, rg, [&] { return Op::call(p); });
        }
}

// non-member template forms on a vector (PE == dyn, every size) or a std::array<V,PE>
template <class E, std::ptrdiff_t PE, class Op>
struct run_nm
{
    typedef typename std::remove_const<E>::type V;
    static void go(std::true_type /*dynamic: vector*/)
    {
        typedef typename std::conditional<std::is_const<E>::value, const std::vector<V>, std::vector<V>>::type Vec;
        const std::string en = ename<E>();
        for (size_t n = 0; n <= size_t(g_nmax); ++n)
        {
            Req rq;
            Want w = Op::want(n);
            if (!begin_request(rq, en, std::is_const<E>::value ? "const vector&" : "vector&", "nonmember(container)", n, 2, Op::name() + "(t)", Op::args(), w, w.cnt > 0 && w.cnt < n)) continue;
            std::vector<V> vec(n);
            Region<V> rg(vec.data(), n);
            Vec& cv = vec;
            do_request(rq, rg, [&] { return Op::nm(cv); });
        }
    }
    static void go(std::false_type /*static: std::array*/)
    {
        typedef std::array<V, size_t(PE > 0 ? PE : 0)> Arr;
        typedef typename std::conditional<std::is_const<E>::value, const Arr, Arr>::type A;
        const std::string en = ename<E>();
        const size_t n = size_t(PE);
        Req rq;
        Want w = Op::want(n);
        if (!begin_request(rq, en, std::string(std::is_const<E>::value ? "const " : "") + "std::array<" + std::to_string(PE) + ">&", "nonmember(std::array)", n, 2, Op::name() + "(t)", Op::args(), w, w.cnt > 0 && w.cnt < n)) return;
        Arr arr;
        Region<V> rg(arr.data(), n);
        A& ar = arr;
        do_request(rq, rg, [&] { return Op::nm(ar); });
    }
    static void run() { go(std::integral_constant<bool, (PE < 0)>()); }
};

// ------------------------------------------------------------------------------------------------ generated matrix
#define DYNOPS(E, PE) dyn_ops<E, PE>::run();
#define SFIRST(E, PE, C) run_static<E, PE, s_first<C>>();
#define SLAST(E, PE, C) run_static<E, PE, s_last<C>>();
#define SSUB1(E, PE, O) run_static<E, PE, s_sub1<O>>();
#define SSUB2(E, PE, O, C) run_static<E, PE, s_sub2<O, C>>();
#define NFIRST(E, PE, C) run_nm<E, PE, s_first<C>>::run();
#define NLAST(E, PE, C) run_nm<E, PE, s_last<C>>::run();
#define NSUB1(E, PE, O) run_nm<E, PE, s_sub1<O>>::run();
#define NSUB2(E, PE, O, C) run_nm<E, PE, s_sub2<O, C>>::run();

static void run_generated()
{
#include "c16_cases.inc"
}

int main(int argc, char** argv)
{
    std::string keys_out;
    for (int i = 1; i < argc; ++i)
    {
        std::string a = argv[i];
        if (a == "--nmax" && i + 1 < argc) g_nmax = std::atoi(argv[++i]);
        else if (a == "--only" && i + 1 < argc) { g_have_only = true; g_only = argv[++i]; }
        else if (a == "--keys-out" && i + 1 < argc) keys_out = argv[++i];
        else { std::fprintf(stderr, "unknown argument %s\n", a.c_str()); return 2; }
    }
    if (g_nmax < 0 || g_nmax > 40) { std::fprintf(stderr, "--nmax out of range\n"); return 2; }
    g_shared = static_cast<Shared*>(mmap(nullptr, sizeof(Shared), PROT_READ | PROT_WRITE, MAP_SHARED | MAP_ANONYMOUS, -1, 0));
    if (g_shared == MAP_FAILED) { std::perror("mmap"); return 2; }
    std::memset(g_shared, 0, sizeof(Shared));
    share(g_shared->inst, sizeof g_shared->inst, "harness");
    share(g_shared->op, sizeof g_shared->op, "startup");
    std::fflush(stdout);
    pid_t pid = fork();
    if (pid < 0) { std::perror("fork"); return 2; }
    if (pid == 0)
    {
        // hard crashes are attributed to the request that was executing
        vf::install_crash_handler();
        vf::crash_hook() = [](const char* what) {
            vf::violation("C16/" + g_cur_inst + "/" + g_cur_op + "/" + MODE + ":fatal:" + what, "[" + std::string(MODE) + " build] " + what + " while executing request " + g_cur,
                          {"--nmax", std::to_string(g_nmax), "--only", g_cur});
        };
        run_generated();
        vf::stat("evaluations", g_eval);
        vf::stat("requests", g_requests);
        vf::stat(std::string("requests_") + MODE, g_requests);
        vf::stat("requests_valid", g_valid);
        vf::stat("requests_invalid_must_be_rejected", g_invalid);
        vf::stat("invalid_requests_not_executed_in_unchecked_build", g_skipped);
        vf::stat("views_probed", g_views);
        vf::stat("probes", g_probes);
        vf::stat("write_probes", g_writes);
        vf::stat("probes_isolated_in_a_forked_process", g_isolated);
        if (!keys_out.empty())
        {
            FILE* f = std::fopen(keys_out.c_str(), "wb");
            if (!f) { std::fprintf(stderr, "cannot write %s\n", keys_out.c_str()); _exit(2); }
            for (uint64_t h : g_keys_nt) { unsigned char tag = 1; std::fwrite(&tag, 1, 1, f); std::fwrite(&h, sizeof h, 1, f); }
            for (uint64_t h : g_keys_req) { unsigned char tag = 0; std::fwrite(&tag, 1, 1, f); std::fwrite(&h, sizeof h, 1, f); }
            std::fclose(f);
        }
        if (g_have_only && g_requests == 0) vf::note("--only key matched no request of this binary: " + g_only);
        vf::done();
        g_shared->done = 1;
        _exit(0);
    }
    int st = 0;
    if (waitpid(pid, &st, 0) != pid) { std::perror("waitpid"); return 2; }
    if (g_shared->done && WIFEXITED(st) && WEXITSTATUS(st) == 0) return 0;
    if (WIFEXITED(st) && WEXITSTATUS(st) == 3) return 3;   // the child's signal handler has reported the crash
    if (WIFEXITED(st) && WEXITSTATUS(st) == 2) return 2;   // harness-internal failure
    // silent death: a fatal sanitizer report (UBSan in no-recover mode prints to stderr and exits) or a kill
    const std::string how = WIFSIGNALED(st) ? "killed by signal " + std::to_string(WTERMSIG(st)) : "exit status " + std::to_string(WEXITSTATUS(st));
    vf::violation(std::string("C16/") + g_shared->inst + "/" + g_shared->op + "/" + MODE + ":fatal:undefined_behaviour_report",
                  "[" + std::string(MODE) + " build] the process ended abnormally (" + how + "; a fatal sanitizer report such as 'reference binding to null pointer' is on stderr) while executing request " + g_shared->key,
                  {"--nmax", std::to_string(g_nmax), "--only", g_shared->key});
    std::printf("@@{\"t\":\"crashed\",\"v\":\"abnormal end of the enumerating process (%s)\"}\n", how.c_str());
    std::fflush(stdout);
    return 3;
}
