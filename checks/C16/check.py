"""C16 span views: exhaustive enumeration of constructor and first/last/subspan requests on small parents.

This file holds the instantiation manifest (which span<E,N> parents, which first<C>/last<C>/subspan<O,C> template
arguments exist and which of them are well-formed), generates it as c16_cases.inc, builds harness.cpp once per
(contract mode, element type[, compiler/standard]) against the headers of REPO as they are now, runs every binary and
merges what they measured.  The oracle lives in harness.cpp (128-bit integer arithmetic on sizes, raw addresses of the
parent block).
"""
import hashlib
import json
import os
import re
import struct
import threading
import time

import vlib

LEVEL = "exploration"
HERE = os.path.dirname(os.path.abspath(__file__))
SRC = os.path.join(HERE, "harness.cpp")
GENROOT = os.path.join(vlib.BUILD, "C16")

BUDGET_S = 1200   # secondary builds of the thorough tier are only started during the first 20 minutes

MODES = {"checked": "TCB_SPAN_THROW_ON_CONTRACT_VIOLATION", "nocheck": "TCB_SPAN_NO_CONTRACT_CHECKING"}

# element types: index = C16_PART of the binary that instantiates them
ELEMS = ["int", "const int", "unsigned char", "double", "rec12", "const rec12"]


def bounds(tier):
    if tier == "quick":
        return {
            "nmax": 6,                                   # dynamic parents: every size 0..nmax
            "elems": [0, 1, 2, 3, 4],                    # element types of the run-time-argument part
            "static_parents": list(range(0, 7)),         # span<E,N> parents of the run-time-argument part
            "selems": [0, 1, 4],                         # element types of the template-argument matrix
            "sparents": [-1, 0, 1, 2, 3, 4],             # parents of the template-argument matrix (-1 = dynamic, sizes 0..nmax)
            "sargs": list(range(-1, 6)),                 # O, C in -1..5
            "nmelems": [0, 1],                           # element types of the non-member template forms
            "builds": [("g++", "c++14", "-O0", "full")],
        }
    return {
        "nmax": 16,
        "elems": [0, 1, 2, 3, 4, 5],
        "static_parents": list(range(0, 11)),
        "selems": [0, 1, 2, 3, 4, 5],
        "sparents": [-1, 0, 1, 2, 3, 4, 5, 6],
        "sargs": list(range(-1, 9)),
        "nmelems": [0, 1, 2, 3, 4, 5],
        # the first build is the primary one (always run); the others re-execute the space ("full") or the quick tier's
        # sub-space ("small": optimised builds of the full matrix take > 5 CPU-minutes per binary) with another front end /
        # standard / optimiser and are dropped (with a cap) when time runs out
        "builds": [("g++", "c++14", "-O0", "full"), ("clang++", "c++14", "-O0", "full"), ("g++", "c++20", "-O2", "small"), ("clang++", "c++20", "-O1", "small")],
    }


# ---- the public API of span, enumerated from the header ---------------------------------------------------------------
# Every public member of class span and every non-member function of its namespace is listed here with what the check does
# with it.  run() parses the header of the tree under test (public_api) and compares: a public name that is not in these
# tables is reported as a note, counted in unclassified_public_api and caps the run (the enumeration of entry points is then
# not known to be complete); an accessor of the tables that has disappeared is a note.
MEMBERS = {
    "span": "constructors: every form is a request (ctor(...), copy, conversions, default)",
    "~span": "trivial", "operator=": "request 'copy assignment'",
    "first": "sub-view request", "last": "sub-view request", "subspan": "sub-view request",
    "size": "observer, compared on every view", "size_bytes": "observer, compared on every view", "empty": "observer, compared on every view",
    "operator[]": "element access: in range by address, out of range rejected (checked)",
    "operator()": "element access: in range by address, out of range rejected (checked)",
    "at": "element access: in range by address, out of range throws (both builds)",
    "front": "element access: by address; rejected on empty views (checked)", "back": "element access: by address; rejected on empty views (checked)",
    "data": "element access: data()[i] by address, data()+size() == end()",
    "begin": "iterator: begin()[i], *(begin()+i), forward walk, writes", "end": "iterator: delimits the range",
    "cbegin": "iterator: cbegin()[i]", "cend": "iterator: delimits the range",
    "rbegin": "iterator: rbegin()[size-1-i], reverse walk, writes", "rend": "iterator: delimits the range",
    "crbegin": "iterator: crbegin()[size-1-i], const reverse walk", "crend": "iterator: delimits the range",
}
NONMEMBERS = {
    "get": "element access: get<N>(view) for N in {-1, 0..nmax+2, PTRDIFF_MAX}: in range by address, out of range rejected (checked)",
    "make_span": "constructor requests make_span(...)", "first": "non-member sub-view request", "last": "non-member sub-view request", "subspan": "non-member sub-view request",
    "span": "deduction guides (C++17): not judged",
    "contract_violation": "the rejection mechanism itself",
    "as_bytes": "not in the statement: not judged", "as_writable_bytes": "not in the statement: not judged",
    "operator==": "not in the statement: not judged", "operator!=": "not in the statement: not judged", "operator<": "not in the statement: not judged",
    "operator<=": "not in the statement: not judged", "operator>": "not in the statement: not judged", "operator>=": "not in the statement: not judged",
}
ACCESSORS = ["operator[]", "operator()", "at", "front", "back", "data", "begin", "end", "cbegin", "cend", "rbegin", "rend", "crbegin", "crend"]

_NOT_NAMES = {"decltype", "static_cast", "sizeof", "noexcept", "static_assert", "alignas", "reinterpret_cast", "const_cast", "if", "while", "for", "return", "defined", "declval"}
_NAME = re.compile(r"(operator\s*(?:\(\s*\)|\[\s*\]|[^\s\w(]+)|~?[A-Za-z_]\w*)\s*\((?!\s*[&*])")


def public_api(text):
    """(names of the members of class span declared in a public section, names of the non-member functions of the span
    namespace outside detail) from the header text: comments, strings and preprocessor lines removed (both branches of every
    #if are kept), function bodies skipped, one chunk per declaration, the first identifier followed by '(' is the name"""
    text = re.sub(r"/\*.*?\*/", " ", text, flags=re.S)
    text = re.sub(r"//[^\n]*", " ", text)
    text = re.sub(r'"(?:\\.|[^"\\])*"', '""', text)
    text = re.sub(r"(?m)^[ \t]*#(?:[^\n\\]|\\\n|\\.)*", " ", text)
    members, free = [], []
    stack = []          # kinds of the open braces: ns:<name>, class-span
    state = {"access": "private"}

    def kind_now():
        return stack[-1] if stack else "top"

    def where_now():
        if kind_now() == "class-span":
            return "class"
        if stack and all(k.startswith("ns:") for k in stack) and "ns:detail" not in stack and "ns:std" not in stack:
            return "ns"
        return None

    def flush(decl, where):
        names = [re.sub(r"\s+", "", m) for m in _NAME.findall(" ".join(decl.split()))]
        names = [x for x in names if x not in _NOT_NAMES and not re.fullmatch(r"[A-Z][A-Z0-9_]*", x)]
        if not names:
            return
        if where == "class" and state["access"] == "public":
            members.append(names[0])
        elif where == "ns":
            free.append(names[0])
    chunk = ""
    i, n = 0, len(text)
    while i < n:
        c = text[i]
        if c == "{":
            head = " ".join(chunk.split())
            if re.match(r"(inline\s+)?namespace\b", head):
                nm = head.split()[-1] if len(head.split()) > 1 else ""
                stack.append("ns:" + ("tcb" if nm == "TCB_SPAN_NAMESPACE_NAME" else nm))
            elif re.search(r"\bclass span$", head) and kind_now().startswith("ns:"):
                stack.append("class-span")
                state["access"] = "private"
            else:
                # a body (function, nested type, braced initialiser): the chunk before it is the declaration
                depth, j = 1, i + 1
                while j < n and depth:
                    depth += text[j] == "{"
                    depth -= text[j] == "}"
                    j += 1
                w = where_now()
                if w and not re.match(r"(template\s*<.*>\s*)?(struct|class|union|enum)\b", head):
                    flush(head, w)
                i = j
                chunk = ""
                continue
            chunk = ""
        elif c == "}":
            if stack:
                stack.pop()
            chunk = ""
        elif c == ";":
            w = where_now()
            if w:
                flush(chunk, w)
            chunk = ""
        elif c == ":" and kind_now() == "class-span" and re.fullmatch(r"\s*(public|private|protected)\s*", chunk):
            state["access"] = chunk.strip()
            chunk = ""
        else:
            chunk += c
        i += 1
    return members, free


def classify_api(ctx):
    """compares the public API found in the header under test with MEMBERS / NONMEMBERS"""
    path = os.path.join(vlib.INCLUDE, "xtl", "xspan_impl.hpp")
    members, free = public_api(open(path).read())
    if "operator[]" not in members or "subspan" not in members:
        raise vlib.HarnessError("cannot find the public members of class span in %s (found %s)" % (path, sorted(set(members))))
    unknown = sorted(set(m for m in members if m not in MEMBERS)) + sorted(set("non-member " + f for f in free if f not in NONMEMBERS))
    gone = [a for a in ACCESSORS if a not in members] + (["non-member get"] if "get" not in free else [])
    ctx.stats["public_members_of_span_in_header"] = len(set(members))
    ctx.stats["nonmember_functions_in_header"] = len(set(free))
    ctx.stats["unclassified_public_api"] = len(unknown)
    ctx.note("public members of span found in the header: %s; non-member functions: %s" % (sorted(set(members)), sorted(set(free))))
    if unknown:
        ctx.note("PUBLIC API NOT COVERED BY THE CHECK (not in MEMBERS/NONMEMBERS of checks/C16/check.py; if it is an element-access or sub-view entry point it is NOT enumerated): %s" % unknown)
        ctx.cap("the header declares public entry points the check does not know: %s" % unknown)
    if gone:
        ctx.note("accessors the check enumerates are no longer declared in the header: %s" % gone)


# ---- the build-configuration dimension ----------------------------------------------------------------------------------
CFGSRC = os.path.join(HERE, "config.cpp")
CFG_MODES = [("none", None), ("THROW", "TCB_SPAN_THROW_ON_CONTRACT_VIOLATION"), ("TERMINATE", "TCB_SPAN_TERMINATE_ON_CONTRACT_VIOLATION"), ("NO_CHECKING", "TCB_SPAN_NO_CONTRACT_CHECKING")]
CFG_ENTRIES = [("xspan.hpp", 0), ("xspan_impl.hpp", 1)]   # both are installed headers (CMakeLists.txt XTL_HEADERS)


def expected_checking(ndebug, mode, std):
    """What a combination MEANS -- the reference semantics, restating the default-selection block of the pinned header
    (xspan_impl.hpp:60-69 at f387942) and NOT read from the tree under test: the defaults are only established when none of the three
    mode macros is defined, so an explicit request always wins, also over NDEBUG; without a request NDEBUG (or a pre-C++14 compiler)
    means no checking and everything else means terminating checks.  0 = no checking, 1 = throwing, 2 = terminating."""
    if mode == "THROW":
        return 1
    if mode == "TERMINATE":
        return 2
    if mode == "NO_CHECKING":
        return 0
    return 0 if (ndebug or std in ("c++11", "c++0x")) else 2


def config_jobs(tier):
    """[(name, cc, std, ndebug, mode, entry)]"""
    toolchains = [("g++", "c++14")] if tier == "quick" else [("g++", "c++14"), ("clang++", "c++14"), ("g++", "c++17"), ("g++", "c++20"), ("clang++", "c++20")]
    out = []
    for cc, std in toolchains:
        for ndebug in (False, True):
            for mode, _ in CFG_MODES:
                for entry, _ in CFG_ENTRIES:
                    out.append(("%s,%s,%s" % ("NDEBUG" if ndebug else "no NDEBUG", mode, entry), cc, std, ndebug, mode, entry))
    return out


def build_config(job):
    name, cc, std, ndebug, mode, entry = job
    defines = ["C16_EXPECT=%d" % expected_checking(ndebug, mode, std), "C16_ENTRY_IMPL=%d" % dict(CFG_ENTRIES)[entry], 'C16_CONFIG_NAME="%s"' % name]
    if ndebug:
        defines.append("NDEBUG")
    if dict(CFG_MODES)[mode]:
        defines.append(dict(CFG_MODES)[mode])
    return vlib.compile_cxx(CFGSRC, "c16cfg", std=std, opt="-O0", san="none", compiler=cc, defines=defines)


def config_tag(job):
    return "c16cfg-%s-%s-%s" % (re.sub(r"[^A-Za-z0-9_.]+", "_", job[0]), job[1].replace("+", "x"), job[2].replace("+", "x"))


PINNED_DEFAULT_BLOCK = "efe5a37e55d601aa"


def default_block_hash():
    txt = open(os.path.join(vlib.INCLUDE, "xtl", "xspan_impl.hpp")).read()
    m = re.search(r"// Establish default contract checking behavior(.*?)#if defined\(TCB_SPAN_THROW_ON_CONTRACT_VIOLATION\)", txt, flags=re.S)
    return hashlib.sha256(" ".join(m.group(1).split()).encode()).hexdigest()[:16] if m else None


# ---- the manifest of template-argument instantiations ---------------------------------------------------------------
def result_extent(pe, op, o, c):
    """extent of the returned span type as the header declares it today (only used to predict well-formedness:
    span<T,X> is ill-formed for X < -1)"""
    if op in ("first", "last"):
        return c
    if op == "sub2" and c != -1:
        return c
    return -1 if pe == -1 else pe - o


def expected_well_formed(cc, pe, op, o, c):
    """The committed manifest of ill-formed instantiations (capability gaps of the pinned tree, not violations):
      * a result extent below -1 hits the static_assert of span (subspan<O>() on span<T,N> with O >= N+2);
      * first<-1>() / last<-1>(): `return {data(), Count}` narrows the constant -1 to index_type (both compilers);
      * first<0>() / last<0>() with g++: after substitution Count is the literal 0, a null pointer constant, and
        `{data(), 0}` is ambiguous between span(pointer, index_type) and span(pointer, pointer); clang++ accepts it."""
    if result_extent(pe, op, o, c) < -1:
        return False
    if op in ("first", "last") and c == -1:
        return False
    if op in ("first", "last") and c == 0 and not cc.startswith("clang"):
        return False
    return True


def static_cases(b, cc):
    """[(op, pe, o, c, expected_well_formed)] -- the full matrix for one element type"""
    out = []
    for pe in b["sparents"]:
        for c in b["sargs"]:
            out.append(("first", pe, None, c))
            out.append(("last", pe, None, c))
        for o in b["sargs"]:
            out.append(("sub1", pe, o, -1))
            for c in b["sargs"]:
                out.append(("sub2", pe, o, c))
    return [(op, pe, o, c, expected_well_formed(cc, pe, op, o, c)) for (op, pe, o, c) in out]


# template arguments near PTRDIFF_MAX (dynamic parents only: on static parents the result extent would be negative);
# same shape as the matrix entries, with symbolic arguments
EXTREME = [("first", -1, None, "PMAX"), ("last", -1, None, "PMAX"), ("sub1", -1, "PMAX", -1), ("sub2", -1, 0, "PMAX"), ("sub2", -1, 1, "PMAX"),
           ("sub2", -1, 2, "PMAX - 1"), ("sub2", -1, "PMAX", 1), ("sub2", -1, "PMAX", "PMAX"), ("sub2", -1, "PMAX", -1), ("first", -1, None, "PMAX - 1")]


def line(prefix, op, el, pe, o, c):
    if op == "first":
        return "%sFIRST(%s, %d, %s)" % (prefix, el, pe, c)
    if op == "last":
        return "%sLAST(%s, %d, %s)" % (prefix, el, pe, c)
    if op == "sub1":
        return "%sSUB1(%s, %d, %s)" % (prefix, el, pe, o)
    return "%sSUB2(%s, %d, %s, %s)" % (prefix, el, pe, o, c)


def entries_for_part(b, cc, part, newly_well_formed):
    """the template-argument instantiations of one element type, in generation order: [(prefix, op, pe, o, c)] with
    prefix S = member form, N = non-member form (on a vector for pe == -1, on std::array<V,3> for pe == 3)"""
    out = []
    if part not in b["selems"]:
        return out
    extra = set((x[0], x[1], x[2], x[3]) for x in newly_well_formed)
    for (op, pe, o, c, wf) in static_cases(b, cc):
        if wf or (op, pe, o, c) in extra:
            out.append(("S", op, pe, o, c))
            if pe in (-1, 3) and part in b["nmelems"]:
                out.append(("N", op, pe, o, c))
    for (op, pe, o, c) in EXTREME:
        out.append(("S", op, pe, o, c))
    return out


def has_valid_request(entry, nmax):
    """reference semantics on the generator side: is the request valid for at least one parent size this instantiation
    is executed on?  (an instantiation that only ever denotes invalid requests may legitimately be ill-formed: a
    compile error is a rejection)"""
    _, op, pe, o, c = entry
    if isinstance(o, str) or isinstance(c, str):
        return False   # arguments at PTRDIFF_MAX exceed every parent
    for n in (range(0, nmax + 1) if pe < 0 else [pe]):
        if op in ("first", "last"):
            if 0 <= c <= n:
                return True
        elif op == "sub1" or c == -1:
            if 0 <= o <= n:
                return True
        elif 0 <= o <= n and c >= 0 and o + c <= n:
            return True
    return False


OPNAME = {"first": "first<C>", "last": "last<C>", "sub1": "subspan<O>", "sub2": "subspan<O,C>"}


def entry_text(entry, el):
    """the instantiation as a user would write it"""
    prefix, op, pe, o, c = entry
    targs = {"first": "%s" % c, "last": "%s" % c, "sub1": "%s" % o, "sub2": "%s, %s" % (o, c)}[op]
    fn = "subspan" if op.startswith("sub") else op
    if prefix == "S":
        return "xtl::span<%s, %s>::%s<%s>()" % (el, "dynamic_extent" if pe < 0 else pe, fn, targs)
    v = el.replace("const ", "")
    cont = ("std::vector<%s>" % v) if pe < 0 else ("std::array<%s, %d>" % (v, pe))
    return "tcb::%s<%s>(%s%s&)" % (fn, targs, "const " if el.startswith("const ") else "", cont)


def entry_sig(entry):
    prefix, op, pe, o, c = entry
    if prefix == "S":
        return "C16/%s/%s/valid-request-ill-formed" % ("span<T,dyn>" if pe < 0 else "span<T,N>", OPNAME[op])
    return "C16/%s/%s(t)/valid-request-ill-formed" % ("nonmember(container)" if pe < 0 else "nonmember(std::array)", OPNAME[op])


def probe_fn(entry, el, k):
    """one function per instantiation, on one line (compiler diagnostics name the line)"""
    prefix, op, pe, o, c = entry
    targs = {"first": "%s" % c, "last": "%s" % c, "sub1": "%s" % o, "sub2": "%s, %s" % (o, c)}[op]
    fn = "subspan" if op.startswith("sub") else op
    if prefix == "S":
        return "void f%d(xtl::span<%s, %d> s) { auto v = s.template %s<%s>(); (void)v; }" % (k, el, pe, fn, targs)
    v = el.replace("const ", "")
    cont = ("std::vector<%s>" % v) if pe < 0 else ("std::array<%s, %d>" % (v, pe))
    return "void f%d(%s%s& t) { auto v = tcb::%s<%s>(t); (void)v; }" % (k, "const " if el.startswith("const ") else "", cont, fn, targs)


PROBE_HEAD = ["// generated by checks/C16/check.py: one template-argument instantiation per line", "#include <xtl/xspan.hpp>", "#include <array>", "#include <limits>",
              "#include <vector>", "#define PMAX (std::numeric_limits<std::ptrdiff_t>::max())", "struct rec12 { int id; int pad[2]; };"]


def write_probe(el, entries):
    txt = "\n".join(PROBE_HEAD + [probe_fn(e, el, k) for k, e in enumerate(entries)]) + "\n"
    os.makedirs(GENROOT, exist_ok=True)
    path = os.path.join(GENROOT, "inst-%s.cpp" % hashlib.sha256(txt.encode()).hexdigest()[:20])
    if not os.path.exists(path):
        tmp = path + ".tmp%d" % os.getpid()
        open(tmp, "w").write(txt)
        os.replace(tmp, path)
    return path


def syntax_ok(cc, std, mode, el, entries):
    path = write_probe(el, entries)
    return vlib.compile_cxx(path, "c16inst", std=std, san="none", opt="-O0", syntax_only=True, expect_fail=True, compiler=cc, defines=[MODES[mode]]) is not None


def compiler_errors(cc, std, mode, path):
    extra = ["-ferror-limit=0", "-fno-caret-diagnostics"] if cc.startswith("clang") else ["-fmax-errors=0", "-fno-diagnostics-show-caret"]
    r = vlib.sh([cc, "-std=" + std, "-I" + vlib.INCLUDE, "-D" + MODES[mode], "-fsyntax-only"] + extra + [path])
    return r.returncode, r.stderr


def first_error_line(cc, std, mode, el, entry):
    path = write_probe(el, [entry])
    rc, err = compiler_errors(cc, std, mode, path)
    for ln in err.splitlines():
        if "error" in ln:
            return ln.replace(vlib.INCLUDE + "/", "").replace(path, "<instantiation>").strip()[:300]
    return "(no error line; rc=%d)" % rc


def find_ill_formed(cc, std, mode, el, entries):
    """which of the instantiations (all expected to be well-formed) do not compile?  Returns None when the failure cannot
    be attributed to instantiations (the header alone does not compile).  One combined -fsyntax-only compile whose
    diagnostics name the lines gives the candidates; every candidate is confirmed on its own; the rest must compile
    together, otherwise it is bisected."""
    if not entries or syntax_ok(cc, std, mode, el, entries):
        return []
    if not syntax_ok(cc, std, mode, el, []):
        return None
    path = write_probe(el, entries)
    _, err = compiler_errors(cc, std, mode, path)
    first = len(PROBE_HEAD) + 1
    cand = sorted(set(int(m) - first for m in re.findall(re.escape(path) + r":(\d+):", err)))
    cand = [k for k in cand if 0 <= k < len(entries)]
    verdicts = vlib.parallel([(lambda k=k: syntax_ok(cc, std, mode, el, [entries[k]])) for k in cand], workers=4)
    bad = [entries[k] for k, ok in zip(cand, verdicts) if not ok]

    def bisect(es):
        if not es or syntax_ok(cc, std, mode, el, es):
            return []
        if len(es) == 1:
            return list(es)
        h = len(es) // 2
        return bisect(es[:h]) + bisect(es[h:])
    badset = set(bad)
    return bad + bisect([e for e in entries if e not in badset])


def probe_ill_formed(b, cc):
    """Capability probes: every instantiation the manifest expects to be ill-formed is compiled on its own; one that
    has become well-formed is explored like the others (DESIGN.md section 2)."""
    cases = [x for x in static_cases(b, cc) if not x[4]]
    os.makedirs(GENROOT, exist_ok=True)
    # verdicts are cached under the hash of the preprocessed header (vlib caches only successful compiles)
    r = vlib.sh([cc, "-std=c++14", "-I" + vlib.INCLUDE, "-D" + MODES["checked"], "-E", "-P", os.path.join(vlib.INCLUDE, "xtl", "xspan.hpp")])
    if r.returncode != 0:
        raise vlib.HarnessError("cannot preprocess xtl/xspan.hpp with %s:\n%s" % (cc, r.stderr[-2000:]))
    hdr = hashlib.sha256((cc + "\0" + r.stdout).encode()).hexdigest()[:16]

    def one(x):
        op, pe, o, c, _ = x
        call = {"first": "first<%d>()" % (c or 0), "last": "last<%d>()" % (c or 0), "sub1": "subspan<%d>()" % (o or 0),
                "sub2": "subspan<%d, %d>()" % (o or 0, c or 0)}[op]
        txt = "#include <xtl/xspan.hpp>\nvoid f(xtl::span<int, %d> s) { auto v = s.template %s; (void)v; }\n" % (pe, call)
        path = os.path.join(GENROOT, "probe-%s.cpp" % hashlib.sha256(txt.encode()).hexdigest()[:16])
        if not os.path.exists(path):
            tmp = path + ".tmp%d" % os.getpid()
            open(tmp, "w").write(txt)
            os.replace(tmp, path)
        verdict = os.path.join(GENROOT, "verdict-%s-%s" % (hdr, os.path.basename(path)[6:-4]))
        if os.path.exists(verdict):
            return open(verdict).read().strip() == "well-formed"
        ok = vlib.compile_cxx(path, "c16probe", std="c++14", san="none", opt="-O0", syntax_only=True, expect_fail=True,
                              compiler=cc, defines=[MODES["checked"]])
        tmp = verdict + ".tmp%d" % os.getpid()
        open(tmp, "w").write("well-formed\n" if ok is not None else "ill-formed\n")
        os.replace(tmp, verdict)
        return ok is not None
    res = vlib.parallel([(lambda x=x: one(x)) for x in cases], workers=min(8, vlib.NCPU))
    return [x for x, ok in zip(cases, res) if ok], len(cases)


def generate(b, newly_well_formed, cc, exclude=()):
    """writes c16_cases.inc into a content-addressed directory; returns (dir, counts).  exclude: {(part, entry)} of
    instantiations that do not compile on this tree (reported separately) and are left out of the harness"""
    lines = []
    n_static = n_nm = n_dyn = 0
    exclude = set(exclude)
    for part, el in enumerate(ELEMS):
        lines.append("#if C16_PART == %d" % part)
        if part in b["elems"]:
            for pe in [-1] + b["static_parents"]:
                lines.append("DYNOPS(%s, %d)" % (el, pe))
                n_dyn += 1
        for entry in entries_for_part(b, cc, part, newly_well_formed):
            if (part, entry) in exclude:
                continue
            prefix, op, pe, o, c = entry
            lines.append(line(prefix, op, el, pe, o, c))
            if prefix == "S":
                n_static += 1
            else:
                n_nm += 1
        lines.append("#endif")
    txt = "\n".join(lines) + "\n"
    d = os.path.join(GENROOT, "gen-" + hashlib.sha256(txt.encode()).hexdigest()[:16])
    os.makedirs(d, exist_ok=True)
    path = os.path.join(d, "c16_cases.inc")
    if not os.path.exists(path):
        tmp = path + ".tmp%d" % os.getpid()
        open(tmp, "w").write(txt)
        os.replace(tmp, path)
    return d, {"parent_types_runtime_args": n_dyn, "static_member_instantiations": n_static, "static_nonmember_instantiations": n_nm}


def pick_samples(samples):
    """12 actual requests of the primary build, chosen deterministically: one per (validity class, operation) in a fixed order of preference"""
    want = ["offset+count_overflows/subspan(o,c)", "proper/subspan(o,c)", "count>size-offset/subspan(o,c)", "proper/subspan<O,C>", "offset>size/subspan<O>", "count>size/first<C>",
            "proper/last(c)", "count!=extent/ctor(ptr,count)", "proper/ctor(const vector&)", "offset+count_overflows/subspan(t,o,c)", "proper/subspan<O,C>(t)", "whole/empty/subspan(o)"]
    pool = []
    cfg = []
    for key in sorted(k for k in samples if k[0] == "config"):
        cfg += samples[key]
    for key in sorted((k for k in samples if k[0] != "config"), key=lambda k: (k[0] != "checked", k[1])):
        pool += samples[key]
    out = []
    for w in want:
        for s in pool:
            if s.endswith("{%s}" % w) and s not in out:
                out.append(s)
                break
    for s in pool:
        if len(out) >= 12:
            break
        if s not in out:
            out.append(s)
    pick = [x for x in cfg if x.startswith("config NDEBUG,THROW,xspan.hpp") or x.startswith("config no NDEBUG,none,xspan_impl.hpp") or x.startswith("config NDEBUG,none,xspan.hpp")]
    return out[:9] + pick[:3]


def tag_of(mode, part, build):
    return "c16-%s-p%d-%s-%s%s-%s" % (mode, part, build[0].replace("+", "x"), build[1].replace("+", "x"), build[2], build[3])


def build_one(gendir, mode, part, build, nmax):
    cc, std, opt = build[:3]
    return vlib.compile_cxx(SRC, "c16-%s-p%d" % (mode, part), std=std, opt=opt, san="asan", compiler=cc,
                            flags=["-I" + gendir], defines=[MODES[mode], "C16_PART=%d" % part, "C16_GETMAX=%d" % (nmax + 2), "_GLIBCXX_ASSERTIONS"])


_PREP = {}
_FALLBACK = {}
_FALLBACK_LOCK = threading.Lock()


def build_with_fallback(pe, mode, part, build):
    """Builds the harness binary of one (mode, element type, build).  If the combined translation unit does not compile,
    the template-argument instantiations of that element type are compiled individually (-fsyntax-only): those that the
    manifest expects to be well-formed but are not are left out and returned; everything else is still built, run and
    judged.  A failure that no single instantiation explains stays a harness error.
    Returns (binary, [ill-formed entries], {entry: first compiler error line})."""
    gendir, _, newly, _, bb = pe
    try:
        return build_one(gendir, mode, part, build, bb["nmax"]), [], {}
    except vlib.HarnessError as e:
        first_failure = e
    cc, std = build[0], build[1]
    el = ELEMS[part]
    key = (gendir, cc, std, mode, part)
    with _FALLBACK_LOCK:
        cached = _FALLBACK.get(key)
    if cached is None:
        entries = entries_for_part(bb, cc, part, newly)
        bad = find_ill_formed(cc, std, mode, el, entries)
        if not bad:   # None: the header itself does not compile; []: every instantiation compiles on its own
            raise first_failure
        errs = dict(zip(bad, vlib.parallel([(lambda x=x: first_error_line(cc, std, mode, el, x)) for x in bad[:40]], workers=4)))
        gendir2, _ = generate(bb, newly, cc, exclude=[(part, x) for x in bad])
        cached = (gendir2, bad, errs)
        with _FALLBACK_LOCK:
            _FALLBACK[key] = cached
    gendir2, bad, errs = cached
    return build_one(gendir2, mode, part, build, bb["nmax"]), bad, errs


def report_ill_formed(ctx, bad, errs, mode, part, build, nmax):
    """one violation per (instantiation kind, operation): a request that is valid by the reference semantics must return
    the requested view, so 'does not compile' violates the property; instantiations that only denote invalid requests
    are manifest drift and are noted"""
    el = ELEMS[part]
    by_sig = {}
    drift = []
    for x in bad:
        if has_valid_request(x, nmax):
            by_sig.setdefault(entry_sig(x), []).append(x)
        else:
            drift.append(x)
    for sig, xs in sorted(by_sig.items()):
        x = xs[0]
        msg = ("%s is ill-formed on this tree (%s -std=%s, %s build) although the request is valid (e.g. on a parent of %s elements it must return a view): %s"
               % (entry_text(x, el), build[0], build[1], mode, "0..%d" % nmax if x[2] < 0 else x[2], errs.get(x) or first_error_line(build[0], build[1], mode, el, x)))
        if len(xs) > 1:
            msg += " -- %d instantiations of this operation with valid requests do not compile for element type %s: %s%s" % (
                len(xs), el, ", ".join(entry_text(y, el) for y in xs[:12]), " ..." if len(xs) > 12 else "")
        ctx.violation(sig, msg, harness=tag_of(mode, part, build), args=["--instantiation", json.dumps([x[0], x[1], x[2], x[3], x[4]])], build=list(build))
    ctx.stat("valid_instantiations_ill_formed", sum(len(v) for v in by_sig.values()))
    if drift:
        ctx.stat("invalid_only_instantiations_ill_formed", len(drift))
        ctx.note("instantiations that only denote invalid requests no longer compile (a compile error is a rejection; left out of the harness): %s%s"
                 % (", ".join(entry_text(y, el) for y in drift[:8]), " ..." if len(drift) > 8 else ""))


def scope_bounds(tier, scope):
    return bounds(tier) if scope == "full" else bounds("quick")


def prepare(tier, builds):
    """probe + generate once per (scope, compiler family): {(scope, cc): (gendir, counts, newly_well_formed, n_probes, bounds)}"""
    prep = {}
    for build in builds:
        cc, scope = build[0], build[3]
        k = (tier if scope == "full" else "quick", cc)
        if k not in _PREP:
            b = scope_bounds(tier, scope)
            newly, n_probes = probe_ill_formed(b, cc)
            gendir, counts = generate(b, newly, cc)
            _PREP[k] = (gendir, counts, newly, n_probes, b)
        prep[(scope, cc)] = _PREP[k]
    return prep


def run(ctx):
    b = bounds(ctx.tier)
    classify_api(ctx)
    prep = prepare(ctx.tier, b["builds"])
    gendir0, counts, _, n_probes, _ = prep[(b["builds"][0][3], b["builds"][0][0])]
    newly = [(k, x) for k in sorted(prep) for x in prep[k][2]]
    keydir = os.path.join(GENROOT, "keys-%d" % os.getpid())
    os.makedirs(keydir, exist_ok=True)
    jobs = []
    for bi, build in enumerate(b["builds"]):
        bb = prep[(build[3], build[0])][4]
        for mode in ("checked", "nocheck"):
            for part in sorted(set(bb["elems"]) | set(bb["selems"])):
                jobs.append((bi, build, mode, part))
    cjobs = config_jobs(ctx.tier)
    skipped = []
    samples = {}

    def one_config(job):
        # the build-configuration dimension: one small binary per (NDEBUG?, mode macro, entry header[, compiler/standard])
        if job[1:3] != cjobs[0][1:3] and (ctx.time_left() < 300 or time.time() - ctx.t0 > BUDGET_S):
            skipped.append(config_tag(job))
            return None
        binary = build_config(job)
        tag = config_tag(job)
        kf = os.path.join(keydir, tag + ".keys")
        recs = ctx.run_harness(binary, ["--keys-out", kf], tag=tag, build=["cfg"] + list(job))
        if job[1:3] == cjobs[0][1:3]:
            samples[("config", job[0])] = [r["v"] for r in recs if r.get("t") == "sample"]
        return kf

    def one(job):
        if job[0] == "cfg":
            return one_config(job[1])
        bi, build, mode, part = job
        # the primary build always runs; further compilers/standards only while there is time
        if bi > 0 and (ctx.time_left() < 300 or time.time() - ctx.t0 > BUDGET_S):
            skipped.append(tag_of(mode, part, build))
            return None
        bb = prep[(build[3], build[0])][4]
        binary, bad, errs = build_with_fallback(prep[(build[3], build[0])], mode, part, build)
        if bad:
            report_ill_formed(ctx, bad, errs, mode, part, build, bb["nmax"])
        tag = tag_of(mode, part, build)
        kf = os.path.join(keydir, tag + ".keys")
        recs = ctx.run_harness(binary, ["--nmax", str(bb["nmax"]), "--keys-out", kf], tag=tag, build=list(build))
        if bi == 0:
            samples[(mode, part)] = [r["v"] for r in recs if r.get("t") == "sample"]
        return kf

    workers = int(os.environ.get("VERIF_JOBS", "0") or 0) or min(vlib.NCPU, 10)
    # primary harness binaries first (they take longest to compile), then the small configuration binaries, then the secondary builds
    prim = [j for j in jobs if j[0] == 0]
    jobs = prim + [("cfg", j) for j in cjobs] + [j for j in jobs if j[0] != 0]
    files = vlib.parallel([(lambda j=j: one(j)) for j in jobs], workers=workers)
    ctx.samples = pick_samples(samples)
    ctx.viols.sort(key=lambda v: (v["sig"], v["harness"] or ""))   # the reported instance of a signature does not depend on scheduling
    nt, req = set(), set()
    for f in files:
        if f is None or not os.path.exists(f):   # build skipped, or the run was ended by a crash that is reported as a violation
            continue
        data = open(f, "rb").read()
        for i in range(0, len(data), 9):
            h = struct.unpack_from("<Q", data, i + 1)[0]
            (nt if data[i] == 1 else req).add(h)
        os.unlink(f)
    try:
        os.rmdir(keydir)
    except OSError:
        pass
    if skipped:
        ctx.cap("deadline: %d of %d secondary compiler/standard builds were not run (%s ...)" % (len(skipped), len(jobs), skipped[0]))
    ctx.stats["distinct_nontrivial"] = len(nt)
    ctx.stats["distinct_requests"] = len(req)
    ctx.stats["ill_formed_instantiations_probed"] = n_probes
    ctx.stats["ill_formed_instantiations_now_well_formed"] = len(newly)
    for k, v in counts.items():
        ctx.stats[k] = v
    ctx.stats["builds"] = len(b["builds"]) * 2
    ctx.stats["build_configurations"] = len(cjobs)
    ctx.stats["build_configurations_with_checking_enabled"] = sum(1 for j in cjobs if expected_checking(j[3], j[4], j[2]))
    ctx.note("build configurations {no NDEBUG, NDEBUG} x {none, THROW, TERMINATE, NO_CHECKING} x {xspan.hpp, xspan_impl.hpp}; checking is enabled (reference table expected_checking, restating the pinned "
             "default-selection block: an explicit request wins over NDEBUG) in: %s" % sorted(set(j[0] for j in cjobs if expected_checking(j[3], j[4], j[2]))))
    h = default_block_hash()
    if h != PINNED_DEFAULT_BLOCK:
        ctx.note("the default-selection block of xspan_impl.hpp differs textually from the pinned one the configuration table restates (hash %s, pinned %s); the table was NOT adapted" % (h, PINNED_DEFAULT_BLOCK))
    if newly:
        ctx.note("instantiations the manifest expected to be ill-formed compile on this tree and were explored: %s" % newly[:10])
    ctx.note("element types: %s; builds (compiler, standard, optimisation, scope): %s" % ([ELEMS[i] for i in sorted(set(b["elems"]) | set(b["selems"]))], b["builds"]))
    ctx.rule = (
        "request = (element type, parent kind, parent size n, memory layout, operation, arguments), executed on the real xtl::span in two builds "
        "(TCB_SPAN_THROW_ON_CONTRACT_VIOLATION: all requests; TCB_SPAN_NO_CONTRACT_CHECKING: only requests valid by the oracle). "
        "Parents: span<E,dyn> of every size n in 0..%d and span<E,N> for N in %s, each over a guarded block (2 sentinel elements either side) and over an exact-size heap block; "
        "E in %s. Run-time arguments: first(c), last(c), subspan(o), subspan(o,c) for ALL o, c in A(n) = {0..n+2} u {2^31, 2^32-1, 2^32, 2^32+1, 2^61, 2^61+1, 2^62, 2^62+1, 2^63-1, 2^63, 2^63+1} u {SIZE_MAX-(n+2)..SIZE_MAX} "
        "(SIZE_MAX = (size_t)dynamic_extent), member and non-member (on vector / const vector) forms. Template arguments: the generated matrix first<C>, last<C>, subspan<O>, subspan<O,C> for ALL O, C in %d..%d on parents %s "
        "where well-formed (%d instantiations expected ill-formed are probe-compiled one by one), member forms and non-member forms on vector and std::array<_,3>, plus 10 instantiations with arguments at PTRDIFF_MAX. "
        "Constructors: pointer+count and pointer pair (for static extents every count in 0..N+2 and 5 huge ones), C array, std::array, const std::array, vector, const vector (static extents: every size 0..N+2), copy, assignment, "
        "conversions to const / to dynamic extent, make_span, default construction. "
        "Oracle per request: valid (decided in 128-bit integer arithmetic) => returned view has data()==parent+o and size()==c, and is then probed: size_bytes, empty, extent, data()+size()==end(), and EVERY public element-access entry point (the list is cross-checked against the public members parsed from the header) "
        "for every i<size by address and value: operator[], operator(), at(), begin()[i], *(begin()+i), cbegin()[i], rbegin()[size-1-i], crbegin()[size-1-i], data()[i], get<N>(view) for N in {-1, 0..nmax+2, PTRDIFF_MAX}, "
        "front/back, forward/reverse/const iteration; at(i) throws for every i in {size, size+1, size+2, 2^31, 2^32, 2^32+size, 2^61.., 2^62.., 2^63-1, 2^63, 2^63+size, SIZE_MAX/sizeof(T), SIZE_MAX/sizeof(T)+1, SIZE_MAX-size, SIZE_MAX-1, SIZE_MAX}, "
        "checked build: operator[](i), operator()(i) for the same i, get<N> for N<0 or N>=size, and front/back on empty views are rejected (probes that would bind a null reference on data()==nullptr views run in a forked process); every element is written through [], at, iterator, reverse iterator, front, back and the whole block (guards included) compared with the model; "
        "invalid => (checked build) an exception and no view. ASan (recover mode) is polled after every request. "
        "BUILD CONFIGURATIONS: config.cpp is compiled for every {no NDEBUG, NDEBUG} x {none, THROW, TERMINATE, NO_CHECKING} x {xspan.hpp, xspan_impl.hpp} and runs, on span<int,dyn>/span<int,N> parents of 0..3 elements, the in-range part "
        "(every valid request and accessor, by address) and at(i>=size) in all of them, and in those where checking is enabled by the pinned rules (explicit request wins over NDEBUG) a reduced out-of-range set "
        "{size(+1), size+2, 2^32, 2^63, SIZE_MAX-1, SIZE_MAX, wrapping sums} on each of the 22 contract-checked entry points, each request in a forked child that must end in an exception or std::terminate. "
        "distinct_nontrivial = distinct request keys (64-bit FNV-1a of the key, merged over all binaries) that are invalid requests, or valid sub-view requests denoting a non-empty proper sub-range, or constructor/conversion requests "
        "over >= 1 element, plus distinct out-of-range index probes (request key, accessor, index); whole-range and empty views and in-range element probes are counted as trivial. evaluations = judged API calls (requests + probes) summed over all binaries."
        % (b["nmax"], b["static_parents"], [ELEMS[i] for i in b["elems"]], b["sargs"][0], b["sargs"][-1], ["dyn" if p < 0 else p for p in b["sparents"]], n_probes))
    ctx.assumptions += [
        "rejection in the checked build = any exception (the exception type is recorded as outcome_threw_* / at_out_of_range_threw_*, not judged)",
        "build configurations: the full enumeration runs in {THROW, NO_CHECKING} without NDEBUG via xspan.hpp; the other 14 of {no NDEBUG, NDEBUG} x {none, THROW, TERMINATE, NO_CHECKING} x {xspan.hpp, xspan_impl.hpp} run the reduced set of config.cpp (every contract-checked entry point, parents of 0..3 ints)",
        "what a macro combination means (checking enabled or not) is the table expected_checking in check.py, restating the pinned default-selection block (explicit request wins over NDEBUG); it is not read from the tree under test",
        "reversed pointer pairs, null pointers with non-zero counts and counts larger than the storage behind the pointer are undefined preconditions and are not exercised",
        "comparison operators, as_bytes/as_writable_bytes and tuple_size/tuple_element are not part of the statement and are not judged (operator() and get<N> are enumerated)",
        "bounds: parent sizes <= %d; arguments outside the alphabet A(n) (e.g. arbitrary values between n+3 and 2^31) are not executed" % b["nmax"],
    ]


def replay(ctx, rec):
    tier = rec.get("tier", ctx.tier)
    tag = rec.get("harness") or ""
    if tag.startswith("c16cfg-"):
        job = tuple(rec["build"][1:])
        ctx.run_harness(build_config(job), list(rec["args"]), tag=config_tag(job), build=list(rec["build"]))
        return
    mode = "nocheck" if "-nocheck-" in tag else "checked"
    build = tuple(rec["build"]) if rec.get("build") else bounds(tier)["builds"][0]
    if len(build) < 4:
        build = tuple(build) + ("full",)
    prep = prepare(tier, [build])
    pe = prep[(build[3], build[0])]
    args = list(rec["args"])
    m = re.search(r"-p(\d+)-", tag)
    part = int(m.group(1)) if m else 0
    if args and args[0] == "--instantiation":
        # a valid request whose instantiation does not compile: re-compile exactly that instantiation
        x = tuple(json.loads(args[1]))
        if not syntax_ok(build[0], build[1], mode, ELEMS[part], [x]):
            report_ill_formed(ctx, [x], {}, mode, part, build, pe[4]["nmax"])
        return
    if "--only" in args:
        key = args[args.index("--only") + 1]
        names = {"int": 0, "const int": 1, "uchar": 2, "const uchar": 2, "double": 3, "const double": 3, "rec12": 4, "const rec12": 5}
        part = names.get(key.split("|")[0], part)
    binary, _, _ = build_with_fallback(pe, mode, part, build)
    ctx.run_harness(binary, args, tag=tag_of(mode, part, build), build=list(build))
