// C16, build-configuration dimension: the same small request set is executed in every combination of
//   {no macro, NDEBUG} x {none, TCB_SPAN_THROW_ON_CONTRACT_VIOLATION, TCB_SPAN_TERMINATE_ON_CONTRACT_VIOLATION, TCB_SPAN_NO_CONTRACT_CHECKING}
//   x {#include <xtl/xspan.hpp>, #include <xtl/xspan_impl.hpp>}
// The macros come from the command line (check.py); this file defines none of them.  check.py also passes what the combination MEANS
// (-DC16_EXPECT=0 no checking / 1 throwing checks / 2 terminating checks), taken from a table that restates the default-selection block of
// the pinned header (an explicit THROW/TERMINATE request wins over NDEBUG; no request: NDEBUG => none, otherwise terminate) -- not from
// the tree under test.
//   * in-range part (every configuration): every valid first/last/subspan request and every element-access entry point on parents of
//     0..3 elements, dynamic and static extent, judged by raw addresses;
//   * at(i >= size) throws (every configuration);
//   * out-of-range part (configurations where checking is enabled): for EVERY contract-checked entry point a reduced argument set
//     {size(+1), size+2, 2^32, 2^63, SIZE_MAX-1, SIZE_MAX, wrapping offset+count}; each probe runs in a forked child (terminating
//     checks kill the process) and must end in an exception or std::terminate, never in a returned view/reference.
// The parents are windows inside a larger buffer, so a wrongly accepted request never leaves the allocation; nothing is dereferenced
// out of range.
#if C16_ENTRY_IMPL
#include <xtl/xspan_impl.hpp>
#else
#include <xtl/xspan.hpp>
#endif
#include "report.hpp"

#include <array>
#include <cstdint>
#include <exception>
#include <limits>
#include <map>
#include <string>
#include <vector>

#include <sys/wait.h>
#include <unistd.h>

#pragma GCC diagnostic ignored "-Wdeprecated-declarations"

#ifndef C16_EXPECT
#error "C16_EXPECT (0 none, 1 throw, 2 terminate) must be given"
#endif
#ifndef C16_CONFIG_NAME
#error "C16_CONFIG_NAME must be given"
#endif
#define PMAX (std::numeric_limits<std::ptrdiff_t>::max())

static const std::ptrdiff_t DYN = -1;
static const char* const CONFIG = C16_CONFIG_NAME;
static std::string g_entry_filter = "*";
static std::string g_keys;   // FNV hashes of executed case keys, written for check.py (tag byte 1 = non-trivial, 0 = request)
static long long g_eval = 0, g_inrange = 0, g_oor = 0;

static uint64_t fnv(const std::string& s)
{
    uint64_t h = 1469598103934665603ull;
    for (unsigned char c : s) { h ^= c; h *= 1099511628211ull; }
    return h;
}
static void key(const std::string& k, bool nontrivial)
{
    uint64_t h = fnv(std::string("cfg|") + CONFIG + "|" + k);
    unsigned char tag = nontrivial ? 1 : 0;
    g_keys.append(reinterpret_cast<const char*>(&tag), 1);
    g_keys.append(reinterpret_cast<const char*>(&h), sizeof h);
}
static std::string su(size_t x)
{
    if (x == SIZE_MAX) return "SIZE_MAX";
    if (SIZE_MAX - x <= 8) return "SIZE_MAX-" + std::to_string(SIZE_MAX - x);
    if (x == (size_t(1) << 63)) return "2^63";
    if (x == (size_t(1) << 32)) return "2^32";
    return std::to_string(x);
}
static bool wanted(const std::string& entry) { return g_entry_filter == "*" || g_entry_filter == entry; }

// ---- outcome of one out-of-range probe, observed from outside the process that executes it
enum Out { ACCEPTED, THREW, TERMINATED, CRASHED };
static const char* oname(Out o) { return o == ACCEPTED ? "returned normally" : o == THREW ? "threw" : o == TERMINATED ? "terminated" : "crashed"; }
template <class F>
static Out isolated(F f)
{
    std::fflush(stdout);
    pid_t pid = fork();
    if (pid < 0) { std::perror("fork"); std::exit(2); }
    if (pid == 0)
    {
        std::set_terminate([] { _exit(13); });
        try { f(); _exit(11); }
        catch (...) { _exit(12); }
    }
    int st = 0;
    if (waitpid(pid, &st, 0) != pid) return CRASHED;
    if (WIFEXITED(st) && WEXITSTATUS(st) == 11) return ACCEPTED;
    if (WIFEXITED(st) && WEXITSTATUS(st) == 12) return THREW;
    if (WIFEXITED(st) && WEXITSTATUS(st) == 13) return TERMINATED;
    if (WIFSIGNALED(st) && WTERMSIG(st) == SIGABRT) return TERMINATED;
    return CRASHED;
}

// per entry point: how many out-of-range probes, how many were accepted, first accepted case
struct Tally { int probes = 0, accepted = 0, crashed = 0; std::string first; };
static std::map<std::string, Tally> g_tally;   // contract-checked entry points
static std::map<std::string, long long> g_outcomes;

static volatile const void* g_sink;

// an out-of-range request on a contract-checked entry point
template <class F>
static void oor(const std::string& entry, const std::string& what, F f)
{
    if (!wanted(entry)) return;
    ++g_eval;
    ++g_oor;
    key("oor|" + entry + "|" + what, true);
    Out o = isolated(f);
    g_outcomes[std::string("out_of_range_") + oname(o)]++;
    Tally& t = g_tally[entry];
    t.probes++;
    if (o == ACCEPTED || o == CRASHED)
    {
        (o == ACCEPTED ? t.accepted : t.crashed)++;
        if (t.first.empty()) t.first = what + " " + oname(o);
    }
}
static void bad(const std::string& entry, const std::string& kind, const std::string& msg)
{
    vf::violation(std::string("C16/config(") + CONFIG + ")/" + entry + "/" + kind, std::string("[configuration ") + CONFIG + "] " + msg, {"--entry", entry});
}
// an in-range observation
static void expect(bool ok, const std::string& entry, const std::string& what, bool nontrivial = false)
{
    if (!wanted(entry)) return;
    ++g_eval;
    ++g_inrange;
    key("in|" + entry + "|" + what, nontrivial);
    if (!ok) bad(entry, "wrong_result", what + ": the view/reference is not the requested one");
}
// a call that is valid: must not throw/terminate in any configuration (run in-process under try; a terminate would end the run
// without a 'done' record, i.e. as a harness error naming nothing -- so valid calls are wrapped too, cheaply, only on failure paths)
static std::string g_cur_entry, g_cur_what;
static void on_terminate_in_valid_call()
{
    ++g_eval;
    bad(g_cur_entry, "rejected_valid", g_cur_what + " called std::terminate although the request is valid");
    std::printf("@@{\"t\":\"crashed\",\"v\":\"std::terminate in a valid request\"}\n");
    std::fflush(stdout);
    _exit(3);
}
template <class F>
static bool valid_call(const std::string& entry, const std::string& what, F f)
{
    if (!wanted(entry)) return false;
    g_cur_entry = entry;
    g_cur_what = what;
    try { return f(); }
    catch (...) { ++g_eval; bad(entry, "rejected_valid", what + " threw although the request is valid"); return true; }
}

static const size_t BIG[] = {size_t(1) << 32, size_t(1) << 63, SIZE_MAX - 1, SIZE_MAX};

// ---- run-time arguments on one parent (P = span<int,dyn> or span<int,N>), n = its size, base = address of element 0
template <class P>
static void runtime_requests(const P& p, int* base, size_t n, const std::string& pk)
{
    // in range: every valid request
    for (size_t c = 0; c <= n; ++c)
    {
        expect(valid_call("first(c)", pk, [&] { auto v = p.first(c); return v.data() == base && v.size() == c; }), "first(c)", pk + " c=" + su(c), c > 0 && c < n);
        expect(valid_call("last(c)", pk, [&] { auto v = p.last(c); return v.data() == base + (n - c) && v.size() == c; }), "last(c)", pk + " c=" + su(c), c > 0 && c < n);
        expect(valid_call("subspan(o)", pk, [&] { auto v = p.subspan(c); return v.data() == base + c && v.size() == n - c; }), "subspan(o)", pk + " o=" + su(c), c > 0 && c < n);
        expect(valid_call("subspan(o,c)", pk, [&] { auto v = p.subspan(c, size_t(tcb::dynamic_extent)); return v.data() == base + c && v.size() == n - c; }), "subspan(o,c)", pk + " o=" + su(c) + " c=dynamic_extent", false);
        for (size_t o = 0; o + c <= n; ++o)
            expect(valid_call("subspan(o,c)", pk, [&] { auto v = p.subspan(o, c); return v.data() == base + o && v.size() == c; }), "subspan(o,c)", pk + " o=" + su(o) + " c=" + su(c), c > 0 && c < n);
    }
    expect(p.data() == base && p.size() == n && p.size_bytes() == n * sizeof(int) && p.empty() == (n == 0) && p.begin() == base && p.end() == base + n && p.data() + p.size() == p.end(),
           "observers", pk, false);
    for (size_t i = 0; i < n; ++i)
    {
        expect(valid_call("operator[]", pk, [&] { return &p[i] == base + i; }), "operator[]", pk + " i=" + su(i));
        expect(valid_call("operator()", pk, [&] { return &p(i) == base + i; }), "operator()", pk + " i=" + su(i));
        expect(valid_call("at()", pk, [&] { return &p.at(i) == base + i; }), "at()", pk + " i=" + su(i));
        expect(&p.data()[i] == base + i && &p.begin()[i] == base + i && &p.cbegin()[i] == base + i && &p.rbegin()[n - 1 - i] == base + i && &p.crbegin()[n - 1 - i] == base + i, "iterators/data()", pk + " i=" + su(i));
    }
    if (n > 0)
    {
        expect(valid_call("front()", pk, [&] { return &p.front() == base; }), "front()", pk);
        expect(valid_call("back()", pk, [&] { return &p.back() == base + (n - 1); }), "back()", pk);
    }
    // at(i >= size) throws in EVERY configuration (it does not depend on the contract mode)
    std::vector<size_t> idx = {n, n + 1};
    for (size_t b : BIG) idx.push_back(b);
    for (size_t i : idx)
    {
        if (!wanted("at(i>=size)")) break;
        ++g_eval;
        key("at|" + pk + "|" + su(i), true);
        Out o = isolated([&] { g_sink = &p.at(i); });
        g_outcomes[std::string("at_out_of_range_") + oname(o)]++;
        if (o != THREW) bad("at(i>=size)", "no_throw", "at(" + su(i) + ") on " + pk + " " + oname(o) + " instead of throwing");
    }
#if C16_EXPECT != 0
    // out of range: every contract-checked entry point
    for (size_t i : idx)
    {
        oor("operator[](i>=size)", pk + " i=" + su(i), [&] { g_sink = &p[i]; });
        oor("operator()(i>=size)", pk + " i=" + su(i), [&] { g_sink = &p(i); });
    }
    if (n == 0)
    {
        oor("front() on empty", pk, [&] { g_sink = &p.front(); });
        oor("back() on empty", pk, [&] { g_sink = &p.back(); });
    }
    std::vector<size_t> cnt = {n + 1, n + 2, size_t(1) << 32, size_t(1) << 63, SIZE_MAX - 1, SIZE_MAX};
    for (size_t c : cnt)
    {
        oor("first(c>size)", pk + " c=" + su(c), [&] { auto v = p.first(c); g_sink = v.data(); });
        oor("last(c>size)", pk + " c=" + su(c), [&] { auto v = p.last(c); g_sink = v.data(); });
        oor("subspan(o>size)", pk + " o=" + su(c), [&] { auto v = p.subspan(c); g_sink = v.data(); });
        oor("subspan(o>size,c)", pk + " o=" + su(c) + " c=0", [&] { auto v = p.subspan(c, 0); g_sink = v.data(); });
        if (c != SIZE_MAX) oor("subspan(o,c>size-o)", pk + " o=0 c=" + su(c), [&] { auto v = p.subspan(0, c); g_sink = v.data(); });
    }
    oor("subspan(o,c>size-o)", pk + " o=" + su(n) + " c=1", [&] { auto v = p.subspan(n, 1); g_sink = v.data(); });
    for (size_t o = 2; o <= n; ++o)   // offset + count wraps to a small value
        oor("subspan(o,c) offset+count wraps", pk + " o=" + su(o) + " c=SIZE_MAX-1", [&] { auto v = p.subspan(o, SIZE_MAX - 1); g_sink = v.data(); });
#endif
}

// ---- template arguments and constructors that depend on the compile-time size N
template <std::ptrdiff_t I, std::ptrdiff_t N, class P>
struct get_each
{
    static void run(const P& p, int* base, size_t n, const std::string& pk)
    {
        if (size_t(I) < n) expect(valid_call("get<N>()", pk, [&] { return &tcb::get<I>(p) == base + I; }), "get<N>()", pk + " N=" + std::to_string(I));
#if C16_EXPECT != 0
        else oor("get<N>(N>=size)", pk + " N=" + std::to_string(I), [&] { g_sink = &tcb::get<I>(p); });
#endif
        get_each<I + 1, N, P>::run(p, base, n, pk);
    }
};
template <std::ptrdiff_t N, class P>
struct get_each<N, N, P>
{
    static void run(const P& p, int*, size_t, const std::string& pk)
    {
#if C16_EXPECT != 0
        oor("get<N>(N>=size)", pk + " N=-1", [&] { g_sink = &tcb::get<-1>(p); });
        oor("get<N>(N>=size)", pk + " N=PTRDIFF_MAX", [&] { g_sink = &tcb::get<PMAX>(p); });
#else
        (void)p; (void)pk;
#endif
    }
};

template <std::ptrdiff_t N, class P>
static void static_requests(const P& p, int* base, const std::string& pk, std::true_type /*N >= 1*/)
{
    const size_t n = size_t(N);
    expect(valid_call("first<C>()", pk, [&] { auto v = p.template first<N>(); return v.data() == base && v.size() == n; }), "first<C>()", pk + " C=" + std::to_string(N));
    expect(valid_call("first<C>()", pk, [&] { auto v = p.template first<1>(); return v.data() == base && v.size() == 1; }), "first<C>()", pk + " C=1", N > 1);
    expect(valid_call("last<C>()", pk, [&] { auto v = p.template last<1>(); return v.data() == base + (n - 1) && v.size() == 1; }), "last<C>()", pk + " C=1", N > 1);
    expect(valid_call("subspan<O>()", pk, [&] { auto v = p.template subspan<1>(); return v.data() == base + 1 && v.size() == n - 1; }), "subspan<O>()", pk + " O=1", N > 1);
    expect(valid_call("subspan<O,C>()", pk, [&] { auto v = p.template subspan<N - 1, 1>(); return v.data() == base + (n - 1) && v.size() == 1; }), "subspan<O,C>()", pk + " O=N-1 C=1", N > 1);
    expect(valid_call("subspan<O,C>()", pk, [&] { auto v = p.template subspan<0, N>(); return v.data() == base && v.size() == n; }), "subspan<O,C>()", pk + " O=0 C=N");
#if C16_EXPECT != 0
    oor("subspan<O,C>() offset+count overflows", pk + " O=1 C=PTRDIFF_MAX", [&] { auto v = p.template subspan<1, PMAX>(); g_sink = v.data(); });
#endif
}
template <std::ptrdiff_t N, class P>
static void static_requests(const P&, int*, const std::string&, std::false_type) {}

template <std::ptrdiff_t N, class P>
static void template_requests(const P& p, int* base, const std::string& pk)
{
    const size_t n = size_t(N);
    static_requests<N>(p, base, pk, std::integral_constant<bool, (N >= 1)>());
    expect(valid_call("subspan<O>()", pk, [&] { auto v = p.template subspan<0>(); return v.data() == base && v.size() == n; }), "subspan<O>()", pk + " O=0");
    expect(valid_call("subspan<O>()", pk, [&] { auto v = p.template subspan<N>(); return v.data() == base + n && v.size() == 0; }), "subspan<O>()", pk + " O=N");
    expect(valid_call("subspan<O,C>()", pk, [&] { auto v = p.template subspan<N, 0>(); return v.data() == base + n && v.size() == 0; }), "subspan<O,C>()", pk + " O=N C=0");
    get_each<0, N + 2, P>::run(p, base, n, pk);
#if C16_EXPECT != 0
    oor("first<C>(C>size)", pk + " C=N+1", [&] { auto v = p.template first<N + 1>(); g_sink = v.data(); });
    oor("first<C>(C>size)", pk + " C=PTRDIFF_MAX", [&] { auto v = p.template first<PMAX>(); g_sink = v.data(); });
    oor("last<C>(C>size)", pk + " C=N+1", [&] { auto v = p.template last<N + 1>(); g_sink = v.data(); });
    oor("subspan<O>(O>size)", pk + " O=N+1", [&] { auto v = p.template subspan<N + 1>(); g_sink = v.data(); });
    oor("subspan<O,C>(C>size-O)", pk + " O=0 C=N+1", [&] { auto v = p.template subspan<0, N + 1>(); g_sink = v.data(); });
    oor("subspan<O,C>(C>size-O)", pk + " O=N C=1", [&] { auto v = p.template subspan<N, 1>(); g_sink = v.data(); });
    oor("subspan<O,C>(O>size)", pk + " O=N+1 C=0", [&] { auto v = p.template subspan<N + 1, 0>(); g_sink = v.data(); });
#endif
}

template <std::ptrdiff_t N>
static void parent_size()
{
    int buf[32];
    for (int i = 0; i < 32; ++i) buf[i] = 1000 + i;
    int* base = buf + 8;
    const size_t n = size_t(N);
    const std::string sz = std::to_string(N);
    typedef tcb::span<int, DYN> D;
    typedef tcb::span<int, N> S;
    // constructors (valid forms) -- also the parents of everything else
    D d(base, n);
    S s(base, n);
    expect(d.data() == base && d.size() == n, "ctor(ptr,count)", "span<int,dyn> n=" + sz, N > 0);
    expect(s.data() == base && s.size() == n, "ctor(ptr,count)", "span<int," + sz + ">", N > 0);
    expect(valid_call("ctor(first,last)", sz, [&] { D x(base, base + n); S y(base, base + n); return x.data() == base && x.size() == n && y.data() == base && y.size() == n; }), "ctor(first,last)", "n=" + sz, N > 0);
    {
        std::vector<int> vec(n, 7);
        expect(valid_call("ctor(container)", sz, [&] { D x(vec); S y(vec); return x.data() == vec.data() && x.size() == n && y.data() == vec.data() && y.size() == n; }), "ctor(container)", "n=" + sz, N > 0);
        expect(valid_call("nonmember first/last/subspan", sz, [&] { auto a = tcb::first(vec, std::ptrdiff_t(n)); auto b = tcb::subspan(vec, std::ptrdiff_t(n)); return a.data() == vec.data() && a.size() == n && b.size() == 0; }), "nonmember first/last/subspan", "n=" + sz);
#if C16_EXPECT != 0
        oor("nonmember first(t,c>size)", "vector n=" + sz, [&] { auto v = tcb::first(vec, std::ptrdiff_t(n + 1)); g_sink = v.data(); });
        oor("nonmember subspan(t,o>size)", "vector n=" + sz, [&] { auto v = tcb::subspan(vec, std::ptrdiff_t(n + 1)); g_sink = v.data(); });
        std::vector<int> longer(n + 1, 7);
        oor("ctor span<T,N>(container of another size)", "N=" + sz + " size=N+1", [&] { S y(longer); g_sink = y.data(); });
#endif
    }
    {
        std::array<int, size_t(N)> arr;
        expect(valid_call("ctor(std::array)", sz, [&] { S y(arr); D x(arr); auto m = tcb::make_span(arr); return y.data() == arr.data() && x.size() == n && m.size() == n; }), "ctor(std::array)", "n=" + sz, N > 0);
    }
#if C16_EXPECT != 0
    oor("ctor span<T,N>(ptr,count!=N)", "N=" + sz + " count=N+1", [&] { S y(base, n + 1); g_sink = y.data(); });
    oor("ctor span<T,N>(ptr,count!=N)", "N=" + sz + " count=SIZE_MAX", [&] { S y(base, SIZE_MAX); g_sink = y.data(); });
    oor("ctor span<T,N>(first,last!=first+N)", "N=" + sz + " last-first=N+1", [&] { S y(base, base + n + 1); g_sink = y.data(); });
    if (N > 0)
    {
        oor("ctor span<T,N>(ptr,count!=N)", "N=" + sz + " count=N-1", [&] { S y(base, n - 1); g_sink = y.data(); });
        oor("ctor span<T,N>(first,last!=first+N)", "N=" + sz + " last-first=N-1", [&] { S y(base, base + (n - 1)); g_sink = y.data(); });
    }
#endif
    runtime_requests(d, base, n, "span<int,dyn> n=" + sz);
    runtime_requests(s, base, n, "span<int," + sz + ">");
    template_requests<N>(d, base, "span<int,dyn> n=" + sz);
    template_requests<N>(s, base, "span<int," + sz + ">");
}

int main(int argc, char** argv)
{
    std::string keys_out;
    for (int i = 1; i < argc; ++i)
    {
        std::string a = argv[i];
        if (a == "--entry" && i + 1 < argc) g_entry_filter = argv[++i];
        else if (a == "--keys-out" && i + 1 < argc) keys_out = argv[++i];
        else { std::fprintf(stderr, "unknown argument %s\n", a.c_str()); return 2; }
    }
    std::set_terminate(on_terminate_in_valid_call);
    parent_size<0>();
    parent_size<1>();
    parent_size<2>();
    parent_size<3>();

    // verdict on the contract-checked entry points of this configuration
    int entries = 0, all_accepted = 0;
    for (auto& kv : g_tally) { ++entries; if (kv.second.accepted == kv.second.probes) ++all_accepted; }
    if (entries >= 4 && all_accepted == entries && g_entry_filter == "*")
    {
        std::string names;
        for (auto& kv : g_tally) names += (names.empty() ? "" : ", ") + kv.first;
        vf::violation(std::string("C16/config(") + CONFIG + ")/every contract-checked entry point/all_contract_checks_disabled",
                      std::string("[configuration ") + CONFIG + "] contract checking is enabled in this configuration (" + (C16_EXPECT == 1 ? "throwing" : "terminating") +
                          " checks were requested and the pinned default-selection rules honour the request), but ALL " + std::to_string(g_oor) + " out-of-range requests on all " +
                          std::to_string(entries) + " contract-checked entry points returned a view/reference instead of being rejected, e.g. " + g_tally.begin()->first + " [" + g_tally.begin()->second.first + "]; entry points: " + names,
                      {"--entry", "*"});
    }
    else
        for (auto& kv : g_tally)
        {
            const Tally& t = kv.second;
            if (t.accepted) bad(kv.first, "accepted_out_of_range", std::to_string(t.accepted) + " of " + std::to_string(t.probes) + " out-of-range requests were not rejected, first: " + t.first);
            else if (t.crashed) bad(kv.first, "crashed", std::to_string(t.crashed) + " of " + std::to_string(t.probes) + " out-of-range requests crashed instead of being rejected, first: " + t.first);
        }
    vf::stat("evaluations", g_eval);
    vf::stat("config_evaluations", g_eval);
    vf::stat("config_in_range_observations", g_inrange);
    vf::stat("config_out_of_range_requests", g_oor);
    vf::stat("config_contract_checked_entry_points_probed", entries);
    for (auto& kv : g_outcomes) vf::stat("config_" + kv.first, kv.second);
    if (!keys_out.empty())
    {
        FILE* f = std::fopen(keys_out.c_str(), "wb");
        if (!f) { std::fprintf(stderr, "cannot write %s\n", keys_out.c_str()); return 2; }
        std::fwrite(g_keys.data(), 1, g_keys.size(), f);
        std::fclose(f);
    }
    vf::sample(std::string("config ") + CONFIG + ": " + std::to_string(g_inrange) + " in-range observations, " + std::to_string(g_oor) + " out-of-range requests on " + std::to_string(entries) + " contract-checked entry points", 50);
    vf::done();
    return 0;
}
