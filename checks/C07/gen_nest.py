"""C07 reference-like payloads: generator of the cases "the payload of the closure is itself a handle" (a nested closure wrapper
`closure(closure(x))`, a proxy / view class with its own swap).

Rule (independent of the library; a cell model evaluated HERE, the expected values are literals in the generated program): the
wrappers a and b designate - through their payload handle - the ultimate referents x and y.
    swap (member, ADL, xtl::)      exchanges the values of x and y               nothing is rebound
    a = std::move(b)               x receives the old value of y; y: not specified (the statement says nothing about the source)
    a = b (const / non-const b)    x receives the value of y, y keeps it
    a = value, write through b     the referent receives the value
    copy / move of a, &a           designate the same referent: a write through them lands in x
Every sequence of operations of length <= L is generated; after EVERY step both referents, both wrappers' readings and the
designation of both handles are compared with the model.  Sequences that use b after it was moved from, or a after it was moved
from, are not generated (their outcome is not specified).
"""

# payload tag -> (description, ultimate type, inner handle type, how a handle on X is made)
INNERS = {
    "cw_int": ("xclosure_wrapper<int&>", "int", "xtl::xclosure_wrapper<int&>", "xtl::closure(%s)"),
    "cw_counted": ("xclosure_wrapper<Counted&>", "c07::Counted", "xtl::xclosure_wrapper<c07::Counted&>", "xtl::closure(%s)"),
    "view_int": ("hv::View<int> (proxy class with its own ADL swap)", "int", "hv::View<int>", "hv::View<int>(%s)"),
}
PAYLOADS = [(k, v[0]) for k, v in INNERS.items()]

NOVAL = None


class Op(object):
    def __init__(self, name, code, effect, uses_b=False, kills_a=False, kills_b=False, writes=True):
        self.name, self.code, self.effect = name, code, effect
        self.uses_b, self.kills_a, self.kills_b, self.writes = uses_b, kills_a, kills_b, writes


def _swap(x, y, k):
    return y, x


def _mv(x, y, k):
    return y, NOVAL


def _cp(x, y, k):
    return y, y


def _ax(x, y, k):
    return k, y


def _by(x, y, k):
    return x, k


# operation alphabets; {A} = accessor of the handle through the wrapper, {K} = fresh value
def ops_closure():
    return [
        Op("swap-member", "a.swap(b);", _swap, uses_b=True),
        Op("swap-adl", "{ using std::swap; swap(a, b); }", _swap, uses_b=True),
        Op("swap-xtl", "xtl::swap(a, b);", _swap, uses_b=True),
        Op("move-assign", "a = std::move(b);", _mv, uses_b=True, kills_b=True),
        Op("copy-assign-from-const", "a = c07n::cst(b);", _cp, uses_b=True),
        Op("assign-value", "a = UVT::mk({K});", _ax),
        Op("write-through-b", "c07n::put({B}, {K});", _by, uses_b=True),
        Op("copy-construct+write", "{ auto c(a); c07n::put({C}, {K}); }", _ax),
        Op("move-construct+write", "{ auto c(std::move(a)); c07n::put({C}, {K}); }", _ax, kills_a=True),
        Op("address-of+write", "{ auto pa = &a; c07n::put(*pa, {K}); }", _ax),
    ]


def ops_proxy(inner_has_member_swap):
    o = [
        Op("move-assign", "a = std::move(b);", _mv, uses_b=True, kills_b=True),
        Op("copy-assign-from-const", "a = c07n::cst(b);", _cp, uses_b=True),
        Op("write-through-b", "c07n::put({B}, {K});", _by, uses_b=True),
        Op("copy-construct+write", "{ auto c(a); c07n::put({C}, {K}); }", _ax),
        Op("address-of+write", "{ auto pa = &a; c07n::put(*pa, {K}); }", _ax),
    ]
    if inner_has_member_swap:
        o.insert(0, Op("swap-member(inherited)", "a.swap(b);", _swap, uses_b=True))
    return o


def ops_masked():
    return [
        Op("swap-member", "a.swap(b);", _swap, uses_b=True),
        Op("swap-xtl", "xtl::swap(a, b);", _swap, uses_b=True),
        Op("move-assign", "a = std::move(b);", _mv, uses_b=True, kills_b=True),
        Op("copy-assign-from-const", "a = c07n::cst(b);", _cp, uses_b=True),
        Op("assign-value", "a = UVT::mk({K});", _ax),
        Op("write-through-b", "c07n::put({B}, {K});", _by, uses_b=True),
        Op("copy-construct+write", "{ auto c(c07n::cst(a)); c07n::put({C}, {K}); }", _ax),
    ]


def ops_optional():
    # xoptional::swap used std::swap qualified on the pinned tree (values lost for handle payloads; NOTES.md section 11, finding F1);
    # repaired in /repo by 7e0ecf6, so the member swap and std::swap on two optionals are in the alphabet
    return [
        Op("swap-member", "a.swap(b);", _swap, uses_b=True),
        Op("move-assign", "a = std::move(b);", _mv, uses_b=True, kills_b=True),
        Op("copy-assign-from-const", "a = c07n::cst(b);", _cp, uses_b=True),
        Op("assign-value", "a = UVT::mk({K});", _ax),
        Op("write-through-b", "c07n::put({B}, {K});", _by, uses_b=True),
        Op("copy-construct+write", "{ auto c(a); c07n::put({C}, {K}); }", _ax),
    ]


def ops_pointer():
    return [
        Op("assign-value-through-*", "*a = UVT::mk({K});", _ax),
        Op("write-through-b", "c07n::put({B}, {K});", _by, uses_b=True),
        Op("copy-construct+write", "{ auto c(a); c07n::put({C}, {K}); }", _ax),
        Op("swap(*a,*b)", "{ using std::swap; swap(*a, *b); }", _swap, uses_b=True),
    ]


def ops_const():
    return [
        Op("write-through-b", "c07n::put(const_cast<I&>({B}), {K});", _by, uses_b=True),
        Op("copy-construct", "{ auto c(a); E.chk(c07n::IN<I>::target({C}) == static_cast<const void*>(&E.x), \"rebound\", \"the copy does not designate x\"); }", lambda x, y, k: (x, y), writes=False),
    ]


class Kind(object):
    def __init__(self, name, src, mk, acc, ops, depth, only=None):
        # depth: (quick, thorough) sequence length
        self.name, self.src, self.mk, self.acc, self.ops, self.depth, self.only = name, src, mk, acc, ops, depth, only


def kinds(tag):
    cw = tag.startswith("cw")
    H = INNERS[tag][3]
    own = "auto a = %s(" + H % "E.x" + "%s); auto b = %s(" + H % "E.y" + "%s);"
    ali = "auto ia = " + H % "E.x" + "; auto ib = " + H % "E.y" + "; auto a = %s(ia%s); auto b = %s(ib%s);"
    ks = [
        Kind("closure", "handle rvalue", own % ("xtl::closure", "", "xtl::closure", ""), "%s.get()", ops_closure(), (2, 3)),
        Kind("closure", "handle lvalue", ali % ("xtl::closure", "", "xtl::closure", ""), "%s.get()", ops_closure(), (2, 3)),
        Kind("const_closure", "handle rvalue", own % ("xtl::const_closure", "", "xtl::const_closure", ""), "%s.get()", ops_const(), (1, 2)),
        Kind("proxy_wrapper", "handle rvalue", own % ("xtl::proxy_wrapper", "", "xtl::proxy_wrapper", ""), "static_cast<I&>(%s)", ops_proxy(cw), (1, 2)),
        Kind("masked_value", "handle rvalue", own % ("xtl::masked_value", ", true", "xtl::masked_value", ", true"), "%s.value()", ops_masked(), (1, 2)),
        Kind("optional", "handle rvalue", own % ("xtl::optional", ", true", "xtl::optional", ", true"), "%s.value()", ops_optional(), (1, 2)),
        Kind("closure_pointer", "handle rvalue", own % ("xtl::closure_pointer", "", "xtl::closure_pointer", ""), "(*%s)", ops_pointer(), (1, 2)),
        Kind("closure_pointer", "handle lvalue", ali % ("xtl::closure_pointer", "", "xtl::closure_pointer", ""), "(*%s)", ops_pointer(), (1, 2)),
    ]
    return ks


class Case(object):
    def __init__(self, kind, closure, form, body, depth):
        self.kind, self.closure, self.form, self.body, self.depth = kind, closure, form, body, depth
        self.id = "%s|%s|%s" % (kind, closure, form)


def _sequences(ops, L):
    """every sequence of length 1..L that does not use a wrapper after it was moved from"""
    out = []

    def rec(prefix, a_ok, b_ok):
        if prefix:
            out.append(list(prefix))
        if len(prefix) == L or not a_ok:
            return
        for o in ops:
            if o.uses_b and not b_ok:
                continue
            rec(prefix + [o], a_ok and not o.kills_a, b_ok and not o.kills_b)
    rec([], True, True)
    return out


def _lit(v):
    return "c07n::NOVAL" if v is NOVAL else str(v)


def payloads(tier):
    return PAYLOADS


def cases_for(tag, tier="thorough"):
    out = []
    for kd in kinds(tag):
        L = kd.depth[0] if tier == "quick" else kd.depth[1]
        closure = "%s %s" % (INNERS[tag][2].replace("xtl::", "").replace("c07::", ""), kd.src)
        A, B, C = kd.acc % "a", kd.acc % "b", kd.acc % "c"
        # construction + read
        body0 = kd.mk + " E.st(\"construction\", %s, %s, 1, 2, true, true, \"not-aliasing\");" % (A, B)
        if kd.src == "handle lvalue":
            body0 += " E.chk(std::addressof(%s) == std::addressof(ia), \"not-aliasing\", \"the wrapper built from the handle LVALUE does not designate that handle object\");" % A
        out.append(Case(kd.name, closure, "construct+read", body0, 0))
        for seq in _sequences(kd.ops, kd.depth[1]):
            x, y, a_ok, b_ok = 1, 2, True, True
            body = kd.mk
            wrote = False
            names = []
            for n, o in enumerate(seq):
                k = 10 * (n + 1) + 5 + (kd.ops.index(o) % 5)
                x, y = o.effect(x, y, k)
                a_ok = a_ok and not o.kills_a
                b_ok = b_ok and not o.kills_b
                wrote = wrote or o.writes
                names.append(o.name)
                fk = "values-not-exchanged" if o.name.startswith("swap") else "wrong-value"
                body += " " + o.code.replace("{K}", str(k)).replace("{B}", B).replace("{C}", C)
                # the accessors are only evaluated for wrappers that are still judged
                body += " E.st(%s, %s, %s, %s, %s, %s, %s, \"%s\");" % (cstr("after " + " ; ".join(names)), A if a_ok else B if b_ok else "E_dummy", B if b_ok else A if a_ok else "E_dummy",
                                                                  _lit(x), _lit(y), "true" if a_ok else "false", "true" if b_ok else "false", fk)
            if not a_ok and not b_ok:
                body = body.replace("E_dummy", "c07n::cst(dummy)")
                body = "I dummy = " + INNERS[tag][3] % "E.x" + "; " + body
            if wrote:
                body += " E.wrote = true;"
            out.append(Case(kd.name, closure, " ; ".join(names), body, len(seq)))
    if tier == "quick":
        dq = {(kd.name, "%s %s" % (INNERS[tag][2].replace("xtl::", "").replace("c07::", ""), kd.src)): kd.depth[0] for kd in kinds(tag)}
        out = [c for c in out if c.depth <= dq[(c.kind, c.closure)]]
    ids = set()
    for c in out:
        assert c.id not in ids, c.id
        ids.add(c.id)
    return out


# committed: ill-formed on the pinned tree: (payload tag prefix, kind, source[, operation]) -> reason.  With an operation: every
# sequence that contains it.  Probed every run: see is_probe().
_ADDR = ("xclosure_wrapper takes addresses with the built-in spelling `&e` (get_storage_init, get_pointer) and xclosure_wrapper<T&> "
         "overloads operator& (it returns the address of the REFERENT): %s")
KNOWN_ILL_FORMED = {
    ("cw", "closure", "handle lvalue"): _ADDR % "a closure over an LVALUE closure wrapper cannot be built",
    ("cw", "closure", "handle rvalue", "address-of+write"): _ADDR % "operator& of a closure that owns a closure wrapper is ill-formed",
}


def ill_formed_is_gap(c, tag):
    """The nested closure wrappers overload unary operator&, and on the pinned tree xclosure_wrapper already takes addresses with the
    built-in spelling (entries above): WHICH operations compile for such a payload is an accident of where the implementation writes `&`,
    not something the rule promises (a behaviour-preserving rewrite of the move assignment that compares get_pointer() results makes
    `a = std::move(b)` ill-formed for them: neutral/C07-2). For these payloads an operation that does not compile is reported as a
    capability gap (note); for the proxy class hv::View, which overloads nothing, it is a violation like everywhere else."""
    return tag.startswith("cw")


def _match(c, tag):
    ops = c.form.split(" ; ")
    for k in KNOWN_ILL_FORMED:
        if k[0] == tag.split("_")[0] and k[1] == c.kind and c.closure.endswith(k[2]) and (len(k) == 3 or k[3] in ops):
            return k
    return None


def listed(c, tag):
    return _match(c, tag) is not None


def is_probe(c, tag, tier):
    """listed cases that are compiled on their own: in the quick tier the shortest sequence of each entry, first payload of the family
    only; in the thorough tier every listed sequence of length <= 1, every payload"""
    k = _match(c, tag)
    if k is None:
        return False
    if tier != "quick":
        return c.depth <= 1
    if tag != [t for t, _ in PAYLOADS if t.split("_")[0] == k[0]][0]:
        return False
    return c.form == (k[3] if len(k) > 3 else "construct+read")


def reason(c, tag=None):
    for k, v in KNOWN_ILL_FORMED.items():
        if k[1] == c.kind and c.closure.endswith(k[2]) and (len(k) == 3 or k[3] in c.form.split(" ; ")):
            return v
    return ""


def cstr(s):
    return '"' + s.replace("\\", "\\\\").replace('"', '\\"') + '"'


def tu(cs, tag, descr=None):
    d, T, I, H = INNERS[tag]
    s = "// C07 reference-like payload cases, handle %s (%d cases)\n" % (d, len(cs))
    s += '#include "nest_common.hpp"\n#include <cstring>\n'
    s += "typedef %s T;\ntypedef %s I;\ntypedef c07n::UV<T> UVT;\n" % (T, I)
    for i, c in enumerate(cs):
        s += "static void case%d()\n{\n" % i
        s += "    static const c07n::case_info ci = {%s, %s, %s, %s, %s, %s};\n" % (cstr(c.id), cstr(c.kind), cstr(c.closure), cstr(c.form), cstr(tag), cstr(d))
        s += "    c07n::nest_case<T>(ci, [](c07n::env<T>& E) { %s });\n}\n" % c.body
    s += "int main(int argc, char** argv)\n{\n    const char* only = argc > 2 && !std::strcmp(argv[1], \"--only\") ? argv[2] : nullptr;\n"
    for i, c in enumerate(cs):
        s += "    if (!only || !std::strcmp(only, %s)) case%d();\n" % (cstr(c.id), i)
    s += '    vf::stat("evaluations", c07n::g_cases);\n    vf::stat("reference_like_payload_cases", c07n::g_cases);\n'
    s += '    vf::stat("reference_like_payload_steps_compared_with_the_model", c07n::g_steps);\n    vf::stat("distinct_nontrivial", c07n::g_nontrivial);\n'
    if cs:
        j = min(14, len(cs) - 1)
        s += "    if (!only) vf::sample(%s);\n" % cstr("reference-like payload [%s]: %s over %s, %s: `%s`" % (d, cs[j].kind, cs[j].closure, cs[j].form, cs[j].body[:260]))
    s += "    vf::done();\n    return 0;\n}\n"
    return s


if __name__ == "__main__":
    for tag, d in PAYLOADS:
        print(tag, len(cases_for(tag, "quick")), "quick /", len(cases_for(tag, "thorough")), "thorough")
