"""C07 conversion part: generator of the cases "a reference-closure wrapper (built from lvalues) is the source of an owning
value / an owning specialization".  Rule (independent of the library): the wrapper only ALIASES the lvalue, so whatever value
category the WRAPPER has, the original keeps its value (it is never moved from), at most one copy per original creates the
owning value, the result is equal and independent.

A case is (kind, form, closure) with a C++ body; cases x payload {Counted, std::string, std::vector<int>} are all run.
Cases that are ill-formed on the pinned tree are a committed list (KNOWN_ILL_FORMED); each is compiled on its own every
run, and if it has become well-formed it is executed and judged like the others.
"""

PAYLOADS = [("counted", "c07::Counted"), ("string", "std::string"), ("vector", "std::vector<int>")]

# closure of the reference wrapper: label, how the originals are named when the wrapper is built
CLOSURES = [("T&", "x", "x2", "f"), ("const T&", "c07c::cst(x)", "c07c::cst(x2)", "c07c::cst(f)")]


class Case(object):
    def __init__(self, kind, form, closure, mk, op, acc, which=0, norig=1):
        self.kind, self.form, self.closure = kind, form, closure
        self.mk, self.op, self.acc, self.which, self.norig = mk, op, acc, which, norig
        self.id = "%s|%s|%s" % (kind, form, closure)


def cases():
    out = []
    for clabel, X, X2, F in CLOSURES:
        CQ = "P&" if clabel == "T&" else "const P&"

        def add(kind, form, mk, op, acc="return o;", which=0, norig=1):
            out.append(Case(kind, form, clabel, mk, op, acc, which, norig))

        # ---- xclosure_wrapper (closure / const_closure / proxy_wrapper of an lvalue) -> xclosure_wrapper<P>, P
        for kind, fac in (("closure", "xtl::closure(%s)" % X), ("proxy_wrapper", "xtl::proxy_wrapper(%s)" % X)):
            O = "xtl::xclosure_wrapper<P>"
            mk = "return %s;" % fac
            wacc = "return o.get();"
            add(kind, "owning(std::move(w))", mk, "%s o(std::move(r)); return o;" % O, wacc)
            add(kind, "owning(w)", mk, "%s o(r); return o;" % O, wacc)
            add(kind, "owning(prvalue-wrapper)", mk, "%s o(%s); return o;" % (O, fac), wacc)
            add(kind, "owning=std::move(w)", mk, "%s o(PVP::mk(3)); o = std::move(r); return o;" % O, wacc)
            add(kind, "owning=w", mk, "%s o(PVP::mk(3)); o = r; return o;" % O, wacc)
            add(kind, "owning=prvalue-wrapper", mk, "%s o(PVP::mk(3)); o = %s; return o;" % (O, fac), wacc)
            add(kind, "T v=std::move(w).get()", mk, "P o = std::move(r).get(); return o;")
            add(kind, "T v=prvalue-wrapper.get()", mk, "P o = %s.get(); return o;" % fac)
            add(kind, "T v=std::move(w)", mk, "P o = std::move(r); return o;")
            add(kind, "T v(std::move(w))", mk, "P o(std::move(r)); return o;")
            add(kind, "T v=prvalue-wrapper", mk, "P o = %s; return o;" % fac)
            add(kind, "v=std::move(w)", mk, "P o = PVP::mk(3); o = std::move(r); return o;")
            if kind == "proxy_wrapper":
                add(kind, "xproxy_wrapper<T>(std::move(w))", mk, "xtl::xproxy_wrapper<P> o(std::move(r)); return o;", "return static_cast<P&>(o);")
                add(kind, "proxy_wrapper(T(std::move(w).get()))", mk, "auto o = xtl::proxy_wrapper(P(std::move(r).get())); return o;", "return static_cast<P&>(o);")
        # ---- xclosure_pointer
        fac = "xtl::closure_pointer(%s)" % X
        mk = "return %s;" % fac
        add("closure_pointer", "T v=*std::move(p)", mk, "P o = *std::move(r); return o;")
        add("closure_pointer", "T v=*prvalue-pointer", mk, "P o = *%s; return o;" % fac)
        add("closure_pointer", "T v=*std::move(p).operator->()", mk, "P o = *(std::move(r).operator->()); return o;")
        add("closure_pointer", "owning(*std::move(p))", mk, "xtl::xclosure_pointer<P> o(*std::move(r)); return o;", "return *o;")
        add("closure_pointer", "owning(std::move(p))", mk, "xtl::xclosure_pointer<P> o(std::move(r)); return o;", "return *o;")
        # ---- xoptional
        fac = "xtl::optional(%s, %s)" % (X, F)
        mk = "return %s;" % fac
        O = "xtl::xoptional<P, bool>"
        oacc = "return o.value();"
        add("xoptional", "owning(std::move(w))", mk, "%s o(std::move(r)); return o;" % O, oacc)
        add("xoptional", "owning(w)", mk, "%s o(r); return o;" % O, oacc)
        add("xoptional", "owning o=std::move(w)", mk, "%s o = std::move(r); return o;" % O, oacc)
        add("xoptional", "owning o=w", mk, "%s o = r; return o;" % O, oacc)
        add("xoptional", "owning o=prvalue-proxy", mk, "%s o = %s; return o;" % (O, fac), oacc)
        add("xoptional", "owning{prvalue-proxy}", mk, "%s o{%s}; return o;" % (O, fac), oacc)
        add("xoptional", "owning=std::move(w)", mk, "%s o(PVP::mk(3), true); o = std::move(r); return o;" % O, oacc)
        add("xoptional", "owning=w", mk, "%s o(PVP::mk(3), true); o = r; return o;" % O, oacc)
        add("xoptional", "owning=prvalue-proxy", mk, "%s o(PVP::mk(3), true); o = %s; return o;" % (O, fac), oacc)
        add("xoptional", "T v=std::move(w).value()", mk, "P o = std::move(r).value(); return o;")
        add("xoptional", "T v=std::move(const w).value()", mk, "P o = std::move(c07c::cst(r)).value(); return o;")
        add("xoptional", "T v=prvalue-proxy.value()", mk, "P o = %s.value(); return o;" % fac)
        add("xoptional", "T v=value(std::move(w))", mk, "P o = xtl::value(std::move(r)); return o;")
        add("xoptional", "T v=value(prvalue-proxy)", mk, "P o = xtl::value(%s); return o;" % fac)
        add("xoptional", "T v=std::move(w).value_or(d)", mk, "P o = std::move(r).value_or(PVP::mk(4)); return o;")
        add("xoptional", "v=std::move(w).value()", mk, "P o = PVP::mk(3); o = std::move(r).value(); return o;")
        # ---- xmasked_value
        fac = "xtl::masked_value(%s, %s)" % (X, F)
        mk = "return %s;" % fac
        O = "xtl::xmasked_value<P, bool>"
        add("xmasked_value", "owning(std::move(w))", mk, "%s o(std::move(r)); return o;" % O, oacc)
        add("xmasked_value", "owning(w)", mk, "%s o(r); return o;" % O, oacc)
        add("xmasked_value", "owning o=std::move(w)", mk, "%s o = std::move(r); return o;" % O, oacc)
        add("xmasked_value", "owning o=prvalue-proxy", mk, "%s o = %s; return o;" % (O, fac), oacc)
        add("xmasked_value", "owning(std::move(w).value(),flag)", mk, "%s o(std::move(r).value(), std::move(r).visible()); return o;" % O, oacc)
        add("xmasked_value", "owning=std::move(w)", mk, "%s o(PVP::mk(3), true); o = std::move(r); return o;" % O, oacc)
        add("xmasked_value", "owning=w", mk, "%s o(PVP::mk(3), true); o = r; return o;" % O, oacc)
        add("xmasked_value", "owning=prvalue-proxy", mk, "%s o(PVP::mk(3), true); o = %s; return o;" % (O, fac), oacc)
        add("xmasked_value", "T v=std::move(w).value()", mk, "P o = std::move(r).value(); return o;")
        add("xmasked_value", "T v=std::move(const w).value()", mk, "P o = std::move(c07c::cst(r)).value(); return o;")
        add("xmasked_value", "T v=prvalue-proxy.value()", mk, "P o = %s.value(); return o;" % fac)
        add("xmasked_value", "T v=std::move(w)", mk, "P o = std::move(r); return o;")
        add("xmasked_value", "v=std::move(w).value()", mk, "P o = PVP::mk(3); o = std::move(r).value(); return o;")
        # ---- xcomplex
        RT = "xtl::xcomplex<%s, %s, false>" % (CQ, CQ)
        fac = "%s(%s, %s)" % (RT, X, X2)
        mk = "return %s;" % fac
        O = "xtl::xcomplex<P, P, false>"
        for part, which in (("real", 0), ("imag", 1)):
            cacc = "return o.%s();" % part
            add("xcomplex", "owning(std::move(w)).%s" % part, mk, "%s o(std::move(r)); return o;" % O, cacc, which, 2)
            add("xcomplex", "owning(w).%s" % part, mk, "%s o(r); return o;" % O, cacc, which, 2)
            add("xcomplex", "owning(prvalue-proxy).%s" % part, mk, "%s o(%s); return o;" % (O, fac), cacc, which, 2)
            add("xcomplex", "owning=std::move(w).%s" % part, mk, "%s o(PVP::mk(3), PVP::mk(4)); o = std::move(r); return o;" % O, cacc, which, 2)
            add("xcomplex", "owning=w.%s" % part, mk, "%s o(PVP::mk(3), PVP::mk(4)); o = r; return o;" % O, cacc, which, 2)
            add("xcomplex", "T v=std::move(w).%s()" % part, mk, "P o = std::move(r).%s(); return o;" % part, "return o;", which)
            add("xcomplex", "T v=std::move(const w).%s()" % part, mk, "P o = std::move(c07c::cst(r)).%s(); return o;" % part, "return o;", which)
            add("xcomplex", "T v=prvalue-proxy.%s()" % part, mk, "P o = %s.%s(); return o;" % (fac, part), "return o;", which)
            add("xcomplex", "T v=%s(std::move(w))" % part, mk, "P o = xtl::%s(std::move(r)); return o;" % part, "return o;", which)
            add("xcomplex", "owning(std::move(w).real(),std::move(w).imag()).%s" % part, mk,
                "%s o(std::move(r).real(), std::move(r).imag()); return o;" % O, cacc, which, 2)
        # Not enumerated on purpose: move-ASSIGNMENT between two reference-closure wrappers of the same specialization
        # (w = std::move(r)). The statement says that assignment writes through and never rebinds; it does not say that the
        # source's referent is left untouched (xclosure_wrapper's move-assignment swaps the two referents by design, and
        # xcomplex<T&,T&> move-assigns them), so "the source original is unchanged" would demand more than the property states.
    ids = set()
    for c in out:
        assert c.id not in ids, c.id
        ids.add(c.id)
    return out


# committed: ill-formed on the pinned tree (kind, form) -> reason; applies to both closures unless a closure is named
_PRIV = "xcomplex::operator= reads the private members of another specialization"
_NOCONST = "xclosure_wrapper<T>/xclosure_pointer<T> can only be built from a T&& or a T&, not from a const T& (nor from a wrapper converting to one)"
KNOWN_ILL_FORMED = {
    ("xcomplex", "owning=std::move(w).real"): _PRIV,
    ("xcomplex", "owning=std::move(w).imag"): _PRIV,
    ("xcomplex", "owning=w.real"): _PRIV,
    ("xcomplex", "owning=w.imag"): _PRIV,
    ("closure_pointer", "owning(std::move(p))"): "xclosure_pointer<T> has no constructor from another xclosure_pointer",
    ("proxy_wrapper", "xproxy_wrapper<T>(std::move(w))"): "xproxy_wrapper_impl<T>(T&&) cannot bind the T& a reference wrapper converts to (no copy is made either)",
    ("closure", "owning(std::move(w))", "const T&"): _NOCONST,
    ("closure", "owning(w)", "const T&"): _NOCONST,
    ("closure", "owning(prvalue-wrapper)", "const T&"): _NOCONST,
    ("proxy_wrapper", "owning(std::move(w))", "const T&"): _NOCONST,
    ("proxy_wrapper", "owning(w)", "const T&"): _NOCONST,
    ("proxy_wrapper", "owning(prvalue-wrapper)", "const T&"): _NOCONST,
    ("closure_pointer", "owning(*std::move(p))", "const T&"): _NOCONST,
}


def listed(c, payload_tag):
    return (c.kind, c.form) in KNOWN_ILL_FORMED or (c.kind, c.form, c.closure) in KNOWN_ILL_FORMED or (c.kind, c.form, c.closure, payload_tag) in KNOWN_ILL_FORMED


def reason(c):
    for k in ((c.kind, c.form), (c.kind, c.form, c.closure)):
        if k in KNOWN_ILL_FORMED:
            return KNOWN_ILL_FORMED[k]
    return ""


def cstr(s):
    return '"' + s.replace("\\", "\\\\").replace('"', '\\"') + '"'


def tu(cs, payload_tag, payload_type):
    s = "// C07 conversion cases, payload %s (%d cases)\n" % (payload_type, len(cs))
    s += '#include "conv_common.hpp"\n#include <cstring>\n'
    s += "typedef %s P;\ntypedef c07c::PV<P> PVP;\n" % payload_type
    for i, c in enumerate(cs):
        s += "static void case%d()\n{\n" % i
        s += "    static const c07c::case_info ci = {%s, %s, %s, %s, %s};\n" % (cstr(c.id), cstr(c.kind), cstr(c.form), cstr(c.closure), cstr(payload_tag))
        s += "    c07c::conv_case<P>(ci, %d, %d,\n" % (c.which, c.norig)
        s += "        [](P& x, P& x2, bool& f) { (void)x2; (void)f; %s },\n" % c.mk
        s += "        [](auto& r, P& x, P& x2, bool& f) { (void)x; (void)x2; (void)f; %s },\n" % c.op
        s += "        [](auto& o) -> P& { %s });\n}\n" % c.acc
    s += "int main(int argc, char** argv)\n{\n    const char* only = argc > 2 && !std::strcmp(argv[1], \"--only\") ? argv[2] : nullptr;\n"
    for i, c in enumerate(cs):
        s += "    if (!only || !std::strcmp(only, %s)) case%d();\n" % (cstr(c.id), i)
    s += '    vf::stat("evaluations", c07c::g_cases);\n    vf::stat("conversion_cases", c07c::g_cases);\n    vf::stat("distinct_nontrivial", c07c::g_nontrivial);\n'
    s += '    vf::smax("max_copies_taken_from_the_originals", c07c::g_max_copies);\n'
    if cs:
        s += "    if (!only) vf::sample(%s);\n" % cstr("conversion [%s]: reference wrapper `%s`, then `%s`: the originals must keep their value (never moved from), the result is equal and independent"
                                               % (payload_type, cs[0].mk, cs[min(6, len(cs) - 1)].op))
    s += "    vf::done();\n    return 0;\n}\n"
    return s


if __name__ == "__main__":
    cs = cases()
    print(len(cs), "cases x", len(PAYLOADS), "payloads")
