"""C07 closures alias lvalues and own rvalues.

(parts added later: conversion matrix gen_conv.py, pointer payloads gen_ptr.py, temporary wrappers gen_tmp.py, reference-like
payloads gen_nest.py - generated case matrices, one program per payload / shard, every case replayable on its own)

static part : gen_static.py holds the reference rule and emits one type identity per (trait / factory / accessor, source
              form, payload type); the compiler is the executor (table programs; every failing row is confirmed and replayed
              as a one-assert static_assert translation unit).
dynamic part: dyn.cpp (13 wrapper kinds, one binary each) x source category x payload x EVERY operation sequence of
              length <= L, judged by a cell model + addresses + copy counters + a lifetime registry + AddressSanitizer;
              misc.cpp: bitset element references and forward_sequence.
              swapx.cpp: swap over every referent-designating wrapper / proxy kind x every swap spelling the kind offers (4 programs).
"""
import hashlib
import os
import re
import subprocess
import sys

import vlib

HERE = os.path.dirname(os.path.abspath(__file__))
sys.path.insert(0, HERE)
import gen_static  # noqa: E402
import gen_conv  # noqa: E402
import gen_ptr  # noqa: E402
import gen_tmp  # noqa: E402
import gen_nest  # noqa: E402

LEVEL = "exploration"
DYN = os.path.join(HERE, "dyn.cpp")
MISC = os.path.join(HERE, "misc.cpp")
SWAPX = os.path.join(HERE, "swapx.cpp")
NSWAPX = 4   # swapx.cpp is built as 4 programs (-DSWAPX_PART): {closure/proxy_wrapper, xcomplex, bitset references, optional-sequence proxies}, optional, masked_value, bit-reference flags
GEN = os.path.join(vlib.BUILD, "C07")
NKINDS = 13
KIND_NAMES = ["closure", "const_closure", "closure_pointer", "const_closure_pointer", "proxy_wrapper", "optional(v,flag&)", "optional(v,flag&&)",
              "optional(v&,FLAG)", "masked_value(v,flag&)", "masked_value(v,flag&&)", "masked_value(v&,FLAG)", "xcomplex<closure,T&>(real)",
              "xcomplex<T&,closure>(imag)"]
# use-after-return detection on: a closure that keeps a pointer into a dead frame is reported by the sanitizer
ENV = {"ASAN_OPTIONS": vlib.ASAN_ENV + ":detect_stack_use_after_return=1"}


# ------------------------------------------------------------------------------------------- dynamic part
def build_dyn(kind, std="c++14"):
    return vlib.compile_cxx(DYN, "c07-dyn%d-%s" % (kind, std.replace("+", "x")), std=std, opt="-O0", san="asan",
                            flags=["-I" + HERE], defines=["C07_KIND=%d" % kind])


def build_misc(std="c++14"):
    return vlib.compile_cxx(MISC, "c07-misc-%s" % std.replace("+", "x"), std=std, opt="-O0", san="asan", flags=["-I" + HERE])


def build_swapx(part, std="c++14"):
    return vlib.compile_cxx(SWAPX, "c07-swapx%d-%s" % (part, std.replace("+", "x")), std=std, opt="-O0", san="asan", flags=["-I" + HERE],
                            defines=["SWAPX_PART=%d" % part])


def build_failure(ctx, kind, std, ex):
    """the committed operations of a wrapper kind no longer compile against the tree: the mapping does not exist for them"""
    name = "swap-kinds-part%d" % (kind - 100) if kind >= 100 else KIND_NAMES[kind] if kind >= 0 else "bitset-reference+forward_sequence"
    errs = [l.strip() for l in str(ex).splitlines() if "error" in l and "HarnessError" not in l]
    first = errs[0][-500:] if errs else str(ex)[-500:]
    ctx.violation("C07/%s/build/ill-formed" % name,
                  "the operations the rule requires of %s (committed capability table of the harness) no longer compile against the tree under -std=%s: %s" % (name, std, first),
                  harness="build", args=["build", str(kind), std])


def list_groups(binary):
    r = subprocess.run([binary, "--list"], stdout=subprocess.PIPE, stderr=subprocess.PIPE, text=True, timeout=60)
    if r.returncode != 0:
        raise vlib.HarnessError("cannot list groups of %s: %s" % (binary, r.stderr[-500:]))
    out = []
    for line in r.stdout.splitlines():
        name, _, flag = line.rpartition(" ")
        out.append((name, flag == "1"))
    return out


def run_dynamic(ctx, maxlen, bit_len, stds):
    jobs = []
    skipped = []

    def guarded(desc, fn, need=15):
        def j():
            if ctx.time_left() < need:
                skipped.append(desc)
                return
            fn()
        return j

    # build everything in parallel first (compilation dominates the quick tier)
    bins = {}

    def mk(kind, std):
        def b():
            try:
                bins[(kind, std)] = build_dyn(kind, std)
            except vlib.HarnessError as ex:
                build_failure(ctx, kind, std, ex)
        return b

    def mkmisc():
        try:
            bins["misc"] = build_misc()
        except vlib.HarnessError as ex:
            build_failure(ctx, -1, "c++14", ex)

    def mkswapx(part, std):
        def b():
            try:
                bins[("swapx", part, std)] = build_swapx(part, std)
            except vlib.HarnessError as ex:
                build_failure(ctx, 100 + part, std, ex)
        return b

    vlib.parallel([mk(k, s) for s in stds for k in range(NKINDS)] + [mkmisc] + [mkswapx(p, s) for s in stds for p in range(NSWAPX)])

    nsh = 8 if bit_len >= 4 else 2
    for k in range(nsh if "misc" in bins else 0):
        jobs.append(guarded("bitset references shard %d" % k,
                            lambda k=k: ctx.run_harness(bins["misc"], ["--part", "bitref", "--len", str(bit_len), "--shard", str(k), str(nsh)], env=ENV, tag="misc")))
    if "misc" in bins:
        jobs.append(guarded("swap under aliasing", lambda: ctx.run_harness(bins["misc"], ["--part", "swapalias"], env=ENV, tag="misc")))
        jobs.append(guarded("forward_sequence", lambda: ctx.run_harness(bins["misc"], ["--part", "fwdseq"], env=ENV, tag="misc")))
    # swap over every referent-designating wrapper / proxy kind (NOTES.md section 12): one job per family of each program
    for std in stds:
        for part in range(NSWAPX):
            if ("swapx", part, std) not in bins:
                continue
            binary = bins[("swapx", part, std)]
            r = subprocess.run([binary, "--list"], stdout=subprocess.PIPE, stderr=subprocess.PIPE, text=True, timeout=60)
            if r.returncode != 0:
                raise vlib.HarnessError("cannot list the families of %s: %s" % (binary, r.stderr[-500:]))
            for fam in r.stdout.split():
                jobs.append(guarded("swap kinds: %s (%s)" % (fam, std),
                                    lambda binary=binary, part=part, fam=fam, std=std: ctx.run_harness(
                                        binary, ["--swapx", str(part), "--family", fam] + (["--deep"] if ctx.tier != "quick" else []), env=ENV, tag="swapx-" + std)))
    for std in stds:
        for kind in range(NKINDS):
            if (kind, std) not in bins:
                continue
            binary = bins[(kind, std)]
            for name, constructible in list_groups(binary):
                tag = "dyn%d-%s" % (kind, std)
                L = maxlen if std == stds[0] else min(maxlen, 3)

                def run(binary=binary, name=name, tag=tag, L=L):
                    dl = max(10, int(ctx.time_left() - 25))
                    ctx.run_harness(binary, ["--group", name, "--len", str(L), "--deadline", str(dl)], env=ENV, tag=tag)
                jobs.append(guarded("%s %s %s" % (KIND_NAMES[kind], name, std), run))
    # longest jobs (many operations, tracked payload) are spread by the pool; order does not affect coverage
    vlib.parallel(jobs, workers=max(4, vlib.NCPU - 2))
    for d in skipped:
        ctx.cap("deadline: not run: " + d)


# ------------------------------------------------------------------------------------------- static part
def _write(path, text):
    os.makedirs(os.path.dirname(path), exist_ok=True)
    old = None
    if os.path.exists(path):
        with open(path) as f:
            old = f.read()
    if old != text:
        tmp = path + ".tmp%d" % os.getpid()
        with open(tmp, "w") as f:
            f.write(text)
        os.replace(tmp, path)


def try_one(e, cxx, std):
    """compile the one-assert TU of entry e. returns (status, detail): ok | wrong-type | ill-formed"""
    h = hashlib.sha256((e.id + cxx + std).encode()).hexdigest()[:16]
    src = os.path.join(GEN, "one_%s.cpp" % h)
    _write(src, gen_static.one_assert_tu(e))
    cmd = [cxx, "-std=" + std, "-I" + vlib.INCLUDE, "-I" + os.path.join(vlib.VERIF, "engine"), "-I" + HERE, "-fsyntax-only", src]
    r = vlib.sh(cmd)
    if r.returncode == 0:
        return "ok", ""
    errs = [l for l in r.stderr.splitlines() if "error" in l]
    hard = [l for l in errs if "C07 rule violated" not in l and "static assertion failed" not in l and "static_assert failed" not in l]
    first = (hard or errs or [r.stderr[-300:]])[0]
    first = first.replace(src, "<one-assert TU>")
    if errs and not hard:
        return "wrong-type", first[-400:]
    return "ill-formed", first[-400:]


def judge_one(ctx, e, cxx, std, known, source):
    """compile one entry on its own and turn the outcome into a violation / note"""
    st, detail = try_one(e, cxx, std)
    listed = gen_static.is_listed(known, e.id, cxx, std)
    args = ["static", e.id, std, cxx]
    if st == "ok":
        if listed:
            ctx.note("capability: %s is listed as ill-formed under %s -std=%s but compiles now and satisfies the rule" % (e.id, cxx, std))
        ctx.stat("static_identities_checked", 1)
        ctx.stat("evaluations", 1)
        return
    if st == "wrong-type":
        ctx.stat("static_identities_checked", 1)
        ctx.stat("evaluations", 1)
        ctx.violation(e.sig("wrong-type"), "%s [%s -std=%s]: the type is not one the rule accepts (%s): %s" % (e.id, cxx, std, " | ".join(e.accept), detail),
                      harness="static", args=args)
        return
    if listed:
        ctx.stat("known_ill_formed_probes", 1)
        ctx.note("capability gap (no executions, not a violation): %s is ill-formed (%s -std=%s): %s" % (e.id, cxx, std, known[e.id][1]))
        return
    ctx.violation(e.sig("ill-formed"), "%s [%s -std=%s]: the expression no longer compiles (it is not in the committed list of ill-formed instantiations): %s" % (e.id, cxx, std, detail),
                  harness="static", args=args)


def run_static(ctx, fronts):
    es = gen_static.entries()
    known = gen_static.known_ill_formed()
    for k in known:
        if not any(e.id == k for e in es):
            raise vlib.HarnessError("capability manifest names an unknown entry: " + k)
    counted = set()
    for i in (3, 130, 401):
        ctx.sample("static identity: %s must be one of {%s}" % (es[i].observed, " | ".join(es[i].accept)))
    for cxx, std in fronts:
        if ctx.time_left() < 30:
            ctx.cap("deadline: static identities not checked with %s -std=%s" % (cxx, std))
            continue
        probes = [e for e in es if gen_static.is_listed(known, e.id, cxx, std)]
        rest = [e for e in es if not gen_static.is_listed(known, e.id, cxx, std)]
        groups = {}
        for e in rest:
            groups.setdefault(e.hdr, []).append(e)
        # split the large groups so that the table programs compile in parallel
        tables = []
        for g, lst in sorted(groups.items()):
            n = max(1, (len(lst) + 89) // 90)
            for i in range(n):
                tables.append(("%s%d" % (g, i), lst[i::n]))
        fallback = []

        def do_table(tag, lst):
            src = os.path.join(GEN, "static_%s_%s_%s.cpp" % (tag, cxx.replace("+", "x"), std.replace("+", "x")))
            _write(src, gen_static.table_tu(lst, tag))
            try:
                binary = vlib.compile_cxx(src, "c07-st-%s" % tag, std=std, opt="-O0", san="none", compiler=cxx, flags=["-I" + HERE],
                                          defines=['C07_STD="%s"' % std, 'C07_CXX="%s"' % cxx])
            except vlib.HarnessError:
                # some row is ill-formed (hard error): judge the rows of this table one by one
                fallback.extend(lst)
                return
            ctx.run_harness(binary, [], tag="static")

        vlib.parallel([(lambda t=t, l=l: do_table(t, l)) for t, l in tables] +
                      [(lambda e=e: judge_one(ctx, e, cxx, std, known, "probe")) for e in probes])
        if fallback:
            ctx.note("%d static rows were judged one by one because their table did not compile (%s -std=%s)" % (len(fallback), cxx, std))
            vlib.parallel([(lambda e=e: judge_one(ctx, e, cxx, std, known, "fallback")) for e in fallback])
        for e in es:
            if e.nontrivial and e.id not in counted:
                counted.add(e.id)
    ctx.stat("distinct_nontrivial", len(counted))
    ctx.stat("static_entries", len(es))


# ------------------------------------------------------------------------------------------- generated case matrices (conversions, pointer payloads)
MATRICES = {"conv": gen_conv, "ptr": gen_ptr, "tmp": gen_tmp, "nest": gen_nest}


def mx_sig(which, c, kind):
    if which == "conv":
        return "C07/%s/%s:%s/%s" % (c.kind, c.form, c.closure, kind)
    return "C07/%s(%s)/%s/%s" % (c.kind, c.closure, c.form, kind)


def mx_build(which, cs, tag, ptype, name, std="c++14"):
    src = os.path.join(GEN, "%s_%s_%s.cpp" % (which, name, tag))
    _write(src, MATRICES[which].tu(cs, tag, ptype))
    return vlib.compile_cxx(src, "c07-%s-%s-%s" % (which, name, tag), std=std, opt="-O0", san="asan", flags=["-I" + HERE])


def mx_syntax(which, c, tag, ptype):
    h = hashlib.sha256((which + c.id + tag).encode()).hexdigest()[:12]
    src = os.path.join(GEN, "%s_syn_%s.cpp" % (which, h))
    _write(src, MATRICES[which].tu([c], tag, ptype))
    r = vlib.sh(["g++", "-std=c++14", "-I" + vlib.INCLUDE, "-I" + os.path.join(vlib.VERIF, "engine"), "-I" + HERE, "-fsyntax-only", src])
    if r.returncode == 0:
        return True, ""
    errs = [l.strip() for l in r.stderr.splitlines() if "error" in l]
    return False, (errs[0] if errs else r.stderr)[-400:]


def mx_ill_formed(ctx, which, c, tag, ptype, first):
    gen = MATRICES[which]
    if hasattr(gen, "ill_formed_is_gap") and gen.ill_formed_is_gap(c, tag):
        ctx.stat("ill_formed_cases_of_payloads_overloading_address_of", 1)
        ctx.note("capability gap (no executions, not a violation): %s case %s [payload %s] does not compile; the payload overloads unary operator& "
                 "(see gen_nest.ill_formed_is_gap): %s" % (which, c.id if c.depth <= 1 else c.kind + "|" + c.closure + "|<a longer sequence>", ptype, first.split("error:")[-1].strip()[:200]))
        return
    ctx.violation(mx_sig(which, c, "ill-formed"),
                  "%s case %s [payload %s] no longer compiles (it is not in the committed list of ill-formed forms): %s" % (which, c.id, ptype, first),
                  harness=which, args=[which, c.id, tag])


def mx_one(ctx, which, c, tag, ptype):
    """build and run a single case; ill-formed: note if listed, violation otherwise"""
    gen = MATRICES[which]
    h = hashlib.sha256(c.id.encode()).hexdigest()[:12]
    try:
        binary = mx_build(which, [c], tag, ptype, "one" + h)
    except vlib.HarnessError as ex:
        errs = [l.strip() for l in str(ex).splitlines() if "error" in l and "HarnessError" not in l]
        first = (errs[0] if errs else str(ex))[-400:]
        if gen.listed(c, tag):
            ctx.stat("known_ill_formed_probes", 1)
            ctx.note("capability gap (no executions, not a violation): %s case %s [%s] is ill-formed: %s" % (which, c.id, ptype, gen.reason(c)))
        else:
            mx_ill_formed(ctx, which, c, tag, ptype, first)
        return
    if gen.listed(c, tag):
        ctx.note("capability: %s case %s [%s] is listed as ill-formed but compiles now; it was executed and judged" % (which, c.id, ptype))
    ctx.run_harness(binary, [], env=ENV, tag=which)


def run_matrix(ctx, which):
    gen = MATRICES[which]
    cs = gen.cases()
    jobs = []
    for n, (tag, ptype) in enumerate(gen.PAYLOADS):
        good = [c for c in cs if not gen.listed(c, tag)]
        probes = [c for c in cs if gen.listed(c, tag)]

        def table(tag=tag, ptype=ptype, good=good):
            try:
                binary = mx_build(which, good, tag, ptype, "all")
            except vlib.HarnessError:
                # some case no longer compiles: find the ill-formed ones with a syntax-only pass, run the rest together
                ctx.note("the combined %s program for %s did not compile: every case was compiled on its own" % (which, ptype))
                res = vlib.parallel([(lambda c=c: mx_syntax(which, c, tag, ptype)) for c in good], workers=8)
                still = []
                for c, (ok, first) in zip(good, res):
                    if ok:
                        still.append(c)
                    else:
                        mx_ill_formed(ctx, which, c, tag, ptype, first)
                binary = mx_build(which, still, tag, ptype, "rest")
            ctx.run_harness(binary, [], env=ENV, tag=which)
        jobs.append(table)
        # the committed ill-formed forms: probed with the first payload in the quick tier, with every payload in the thorough tier
        if n == 0 or ctx.tier != "quick":
            jobs += [(lambda c=c, tag=tag, ptype=ptype: mx_one(ctx, which, c, tag, ptype)) for c in probes]
    vlib.parallel(jobs, workers=6)


# ------------------------------------------------------------------------------------------- sharded case matrices (temporary wrappers, reference-like payloads)
SHARD = 400


def all_cases(gen, tag, tier="thorough"):
    return gen.cases_for(tag, tier) if hasattr(gen, "cases_for") else gen.cases()


def _case_lines(text, n):
    """line number (1-based) at which case i starts in a generated translation unit"""
    starts = {}
    for ln, line in enumerate(text.splitlines(), 1):
        m = re.match(r"static void case(\d+)\(\)", line)
        if m:
            starts[int(m.group(1))] = ln
    return [starts[i] for i in range(n)]


def shard_build(ctx, which, chunk, tag, ptype, name, std):
    """build one shard; if it does not compile, find the ill-formed cases (first through the line numbers in the diagnostics, each
    suspect confirmed on its own; then, if that does not converge, every case on its own), report them, build the rest"""
    gen = MATRICES[which]
    try:
        return mx_build(which, chunk, tag, ptype, name, std)
    except vlib.HarnessError:
        pass
    ctx.note("the %s program %s for %s did not compile: its ill-formed cases were looked for one by one" % (which, name, ptype))
    remaining = list(chunk)
    for rnd in range(2):
        src = os.path.join(GEN, "%s_%s_%s_syn%d.cpp" % (which, name, tag, rnd))
        text = gen.tu(remaining, tag, ptype)
        _write(src, text)
        r = vlib.sh(["g++", "-std=" + std, "-I" + vlib.INCLUDE, "-I" + os.path.join(vlib.VERIF, "engine"), "-I" + HERE, "-fsyntax-only", src])
        if r.returncode == 0:
            break
        starts = _case_lines(text, len(remaining))
        hit = set(int(m) for m in re.findall(re.escape(src) + r":(\d+):", r.stderr))
        suspects = [c for i, c in enumerate(remaining) if any(starts[i] <= ln < starts[i] + 5 for ln in hit)]
        res = vlib.parallel([(lambda c=c: mx_syntax(which, c, tag, ptype)) for c in suspects], workers=8) if suspects else []
        bad = [(c, first) for c, (ok, first) in zip(suspects, res) if not ok]
        if not bad:
            # the diagnostics did not lead to a case: every case on its own
            res = vlib.parallel([(lambda c=c: mx_syntax(which, c, tag, ptype)) for c in remaining], workers=8)
            bad = [(c, first) for c, (ok, first) in zip(remaining, res) if not ok]
            for c, first in bad:
                mx_ill_formed(ctx, which, c, tag, ptype, first)
            gone = set(c.id for c, _ in bad)
            remaining = [c for c in remaining if c.id not in gone]
            break
        for c, first in bad:
            mx_ill_formed(ctx, which, c, tag, ptype, first)
        gone = set(c.id for c, _ in bad)
        remaining = [c for c in remaining if c.id not in gone]
    if not remaining:
        return None
    try:
        return mx_build(which, remaining, tag, ptype, name + "r", std)
    except vlib.HarnessError:
        res = vlib.parallel([(lambda c=c: mx_syntax(which, c, tag, ptype)) for c in remaining], workers=8)
        for c, (ok, first) in zip(remaining, res):
            if not ok:
                mx_ill_formed(ctx, which, c, tag, ptype, first)
        remaining = [c for c, (ok, _) in zip(remaining, res) if ok]
        return mx_build(which, remaining, tag, ptype, name + "rr", std) if remaining else None


def run_sharded(ctx, which, stds=("c++14",)):
    gen = MATRICES[which]
    jobs = []
    for tag, ptype in gen.payloads(ctx.tier):
        cs = all_cases(gen, tag, ctx.tier)
        good = [c for c in cs if not gen.listed(c, tag)]
        probes = [c for c in cs if gen.is_probe(c, tag, ctx.tier)]
        for std in stds:
            for i in range(0, len(good), SHARD):
                def shard(chunk=good[i:i + SHARD], tag=tag, ptype=ptype, name="s%d-%s" % (i // SHARD, std.replace("+", "x")), std=std):
                    if ctx.time_left() < 30:
                        ctx.cap("deadline: not run: %s cases %s of %s (-std=%s)" % (which, name, ptype, std))
                        return
                    binary = shard_build(ctx, which, chunk, tag, ptype, name, std)
                    if binary:
                        ctx.run_harness(binary, [], env=ENV, tag=which)
                jobs.append(shard)
        jobs += [(lambda c=c, tag=tag, ptype=ptype: mx_one(ctx, which, c, tag, ptype)) for c in probes]
    vlib.parallel(jobs, workers=6)


# ------------------------------------------------------------------------------------------- entry points
def _lockify(ctx):
    """the harnesses run in threads: make the collecting methods of ctx atomic so that the measured counts are exact"""
    import threading
    lock = threading.Lock()
    for name in ("stat", "smax", "sample", "note", "violation", "cap"):
        orig = getattr(ctx, name)

        def wrapped(*a, _orig=orig, **kw):
            with lock:
                return _orig(*a, **kw)
        setattr(ctx, name, wrapped)


def run(ctx):
    os.makedirs(GEN, exist_ok=True)
    _lockify(ctx)
    quick = ctx.tier == "quick"
    fronts = [("g++", "c++14")] if quick else [("g++", "c++14"), ("g++", "c++17"), ("g++", "c++20"), ("clang++", "c++14"), ("clang++", "c++17")]
    maxlen = 4 if quick else 5
    bit_len = 3 if quick else 4
    stds = ["c++14"] if quick else ["c++14", "c++20"]
    # both parts at once: the static tables compile while the dynamic binaries compile
    mstds = ("c++14",) if quick else ("c++14", "c++17")
    parts = {"static": lambda: run_static(ctx, fronts), "dyn": lambda: run_dynamic(ctx, maxlen, bit_len, stds), "conv": lambda: run_matrix(ctx, "conv"),
             "ptr": lambda: run_matrix(ctx, "ptr"), "tmp": lambda: run_sharded(ctx, "tmp", mstds), "nest": lambda: run_sharded(ctx, "nest", mstds)}
    # C07_PARTS=tmp,nest runs some parts alone (measurements, development); such a run is recorded as not exhaustive
    sel = [p for p in os.environ.get("C07_PARTS", "").split(",") if p]
    for p in sel:
        if p not in parts:
            raise vlib.HarnessError("C07_PARTS: unknown part %s (known: %s)" % (p, ", ".join(parts)))
    if sel:
        ctx.cap("C07_PARTS=%s: only these parts were run" % ",".join(sel))
    # all parts at once: the static tables compile while the dynamic binaries compile
    vlib.parallel([f for name, f in parts.items() if not sel or name in sel], workers=6)
    ctx.rule = (
        "STATIC: every type identity generated by gen_static.py (closure_type_t, const_closure_type_t, ptr_closure_type_t, const_ptr_closure_type_t over "
        "{T, const T, T&, const T&, T&&, const T&&} x {int, Counted, MoveOnly, int*}; apply_cv_t and detail::forward_type_t over all 4 cv x 3 ref forms; return types of closure, "
        "const_closure, closure_pointer, const_closure_pointer, proxy_wrapper, optional(v,flag), masked_value(v[,flag]), forward_sequence<R,A> over the 5 expression categories; "
        "&/const&/&&/const&&-qualified value() has_value() visible() real() imag() get() operator* operator-> and operator& of every wrapper over the closure types {T, const T, T&, const T&}) "
        "is decided by the compiler against the reference rule 'lvalue -> (const) reference/pointer, rvalue -> decayed value, const preserved'; compilers/standards: %s. "
        "DYNAMIC: 13 wrapper kinds x source category {T prvalue, T&, const T&, T&& (heap source), const T&& (heap source), T&& from a frame that has returned} x payload {int, Counted, MoveOnly} x "
        "EVERY sequence of length <= %d over the operations the wrapper offers {read through every accessor, assign rvalue, assign lvalue, assign from a wrapper on the same / another referent, "
        "move-assign from a wrapper, assign from a value wrapper, copy-construct (continue on the copy), move-construct (continue on the new object), swap, &w then write through it, "
        "&std::move(w), write the original/source directly, let the source die}; after every operation every live wrapper, both originals and the source are compared with a cell model "
        "(address of the referent, value, no payload constructed from the original, owned object stored inside the wrapper, flags/second component still designate their originals), the lifetime "
        "registry and AddressSanitizer are polled; every scenario ends with the source destroyed and a full re-read. Bitset references: 2 block types x {bitset, view} x 4 access paths x bit {0,7,8,9} "
        "x 4 patterns x every sequence of length <= %d over 14 operations against a vector<bool> model. forward_sequence: result type x source type x category x size 0..3. "
        "SWAP UNDER ALIASING: {optional, masked_value} x closure combinations with at least one reference closure {(T&,B&),(T&,B),(T,B&)} x value referents {same, distinct} x flag referents "
        "{same, distinct} x equal/different contents x {a.swap(b), b.swap(a), a.swap(a), free swap} x {int, Counted}, and closure(x) against closure(x) / closure(y): swap must exchange the contents of "
        "the designated objects component by component and rebind nothing. "
        "SWAP OVER EVERY REFERENT-DESIGNATING KIND (swapx.cpp, NOTES.md section 12): 104 kinds - closure / proxy_wrapper x {int, double, Counted, MoveOnly} x {lvalue, rvalue source}; "
        "optional(v,f) and masked_value(v,f) x value closure {T, T&} x flag closure {F, F&} x flag type F in {bool, int, unsigned char, double} x payload {int, Counted}; optional / masked_value whose flag is a bitset "
        "element reference held by value (value closure T | T&, block uint8_t | uint64_t); xcomplex<T|T&, T|T&> x T in {double, int}; bitset element references (uint8_t | uint64_t blocks, owning bitset | view, 70 bits, "
        "reached by operator[] / at() / front()-back() / *iterator) and proxy_wrapper of such a reference; element proxies of xoptional_vector<int | Counted> and xoptional_array<int | double, 70> with flag blocks of 64 and 8 bits - "
        "x configuration {second referent equal / different; value referents same | distinct; flag referents same | distinct; flag contents over the WHOLE flag alphabet squared - 0, 1 and truthy values other than 1: "
        "2, -1, 0x80, 3, 0.25, -2.5; bit / element pairs (i,j) over {0,7,8,63,64,69} resp. {0,1,63,64,69} incl. i==j (same block, different blocks, one bit or element through two proxies), all bit / presence combinations, "
        "2 (thorough: 4) backgrounds of the other bits / elements} x swap spelling {a.swap(b), b.swap(a), a.swap(a), using std::swap; swap(a,b) | swap(b,a) | swap(a,a) on lvalues, swap(<temporary>, <temporary>), "
        "swap(lvalue, <temporary>), std::iter_swap} - each spelling only where the kind offers it: a committed capability table, probed at compile time (a spelling that no longer compiles is a violation, a new one is executed) - "
        "x {applied once, applied twice}; oracle: the contents of the two designated cells are exchanged EXACTLY component by component (the very flag value, not its truth value), a cell both designate keeps its content, "
        "every other object / bit / element of the world is untouched, no component designates another object afterwards, a self-swap changes nothing and swapping twice restores the initial state; "
        "registry / AddressSanitizer / leak per scenario; thorough: also -std=c++20. "
        "POINTER PAYLOADS: T in {int*, const int*, Counted*} as value closures (built from a prvalue / an xvalue pointer: the wrapper owns the pointer value) and as reference closures (T*&, T* const&: "
        "the wrapper aliases the pointer variable) of closure, const_closure, proxy_wrapper (get, rvalue get, conversion, assign value, copy/move construct, copy-assign (also from const), move-assign, "
        "member and ADL swap, == / != incl. different pointers to equal pointees, operator& and writing through it, null), closure_pointer, optional, masked_value: 146 forms x 3 payloads; the pointees are "
        "never touched. CONVERSIONS: a reference-closure wrapper built from lvalues (closure, proxy_wrapper, closure_pointer, optional, masked_value, xcomplex; closure T& and const T&) used as lvalue, xvalue and "
        "prvalue-proxy source of an owning specialization or value (converting constructors implicit and explicit, converting assignments, &&-qualified accessors and conversion operators, "
        "162 forms) x payload {Counted, heap std::string, std::vector<int>}: the originals keep their value and are never the source of a move, the result is equal and independent. "
        "TEMPORARY WRAPPERS (gen_tmp.py): the WRAPPER itself is the temporary returned by the factory (also: passed on as an xvalue, a named lvalue / const lvalue / xvalue that stays alive): "
        "{closure, const_closure, proxy_wrapper, optional(v,true), masked_value(v,true), masked_value(v), xcomplex real part, xcomplex imaginary part, closure_pointer} x closure source "
        "{T prvalue, T&&, const T&&, T&, const T&} x what the wrapper hands out {implicit conversion, get(), value(), xtl::value(), value_or(), real(), imag(), xtl::real(), xtl::imag(), operator*, operator->} "
        "x the thing it initialises {const T& (lifetime extension), two such references at once, a const T& member of an aggregate, const T& from the temporary passed on as an xvalue, T&&, auto&&, T v = , T v( ), "
        "v = , by-value return, a const T& parameter, const T& from a named wrapper in 3 value categories}: %d forms x payload {%s}; the result is judged AFTER the full-expression, when the wrapper "
        "temporary is gone: it designates a live object (lifetime registry; AddressSanitizer shadow memory queried, nothing read through a dead reference) outside the dead wrapper's bytes, "
        "holding the value; built from an rvalue: independent of the source object; built from an lvalue: the original or a copy, the original untouched. Static rows say the same for what the type system shows "
        "of an implicit conversion (std::is_convertible<wrapper in 3 value categories, T& | const T& | T> over the 4 closure types x {int, Counted, int*}, xmasked_value, xproxy_wrapper_impl: 111 rows). "
        "REFERENCE-LIKE PAYLOADS (gen_nest.py): the payload is itself a handle whose copy aliases, whose assignment writes through and whose swap is its own function found by ADL - "
        "{xclosure_wrapper<int&> (closure(closure(x))), xclosure_wrapper<Counted&>, a proxy class hv::View<int> with an ADL swap} x outer wrapper {closure of the handle rvalue / lvalue, const_closure, proxy_wrapper, "
        "masked_value, optional, closure_pointer of the handle rvalue / lvalue} x EVERY sequence of length <= %d (closure kinds) / <= %d (others) over {member swap, ADL swap, xtl::swap, move-assign, copy-assign from const, "
        "assign value, write through b, copy-construct + write, move-construct + write, &a + write} that does not use a moved-from wrapper; after every step the two ultimate referents, what both wrappers read and "
        "which object both handles designate are compared with a cell model evaluated in the generator (swap exchanges x and y, a = std::move(b) gives x the value of y and leaves y unspecified, nothing rebinds). "
        "distinct_nontrivial = static identities whose accepted type differs from the input type (counted once per identity, not per compiler) + dynamic scenarios in which at least one "
        "write changed the model state (so aliasing and ownership were actually distinguished) + conversion cases whose result was verified independent by writing both sides; "
        "distinct_outcome_traces counts distinct observation traces"
        % (", ".join("%s -std=%s" % f for f in fronts), maxlen, bit_len,
           len([c for c in gen_tmp.cases() if not gen_tmp.listed(c, "int")]), ", ".join(p for _, p in gen_tmp.payloads(ctx.tier)), 2 if quick else 3, 1 if quick else 2))
    ctx.assumptions += [
        "the rule of the property statement is the oracle for types; where it leaves a choice (const_ variants on rvalues: T or const T; a const wrapper over a T& closure: T& or const T&; "
        "by-value returns: T or const T) both answers are accepted",
        "for wrappers built from an rvalue the number of copies/moves made is NOT judged (the statement allows 'an independent copy'); exactly one owned object must remain and it must be stored inside the wrapper",
        "the value left in a moved-from payload / in the right-hand wrapper after move-assignment is not judged",
        "instantiations that are ill-formed on the pinned tree have no executions: they are listed in gen_static.known_ill_formed() / the caps tables of dyn.cpp, probed every run and reported as notes",
        "payload types: int, a copy/move-counting class and a move-only class; sequences longer than the bound, other payloads, volatile closures and arrays/functions as T are outside the bound",
        "AddressSanitizer (use-after-scope, use-after-return, heap-use-after-free) decides dangling references to int payloads; for class payloads the address registry decides independently",
        "temporary wrappers: only expressions in which the LIBRARY decides between a value and a reference are judged; C++ itself makes `const T& r = *closure_pointer(T())`, a reference bound to an xvalue of the is-a "
        "xproxy_wrapper_impl<T>, static_cast<const T&>(temporary wrapper) and references returned through a function dangle on any implementation: those forms are not enumerated",
        "reference-like payloads (gen_nest.py): xoptional::swap and `using std::swap; swap(a, b)` on two xproxy_wrapper_impl objects are not in the operation alphabet of THAT part (NOTES.md section 11); "
        "they are enumerated by the swap-kinds part (section 12) for the handles the library itself produces (bitset element references, optional-sequence proxies)",
        "swap kinds: a swap spelling a kind does not offer on the pinned tree (no member swap; `using std::swap; swap` not viable or ambiguous; nothing accepts temporaries) has no executions: it is listed in the expected() table "
        "of the kind in swapx.cpp, probed at compile time in every run and counted (swap_spellings_not_offered_by_the_kind); swaps between wrappers of DIFFERENT closure types (xmasked_value's member template: ill-formed, "
        "private access), const closures and components that cross-alias (a's value and b's flag one object) are outside the alphabet",
    ]


def replay(ctx, rec):
    args = list(rec["args"])
    if args and args[0] == "static":
        _, eid, std, cxx = args[:4]
        es = [e for e in gen_static.entries() if e.id == eid]
        if not es:
            raise vlib.HarnessError("unknown static entry " + eid)
        os.makedirs(GEN, exist_ok=True)
        judge_one(ctx, es[0], cxx, std, gen_static.known_ill_formed(), "replay")
        return
    if args and args[0] in MATRICES:
        os.makedirs(GEN, exist_ok=True)
        gen = MATRICES[args[0]]
        cs = [c for c in all_cases(gen, args[2]) if c.id == args[1]]
        if not cs:
            raise vlib.HarnessError("unknown %s case %s" % (args[0], args[1]))
        tag = args[2]
        mx_one(ctx, args[0], cs[0], tag, dict(gen.PAYLOADS)[tag])
        return
    if args and args[0] == "build":
        kind, std = int(args[1]), args[2]
        try:
            build_swapx(kind - 100, std) if kind >= 100 else build_dyn(kind, std) if kind >= 0 else build_misc(std)
        except vlib.HarnessError as ex:
            build_failure(ctx, kind, std, ex)
        return
    if "--part" in args:
        ctx.run_harness(build_misc(), args, env=ENV, tag="misc")
        return
    if args and args[0] == "--swapx":
        h = rec.get("harness") or ""
        std = h.split("-", 1)[1] if h.startswith("swapx-") else "c++14"
        ctx.run_harness(build_swapx(int(args[1]), std), args, env=ENV, tag=h or "swapx-c++14")
        return
    kind = int(args[args.index("--kind") + 1])
    std = "c++14"
    h = rec.get("harness") or ""
    if h.startswith("dyn") and "-" in h:
        std = h.split("-", 1)[1]
    ctx.run_harness(build_dyn(kind, std), args, env=ENV, tag=h or "dyn")
