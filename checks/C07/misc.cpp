// C07 dynamic part, continued: bitset element references (proxy objects built from an lvalue bitset) and forward_sequence.
//   misc --part bitref --len L            every (block type, access path, bit position, initial pattern, op sequence <= L)
//   misc --part bitref --one B,PATH,POS,PAT,seq   a single scenario (replay)
//   misc --part fwdseq                    every (result type, source type, category, size)
//   misc --part fwdseq --one ID           a single case (replay)
#include <xtl/xclosure.hpp>
#include <xtl/xdynamic_bitset.hpp>
#include <xtl/xmasked_value.hpp>
#include <xtl/xoptional.hpp>
#include <xtl/xsequence.hpp>

#include "c07_payload.hpp"
#include "report.hpp"

#include <array>
#include <cstdint>
#include <cstdio>
#include <memory>
#include <string>
#include <type_traits>
#include <vector>

#include <sys/mman.h>
#include <sys/wait.h>
#include <unistd.h>

using namespace c07;

static char* g_shared = nullptr;
static long long g_eval = 0, g_nontrivial = 0;

// =====================================================================================================================
// bitset references
// =====================================================================================================================
enum BOp { B_READ, B_SET1, B_SET0, B_ASSIGN_SAME, B_ASSIGN_OTHER, B_MOVE_ASSIGN_OTHER, B_COPY, B_MOVE, B_FLIP, B_AND0, B_OR1, B_XOR1,
           B_ADDR_WRITE, B_SRC_FLIP, B_NOPS };
static const char* bop_name[B_NOPS] = {"read", "assign-true", "assign-false", "assign-from-reference-same-bit", "assign-from-reference-other-bit",
                                       "move-assign-from-reference-other-bit", "copy-construct", "move-construct", "flip", "and-false", "or-true", "xor-true",
                                       "address-of-then-write", "flip-bit-in-bitset"};
static const bool bop_write[B_NOPS] = {false, true, true, true, true, true, false, false, true, true, true, true, true, true};

enum BPath { P_INDEX, P_AT, P_FRONTBACK, P_ITER, P_NPATHS };
static const char* bpath_name[P_NPATHS] = {"operator[]", "at()", "front-back", "*iterator"};

template <class B> struct bname;
template <> struct bname<uint8_t> { static const char* get() { return "uint8_t"; } };
template <> struct bname<uint64_t> { static const char* get() { return "uint64_t"; } };

static const size_t NBITS = 10;

template <class BS>
struct BitRun
{
    typedef typename BS::reference R;
    typedef typename BS::const_reference CR;

    BS& b;
    std::vector<bool> m;   // model
    int path; size_t pos, other;
    const std::vector<int>& ops;
    std::string where;
    bool failed = false, constpart;
    bool effective = false;

    BitRun(BS& bs, int path_, size_t pos_, unsigned pat, const std::vector<int>& o, const std::string& w, bool cp)
        : b(bs), m(NBITS), path(path_), pos(pos_), other((pos_ + 3) % NBITS), ops(o), where(w), constpart(cp)
    {
        for (size_t i = 0; i < NBITS; ++i) { m[i] = ((pat >> i) & 1u) != 0; b.set(i, m[i]); }
    }

    void fail(const char* opn, const std::string& kind, const std::string& what)
    {
        if (failed) return;
        failed = true;
        std::string sq;
        for (size_t i = 0; i < ops.size(); ++i) { if (i) sq += ", "; sq += bop_name[ops[i]]; }
        vf::violation(std::string("C07/bitset-reference") + (constpart ? "(const)" : "") + "/" + bpath_name[path] + "/" + opn + "/" + kind,
                      where + ", sequence [" + sq + "], at " + opn + ": " + what, {"--part", "bitref", "--one", g_shared ? g_shared : ""});
    }

    R get(size_t i)
    {
        switch (path)
        {
        case P_AT: return b.at(i);
        case P_FRONTBACK: return i == 0 ? b.front() : b.back();
        case P_ITER: return *(b.begin() + std::ptrdiff_t(i));
        default: return b[i];
        }
    }
    CR cget(size_t i)
    {
        const BS& c = b;
        switch (path)
        {
        case P_AT: return c.at(i);
        case P_FRONTBACK: return i == 0 ? c.front() : c.back();
        case P_ITER: return *(c.begin() + std::ptrdiff_t(i));
        default: return c[i];
        }
    }

    bool check(R& r, CR& cr, const char* opn)
    {
        if (vf::take_asan()) { fail(opn, "asan-report", "AddressSanitizer reported a memory error"); return false; }
        for (size_t i = 0; i < NBITS; ++i)
            if (bool(cst_b()[i]) != bool(m[i]))
            {
                fail(opn, i == pos ? "write-not-landed" : "other-bit-changed", "bit " + vf::str(i) + " of the bitset reads " + vf::str(int(bool(cst_b()[i]))) + ", expected " + vf::str(int(bool(m[i]))) +
                                                                                  (i == pos ? " (the referenced bit)" : " (a bit the reference does not designate)"));
                return false;
            }
        if (bool(r) != bool(m[pos])) { fail(opn, "wrong-value", "the reference reads " + vf::str(int(bool(r))) + ", the bit is " + vf::str(int(bool(m[pos])))); return false; }
        if (bool(cr) != bool(m[pos])) { fail(opn, "wrong-value", "the const reference reads " + vf::str(int(bool(cr))) + ", the bit is " + vf::str(int(bool(m[pos])))); return false; }
        if ((~r) != !bool(m[pos])) { fail(opn, "wrong-value", "operator~ of the reference disagrees with the bit"); return false; }
        return true;
    }
    const BS& cst_b() { return b; }

    void set_model(size_t i, bool v) { if (m[i] != v) effective = true; m[i] = v; }

    void step(R& r, CR& cr, size_t i)
    {
        if (failed) return;
        if (i == ops.size()) { check(r, cr, "end"); return; }
        int op = ops[i];
        const char* opn = bop_name[op];
        switch (op)
        {
        case B_READ: break;
        case B_SET1: r = true; set_model(pos, true); break;
        case B_SET0: r = false; set_model(pos, false); break;
        case B_ASSIGN_SAME: { R s = get(pos); r = s; } break;
        case B_ASSIGN_OTHER: { R o = b[other]; r = o; set_model(pos, m[other]); } break;
        case B_MOVE_ASSIGN_OTHER: { R o = b[other]; r = std::move(o); set_model(pos, m[other]); } break;
        case B_COPY: { R c(r); CR cc(cr); if (check(c, cc, opn)) step(c, cc, i + 1); if (!failed) check(r, cr, opn); return; }
        case B_MOVE: { R c(std::move(r)); CR cc(std::move(cr)); if (check(c, cc, opn)) step(c, cc, i + 1); return; }
        case B_FLIP: r.flip(); set_model(pos, !m[pos]); break;
        case B_AND0: r &= false; set_model(pos, false); break;
        case B_OR1: r |= true; set_model(pos, true); break;
        case B_XOR1: r ^= true; set_model(pos, !m[pos]); break;
        case B_ADDR_WRITE:
        {
            auto p = &r;              // xclosure_pointer<reference>: owns a copy of the proxy, which designates the same bit
            bool nv = (i % 2) == 0;
            if (bool(*p) != bool(m[pos])) { fail(opn, "address-of-designation", "*(&reference) reads a different value than the bit"); return; }
            *p = nv;
            set_model(pos, nv);
            auto cp = &cr;
            if (bool(*cp) != bool(m[pos])) { fail(opn, "address-of-designation", "*(&const_reference) does not see the write through *(&reference)"); return; }
            break;
        }
        case B_SRC_FLIP: b.flip(pos); set_model(pos, !m[pos]); break;
        }
        if (!check(r, cr, opn)) return;
        step(r, cr, i + 1);
    }

    void go()
    {
        vf::take_asan();
        R r = get(pos);
        CR cr = cget(pos);
        if (check(r, cr, "construct")) step(r, cr, 0);
        ++g_eval;
        if (effective) ++g_nontrivial;
    }
};

template <class B>
static void bit_one(bool view, int path, size_t pos, unsigned pat, const std::vector<int>& ops)
{
    std::string where = std::string(view ? "xdynamic_bitset_view<" : "xdynamic_bitset<") + bname<B>::get() + "> of " + vf::str(NBITS) + " bits, reference to bit " + vf::str(pos) +
                        " obtained by " + bpath_name[path] + ", initial pattern " + vf::str(pat);
    if (view)
    {
        const size_t nblocks = (NBITS + sizeof(B) * 8 - 1) / (sizeof(B) * 8);
        std::unique_ptr<B[]> store(new B[nblocks]());
        xtl::xdynamic_bitset_view<B> bs(store.get(), NBITS);
        BitRun<xtl::xdynamic_bitset_view<B>> run(bs, path, pos, pat, ops, where, false);
        run.go();
    }
    else
    {
        xtl::xdynamic_bitset<B> bs(NBITS);
        BitRun<xtl::xdynamic_bitset<B>> run(bs, path, pos, pat, ops, where, false);
        run.go();
    }
}

static void bit_dispatch(int blk, bool view, int path, size_t pos, unsigned pat, const std::vector<int>& ops)
{
    if (blk == 8) bit_one<uint8_t>(view, path, pos, pat, ops);
    else bit_one<uint64_t>(view, path, pos, pat, ops);
}

static std::string iseq(const std::vector<int>& ops)
{
    std::string s;
    for (size_t i = 0; i < ops.size(); ++i) { if (i) s += "."; s += vf::str(ops[i]); }
    return s.empty() ? "-" : s;
}

static void bitref_all(int maxlen, int shard, int nshards)
{
    int combo = 0;
    const unsigned pats[] = {0x000u, 0x3ffu, 0x155u, 0x2aau};
    const size_t poss[] = {0, 7, 8, 9};
    long long before = g_eval;
    for (int blk : {8, 64})
        for (int view = 0; view < 2; ++view)
            for (int path = 0; path < P_NPATHS; ++path)
                for (size_t pos : poss)
                {
                    if (path == P_FRONTBACK && pos != 0 && pos != NBITS - 1) continue;
                    if ((combo++ % nshards) != shard) continue;
                    for (unsigned pat : pats)
                        for (int len = 0; len <= maxlen; ++len)
                        {
                            std::vector<int> idx(len, 0), seq;
                            while (true)
                            {
                                seq.assign(idx.begin(), idx.end());
                                std::snprintf(g_shared, 4000, "%d,%d,%d,%zu,%u,%s", blk, view, path, pos, pat, iseq(seq).c_str());
                                bit_dispatch(blk, view != 0, path, pos, pat, seq);
                                int k = len - 1;
                                while (k >= 0 && ++idx[k] == B_NOPS) { idx[k] = 0; --k; }
                                if (k < 0) break;
                            }
                        }
                }
    vf::stat("scenarios[bitset-reference]", g_eval - before);
    if (shard == 0) vf::sample("bitset reference: block types {uint8_t,uint64_t} x {xdynamic_bitset, xdynamic_bitset_view} x access {operator[], at(), front()/back(), *iterator} x bit {0,7,8,9} of 10 x "
               "initial pattern {0x000,0x3ff,0x155,0x2aa} x every sequence of length <= " + vf::str(maxlen) + " over {read, assign-true, assign-false, assign-from-reference-same-bit, "
               "assign-from-reference-other-bit, move-assign, copy-construct, move-construct, flip, &=false, |=true, ^=true, &ref then write, flip the bit in the bitset}");
}

// =====================================================================================================================
// forward_sequence
// =====================================================================================================================
typedef std::vector<Counted> VecC;
typedef std::array<Counted, 3> ArrC;

template <class X> struct seqname;
template <> struct seqname<VecC> { static const char* get() { return "std::vector<Counted>"; } };
template <> struct seqname<ArrC> { static const char* get() { return "std::array<Counted,3>"; } };

template <class X> static void fill(X& x, size_t n, std::true_type /*vector*/) { x.clear(); for (size_t i = 0; i < n; ++i) x.emplace_back(int(40 + i)); }
template <class X> static void fill(X& x, size_t, std::false_type) { for (size_t i = 0; i < x.size(); ++i) x[i] = Counted(int(40 + i)); }
template <class X> static void fill(X& x, size_t n) { fill(x, n, std::is_same<X, VecC>()); }

struct FwdCase { std::string id; void (*fn)(const std::string&); };

static void fwd_fail(const std::string& id, const std::string& rname, const std::string& kind, const std::string& what)
{
    // id = R|X|category|n
    size_t p1 = id.find('|'), p2 = id.find('|', p1 + 1), p3 = id.find('|', p2 + 1);
    std::string cat = id.substr(p2 + 1, p3 - p2 - 1);
    bool same = id.substr(0, p1) == id.substr(p1 + 1, p2 - p1 - 1);
    vf::violation(std::string("C07/forward_sequence/") + (same ? "same-type" : "other-type") + ":" + cat + "/" + kind,
                  "forward_sequence<" + rname + ", A>(s) with " + id + ": " + what, {"--part", "fwdseq", "--one", id});
}

template <class Res, class X>
static bool elems_equal(const Res& r, const X& x, size_t n)
{
    if (std::is_same<Res, VecC>::value && r.size() != n) return false;
    for (size_t i = 0; i < n && i < r.size(); ++i) if (rd(r[i]) != int(40 + i)) return false;
    (void)x;
    return true;
}

// category: 0 = lvalue (A = X&), 1 = const lvalue (A = const X&), 2 = rvalue (A = X)
template <class Res, class X, int CATEGORY>
static void fwd_case(const std::string& id)
{
    registry& reg = registry::get();
    reg.errors = 0;
    vf::take_asan();
    const bool same = std::is_same<Res, X>::value;
    size_t n = size_t(id[id.size() - 1] - '0');
    size_t base = reg.live.size();
    std::string rname = seqname<Res>::get();
    {
        std::unique_ptr<X> src(new X());
        fill(*src, n);
        size_t live_src = reg.live.size();
        const void* src_addr = src.get();
        const void* elem0 = n ? static_cast<const void*>(&(*src)[0]) : nullptr;
        reg.reset_events();
        ++g_eval;
        if (same)
        {
            ++g_nontrivial;
            // the argument itself must come back: same address, no element touched
            const void* got = nullptr;
            if (CATEGORY == 0) { decltype(auto) r = xtl::forward_sequence<Res, X&>(*src); got = &r; }
            else if (CATEGORY == 1) { const X& cs = *src; decltype(auto) r = xtl::forward_sequence<Res, const X&>(cs); got = &r; }
            else { decltype(auto) r = xtl::forward_sequence<Res, X>(*src); got = &r; }   // T&& arg used as an lvalue, as in a forwarding function
            if (got != src_addr) fwd_fail(id, rname, "not-aliasing", "the result is not the argument itself (a different object was returned although the types match)");
            else if (reg.special_calls() != 0 || reg.live.size() != live_src)
                fwd_fail(id, rname, "copied-original", "forwarding a sequence of the requested type touched its elements (" + vf::str(reg.copy_ctor) + " copies, " + vf::str(reg.move_ctor) + " moves)");
            if (CATEGORY == 2)
            {
                // binding the forwarded rvalue to a value gives an owning, independent sequence that outlives the source
                Res own = xtl::forward_sequence<Res, X>(std::move(*src));
                if (reg.copy_ctor != 0 || reg.copy_assign != 0) fwd_fail(id, rname, "copied-original", "moving out of a forwarded rvalue sequence copied elements");
                src.reset();
                if (!elems_equal(own, own, n)) fwd_fail(id, rname, "wrong-value", "the sequence moved out of the forwarded rvalue does not hold the source's elements after the source died");
            }
        }
        else
        {
            ++g_nontrivial;
            std::unique_ptr<Res> res;
            if (CATEGORY == 0) res.reset(new Res(xtl::forward_sequence<Res, X&>(*src)));
            else if (CATEGORY == 1) { const X& cs = *src; res.reset(new Res(xtl::forward_sequence<Res, const X&>(cs))); }
            else res.reset(new Res(xtl::forward_sequence<Res, X>(std::move(*src))));
            size_t m = std::is_same<Res, ArrC>::value ? 3 : n;
            if (reg.live.size() != live_src + m) fwd_fail(id, rname, "owned-count", "the converted sequence owns " + vf::str((long long)(reg.live.size() - live_src)) + " elements, expected " + vf::str(m));
            if (!elems_equal(*res, *src, n)) fwd_fail(id, rname, "wrong-value", "the converted sequence does not hold the source's elements");
            if (CATEGORY != 2 && !elems_equal(*src, *src, n)) fwd_fail(id, rname, "source-value", "converting an lvalue sequence changed the source");
            if (n && res->size() && static_cast<const void*>(&(*res)[0]) == elem0) fwd_fail(id, rname, "not-owning", "the converted sequence shares its elements with the source");
            if (n && res->size()) { (*res)[0] = Counted(77); if (CATEGORY != 2 && rd((*src)[0]) != 40) fwd_fail(id, rname, "not-owning", "writing the converted sequence changed the source"); (*res)[0] = Counted(40); }
            src.reset();   // the source dies; the result must stay valid
            if (!elems_equal(*res, *res, n)) fwd_fail(id, rname, "wrong-value", "the converted sequence changed when the source died");
        }
    }
    if (reg.errors) { fwd_fail(id, rname, "lifetime", reg.first_error); reg.errors = 0; }
    if (vf::take_asan()) fwd_fail(id, rname, "asan-report", "AddressSanitizer reported a memory error");
    if (reg.live.size() != base) fwd_fail(id, rname, "leak", "elements still alive after everything was destroyed");
}

template <class Res, class X, int C>
static void reg_fwd(std::vector<FwdCase>& v)
{
    static const char* cn[3] = {"T&", "const T&", "T&&"};
    for (int n = 0; n <= 3; ++n)
    {
        if (std::is_same<X, ArrC>::value && n != 3) continue;
        FwdCase c;
        c.id = std::string(seqname<Res>::get()) + "|" + seqname<X>::get() + "|" + cn[C] + "|" + vf::str(n);
        c.fn = &fwd_case<Res, X, C>;
        v.push_back(c);
    }
}

static std::vector<FwdCase> fwd_cases()
{
    std::vector<FwdCase> v;
    reg_fwd<VecC, VecC, 0>(v); reg_fwd<VecC, VecC, 1>(v); reg_fwd<VecC, VecC, 2>(v);
    reg_fwd<ArrC, ArrC, 0>(v); reg_fwd<ArrC, ArrC, 1>(v); reg_fwd<ArrC, ArrC, 2>(v);
    reg_fwd<VecC, ArrC, 0>(v); reg_fwd<VecC, ArrC, 1>(v); reg_fwd<VecC, ArrC, 2>(v);
    reg_fwd<ArrC, VecC, 0>(v); reg_fwd<ArrC, VecC, 1>(v); reg_fwd<ArrC, VecC, 2>(v);
    return v;
}


// =====================================================================================================================
// swap under aliasing: two DISTINCT wrappers whose closures designate the same / different objects
// =====================================================================================================================
// For every closure combination with at least one reference closure: value referents {same, distinct} x flag referents
// {same, distinct} x initial contents, then a.swap(b) / b.swap(a) / free swap / a.swap(a).  Oracle: swap exchanges the contents
// of the DESIGNATED objects component by component (a component both wrappers designate in common keeps its content), and no
// wrapper is rebound.
template <bool B> using sw_bool = std::integral_constant<bool, B>;
template <class T> static T& sw_pick(std::true_type, T& r, T) { return r; }
template <class T> static T sw_pick(std::false_type, T&, T v) { return v; }
static int sw_rd(const int& v) { return v; }
static int sw_rd(const Counted& v) { return rd(v); }
static int sw_rd(const bool& v) { return v ? 1 : 0; }

struct FamOpt
{
    static const char* name() { return "optional"; }
    template <class V, class F> static auto mk(V&& v, F&& f) { return xtl::optional(std::forward<V>(v), std::forward<F>(f)); }
    template <class W> static decltype(auto) value(W& w) { return w.value(); }
    template <class W> static decltype(auto) flag(W& w) { return w.has_value(); }
    static const int nops = 3;
    template <class W> static void op(int o, W& a, W& b) { if (o == 0) a.swap(b); else if (o == 1) b.swap(a); else a.swap(a); }
};
struct FamMask
{
    static const char* name() { return "masked_value"; }
    template <class V, class F> static auto mk(V&& v, F&& f) { return xtl::masked_value(std::forward<V>(v), std::forward<F>(f)); }
    template <class W> static decltype(auto) value(W& w) { return w.value(); }
    template <class W> static decltype(auto) flag(W& w) { return w.visible(); }
    static const int nops = 4;
    template <class W> static void op(int o, W& a, W& b) { if (o == 0) a.swap(b); else if (o == 1) b.swap(a); else if (o == 2) a.swap(a); else xtl::swap(a, b); }
};
static const char* sw_opname(int o) { static const char* n[4] = {"a.swap(b)", "b.swap(a)", "a.swap(a)", "swap(a,b)"}; return n[o]; }

template <class Fam, bool VR, bool FR, class P>
static void swap_alias_cases(const std::string& only)
{
    const std::string clos = std::string(VR ? "T&" : "T") + "," + (FR ? "B&" : "B");
    for (int vsame = 0; vsame <= (VR ? 1 : 0); ++vsame)
    for (int fsame = 0; fsame <= (FR ? 1 : 0); ++fsame)
    for (int vy = 10; vy <= 20; vy += 10)          // y == x or y != x
    for (int f0 = 0; f0 <= 1; ++f0)
    for (int g0 = 0; g0 <= 1; ++g0)
    for (int o = 0; o < Fam::nops; ++o)
    {
        std::string id = std::string(Fam::name()) + "," + clos + "," + pname<P>::get() + "," + vf::str(vsame) + "," + vf::str(fsame) + "," + vf::str(vy) + "," +
                         vf::str(f0) + "," + vf::str(g0) + "," + vf::str(o);
        if (!only.empty() && only != id) continue;
        std::snprintf(g_shared, 4000, "%s", id.c_str());
        registry& reg = registry::get();
        reg.errors = 0;
        vf::take_asan();
        size_t base = reg.live.size();
        ++g_eval;
        std::string cfg = std::string("value-") + (!VR ? "owned" : vsame ? "same" : "distinct") + ",flag-" + (!FR ? "owned" : fsame ? "same" : "distinct");
        std::string sig = std::string("C07/") + Fam::name() + "(" + clos + ")/swap:" + cfg + "/";
        std::string what = std::string(Fam::name()) + "(v,f) with closures (" + clos + "), payload " + pname<P>::get() + ": a on (x=10, f=" + vf::str(f0) + "), b on (" +
                           (VR ? (vsame ? "the same x" : "y=" + vf::str(vy)) : "owned " + vf::str(vy)) + ", " + (FR ? (fsame ? "the same f" : "g=" + vf::str(g0)) : "owned " + vf::str(g0)) +
                           "), then " + sw_opname(o) + ": ";
        std::vector<std::string> replay = {"--part", "swapalias", "--one", id};
        {
            P x(10), y(vy);
            bool f = f0 != 0, g = g0 != 0;
            auto a = Fam::mk(sw_pick<P>(sw_bool<VR>(), x, P(10)), sw_pick<bool>(sw_bool<FR>(), f, f0 != 0));
            auto b = Fam::mk(sw_pick<P>(sw_bool<VR>(), vsame ? x : y, P(vy)), sw_pick<bool>(sw_bool<FR>(), fsame ? f : g, g0 != 0));
            // model: the content of the object each component designates (value cell of a / of b; -1 = the same cell as a's)
            int va = 10, vb = (VR && vsame) ? 10 : vy;
            int fa = f0, fb = (FR && fsame) ? f0 : g0;
            bool self = (o == 2);
            bool v_common = self || (VR && vsame), f_common = self || (FR && fsame);
            int eva = v_common ? va : vb, evb = v_common ? vb : va;
            int efa = f_common ? fa : fb, efb = f_common ? fb : fa;
            if ((eva != va) || (efa != fa) || (evb != vb) || (efb != fb)) ++g_nontrivial;
            const void* ava = &Fam::value(a); const void* avb = &Fam::value(b);
            const void* afa = &Fam::flag(a); const void* afb = &Fam::flag(b);
            Fam::op(o, a, b);
            bool ok = true;
            if (&Fam::value(a) != ava || &Fam::value(b) != avb || &Fam::flag(a) != afa || &Fam::flag(b) != afb ||
                (VR && (ava != static_cast<const void*>(&x) || avb != static_cast<const void*>(vsame ? &x : &y))) ||
                (FR && (afa != static_cast<const void*>(&f) || afb != static_cast<const void*>(fsame ? &f : &g))))
            { vf::violation(sig + "rebound", what + "a component designates a different object than before the swap / than the lvalue it was built from", replay); ok = false; }
            if (ok && (sw_rd(Fam::value(a)) != eva || sw_rd(Fam::value(b)) != evb))
            { vf::violation(sig + "values-not-exchanged", what + "the values read a=" + vf::str(sw_rd(Fam::value(a))) + " b=" + vf::str(sw_rd(Fam::value(b))) + ", expected a=" + vf::str(eva) + " b=" + vf::str(evb), replay); ok = false; }
            if (ok && (sw_rd(Fam::flag(a)) != efa || sw_rd(Fam::flag(b)) != efb))
            { vf::violation(sig + "flags-not-exchanged", what + "the flags read a=" + vf::str(sw_rd(Fam::flag(a))) + " b=" + vf::str(sw_rd(Fam::flag(b))) + ", expected a=" + vf::str(efa) + " b=" + vf::str(efb) +
                                                        " (swap must exchange what the flag closures designate even when the value closures designate one object)", replay); ok = false; }
            // the originals that no closure designates are untouched
            if (ok && VR && !vsame && !self && (sw_rd(x) != eva || sw_rd(y) != evb)) { vf::violation(sig + "original-value", what + "the value originals do not hold the exchanged contents", replay); ok = false; }
            if (ok && VR && vsame && sw_rd(y) != vy) { vf::violation(sig + "original-value", what + "an original that no wrapper designates changed", replay); ok = false; }
            if (ok && FR && fsame && sw_rd(g) != g0) { vf::violation(sig + "original-value", what + "a flag that no wrapper designates changed", replay); ok = false; }
        }
        if (reg.errors) { vf::violation(sig + "lifetime", what + reg.first_error, replay); reg.errors = 0; }
        if (vf::take_asan()) vf::violation(sig + "asan-report", what + "AddressSanitizer reported a memory error", replay);
        if (reg.live.size() != base) vf::violation(sig + "leak", what + "payload objects still alive afterwards", replay);
    }
}

// single-closure wrapper: closure(x) vs closure(x) (true alias) and closure(y)
template <class P>
static void swap_alias_closure(const std::string& only)
{
    for (int vsame = 0; vsame <= 1; ++vsame)
    for (int vy = 10; vy <= 20; vy += 10)
    for (int o = 0; o < 4; ++o)
    {
        std::string id = std::string("closure,T&,") + pname<P>::get() + "," + vf::str(vsame) + ",0," + vf::str(vy) + ",0,0," + vf::str(o);
        if (!only.empty() && only != id) continue;
        std::snprintf(g_shared, 4000, "%s", id.c_str());
        registry& reg = registry::get();
        reg.errors = 0;
        vf::take_asan();
        ++g_eval;
        std::string sig = std::string("C07/closure(T&)/swap:value-") + (vsame ? "same" : "distinct") + "/";
        std::string what = std::string("closure(x) and closure(") + (vsame ? "x" : "y") + "), payload " + pname<P>::get() + ", x=10 y=" + vf::str(vy) + ", then " + sw_opname(o) + ": ";
        std::vector<std::string> replay = {"--part", "swapalias", "--one", id};
        P x(10), y(vy);
        auto a = xtl::closure(x);
        auto b = xtl::closure(vsame ? x : y);
        bool common = vsame || o == 2;
        int ex = common ? 10 : vy, ey = common ? vy : 10;
        if (!common && vy != 10) ++g_nontrivial;
        if (o == 0) a.swap(b); else if (o == 1) b.swap(a); else if (o == 2) a.swap(a); else { using std::swap; swap(a, b); }
        if (&a.get() != &x || &b.get() != (vsame ? &x : &y)) vf::violation(sig + "rebound", what + "a wrapper designates a different object after the swap", replay);
        else if (sw_rd(x) != ex || sw_rd(y) != ey) vf::violation(sig + "values-not-exchanged", what + "x=" + vf::str(sw_rd(x)) + " y=" + vf::str(sw_rd(y)) + ", expected x=" + vf::str(ex) + " y=" + vf::str(ey), replay);
        if (reg.errors) { vf::violation(sig + "lifetime", what + reg.first_error, replay); reg.errors = 0; }
        if (vf::take_asan()) vf::violation(sig + "asan-report", what + "AddressSanitizer reported a memory error", replay);
    }
}

template <class Fam, class P>
static void swap_alias_family(const std::string& only)
{
    swap_alias_cases<Fam, true, true, P>(only);
    swap_alias_cases<Fam, true, false, P>(only);
    swap_alias_cases<Fam, false, true, P>(only);
}

static void swap_alias_all(const std::string& only)
{
    long long before = g_eval;
    swap_alias_family<FamOpt, int>(only);
    swap_alias_family<FamOpt, Counted>(only);
    swap_alias_family<FamMask, int>(only);
    swap_alias_family<FamMask, Counted>(only);
    swap_alias_closure<int>(only);
    swap_alias_closure<Counted>(only);
    vf::stat("scenarios[swap-under-aliasing]", g_eval - before);
    if (only.empty())
        vf::sample("swap under aliasing: {optional, masked_value} x closures {(T&,B&),(T&,B),(T,B&)} x value referents {same,distinct} x flag referents {same,distinct} x y in {==x, !=x} x "
                   "flag contents 2x2 x {a.swap(b), b.swap(a), a.swap(a), swap(a,b)} x payload {int, Counted}; closure(x) vs closure(x|y); e.g. optional(x,f) and optional(x,g), f=1 g=0, a.swap(b): f and g must be exchanged, x unchanged");
}

// =====================================================================================================================
static void flush_child_stats()
{
    vf::reporter& r = vf::reporter::get();
    r.stats["evaluations"] += g_eval;
    r.stats["distinct_nontrivial"] += g_nontrivial;
    for (auto& kv : r.stats) std::printf("@@{\"t\":\"stat\",\"k\":\"%s\",\"v\":%lld}\n", vf::jesc(kv.first).c_str(), kv.second);
    for (auto& kv : r.per_sig)
        if (kv.second > 1) std::printf("@@{\"t\":\"note\",\"v\":\"%s occurred %d times\"}\n", vf::jesc(kv.first).c_str(), kv.second);
    std::fflush(stdout);
}

int main(int argc, char** argv)
{
    std::string part, one;
    int maxlen = 3, shard = 0, nshards = 1;
    for (int i = 1; i < argc; ++i)
    {
        std::string a = argv[i];
        if (a == "--shard" && i + 2 < argc) { shard = std::atoi(argv[++i]); nshards = std::atoi(argv[++i]); }
        else if (a == "--part" && i + 1 < argc) part = argv[++i];
        else if (a == "--one" && i + 1 < argc) one = argv[++i];
        else if (a == "--len" && i + 1 < argc) maxlen = std::atoi(argv[++i]);
    }
    g_shared = static_cast<char*>(mmap(nullptr, 4096, PROT_READ | PROT_WRITE, MAP_SHARED | MAP_ANONYMOUS, -1, 0));
    g_shared[0] = 0;
    std::fflush(stdout);
    pid_t pid = fork();
    if (pid == 0)
    {
        if (part == "bitref")
        {
            if (one.empty()) bitref_all(maxlen, shard, nshards);
            else
            {
                int blk = 8, view = 0, path = 0; size_t pos = 0; unsigned pat = 0; char sq[256] = "-";
                std::sscanf(one.c_str(), "%d,%d,%d,%zu,%u,%255s", &blk, &view, &path, &pos, &pat, sq);
                std::vector<int> ops;
                std::string s = sq;
                if (s != "-") { size_t p = 0; while (p < s.size()) { size_t q = s.find('.', p); if (q == std::string::npos) q = s.size(); ops.push_back(std::atoi(s.substr(p, q - p).c_str())); p = q + 1; } }
                std::snprintf(g_shared, 4000, "%s", one.c_str());
                bool ok = path >= 0 && path < P_NPATHS && pos < NBITS;
                for (int o : ops) if (o < 0 || o >= B_NOPS) ok = false;
                if (ok) bit_dispatch(blk, view != 0, path, pos, pat, ops);
            }
        }
        else if (part == "swapalias")
        {
            swap_alias_all(one);
        }
        else if (part == "fwdseq")
        {
            std::vector<FwdCase> cases = fwd_cases();
            long long before = g_eval;
            for (auto& c : cases)
            {
                if (!one.empty() && c.id != one) continue;
                std::snprintf(g_shared, 4000, "%s", c.id.c_str());
                c.fn(c.id);
            }
            vf::stat("scenarios[forward_sequence]", g_eval - before);
            if (one.empty())
                vf::sample("forward_sequence<R,A>: R,X in {std::vector<Counted>, std::array<Counted,3>} x A in {X&, const X&, X} x size 0..3: same type -> the argument itself (address, no element touched); "
                           "other type -> independent owning copy that survives the source; e.g. " + cases[0].id + " ; " + cases.back().id);
        }
        flush_child_stats();
        _exit(0);
    }
    int st = 0;
    waitpid(pid, &st, 0);
    if (!(WIFEXITED(st) && WEXITSTATUS(st) == 0))
    {
        std::string s = g_shared;
        std::string how = WIFSIGNALED(st) ? "signal-" + vf::str(WTERMSIG(st)) : "abnormal-exit";
        vf::violation("C07/" + (part == "bitref" ? std::string("bitset-reference") : part == "swapalias" ? std::string("swap-under-aliasing") : std::string("forward_sequence")) + "/crash/" + how,
                      "the process died (" + how + ") while executing " + s, {"--part", part, "--one", s});
    }
    vf::done();
    return 0;
}
