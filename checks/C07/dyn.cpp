// C07 dynamic part: wrapper kind x source category x payload x every operation sequence of length <= L.
// See NOTES.md.  One binary per kind (-DC07_KIND=<n>) so the kinds compile in parallel.
//
//   dyn --list                                  print the groups (cat:payload) this kind has
//   dyn --group CAT:PAYLOAD --len L [--deadline S]   enumerate every sequence of length <= L (forked child)
//   dyn --group CAT:PAYLOAD --seq a,b,c         run exactly one sequence (forked child)  -- replay
#include <xtl/xclosure.hpp>
#include <xtl/xcomplex.hpp>
#include <xtl/xdynamic_bitset.hpp>
#include <xtl/xmasked_value.hpp>
#include <xtl/xoptional.hpp>
#include <xtl/xproxy_wrapper.hpp>
#include <xtl/xsequence.hpp>

#include "c07_payload.hpp"
#include "report.hpp"

#include <array>
#include <chrono>
#include <cstdint>
#include <cstdio>
#include <cstring>
#include <functional>
#include <memory>
#include <string>
#include <type_traits>
#include <utility>
#include <vector>

#include <sys/mman.h>
#include <sys/wait.h>
#include <unistd.h>

#ifndef C07_KIND
#error "compile with -DC07_KIND=<n>"
#endif

using namespace c07;

// ------------------------------------------------------------------ helpers
template <class F, class... A> inline void static_if(std::true_type, F&& f, A&&... a) { f(std::forward<A>(a)...); }
template <class F, class... A> inline void static_if(std::false_type, F&&, A&&...) {}
template <bool B> using bool_ = std::integral_constant<bool, B>;
template <class T> inline const T& cst(T& t) { return t; }

enum Op
{
    READ, ASSIGN_RV, ASSIGN_LV, ASSIGN_SAME, ASSIGN_OTHER, MOVE_ASSIGN_OTHER, ASSIGN_VW,
    COPY_CONS, MOVE_CONS, SWAP, ADDR, ADDR_RV, SRC_WRITE, DIE, NOPS
};
static const char* op_name[NOPS] = {
    "read", "assign-rvalue", "assign-lvalue", "assign-from-wrapper-same-referent", "assign-from-wrapper-other-referent",
    "move-assign-from-wrapper", "assign-from-value-wrapper", "copy-construct", "move-construct", "swap",
    "address-of", "address-of-rvalue", "write-original", "source-dies"};

// ------------------------------------------------------------------ source categories
struct PRV { static const bool lvalue = false, cnst = false, heap = false; static const char* name() { return "T"; } };
struct LV  { static const bool lvalue = true,  cnst = false, heap = false; static const char* name() { return "T&"; } };
struct CLV { static const bool lvalue = true,  cnst = true,  heap = false; static const char* name() { return "const T&"; } };
struct XV  { static const bool lvalue = false, cnst = false, heap = true;  static const char* name() { return "T&&"; } };
struct CXV { static const bool lvalue = false, cnst = true,  heap = true;  static const char* name() { return "const T&&"; } };
struct XVF { static const bool lvalue = false, cnst = false, heap = false; static const char* name() { return "T&&(dead frame)"; } };

// ------------------------------------------------------------------ the world of one scenario
template <class P>
struct World
{
    P x{10}, y{20};      // originals for the primary component (lvalue sources)
    P x2{11}, y2{21};    // originals of the secondary component of xcomplex kinds
    bool fx = true, fy = true;   // flags of the optional/masked kinds
    Counted vx{12}, vy{22};      // fixed values of the flag-primary kinds
    P* src[2] = {nullptr, nullptr};   // heap sources of the T&& / const T&& categories
    ~World() { delete src[0]; delete src[1]; }
};

static bool g_cxx20 = __cplusplus >= 202002L;

// ------------------------------------------------------------------ kinds (adapters)
// caps<P,Cat>: what the rule says the wrapper must offer (committed; a capability the library loses is a build error of
// this harness = exit 2, never a silent pass).
struct KBase
{
    template <class W, class WD> static bool secondary(W&, WD&, int, std::string&) { return true; }
    template <class W> static void swap(W& a, W& b) { using std::swap; swap(a, b); }
    template <class W, class V> static void assign(W& w, V&& v) { w = std::forward<V>(v); }
    template <class W, class P> static void assign_vw(W&, int, bool, P*) {}
    template <class PT> static decltype(auto) ptr_prim(PT& p) { return *p; }
    template <class W> static W& copy_src(W& w) { return w; }
    template <class W, class F> static void reads_lv_copying(W&, F&&) {}
    template <class P> struct in_design : std::true_type {};   // payload types the design enumerates for this kind
};

template <class P> struct copyable : std::is_copy_constructible<P> {};

#define OBS(expr) f(#expr, (expr), std::is_lvalue_reference<decltype(expr)>::value)

// ---- closure / const_closure --------------------------------------------------------------
template <bool CONSTK>
struct K_closure : KBase
{
    static const char* name() { return CONSTK ? "const_closure" : "closure"; }
    template <class P, class Cat> struct caps
    {
        // C++14/17: the value constructor copies (get_storage_init returns a named rvalue reference) -> needs a copyable payload
        static const bool constructible = (Cat::lvalue || copyable<P>::value || (__cplusplus >= 202002L && !Cat::cnst))
                                          && !(CONSTK && !Cat::lvalue && Cat::cnst);   // const_closure(const T&&) is ill-formed on the pinned tree (static part, manifest)
        static const bool is_const = CONSTK ? Cat::lvalue : Cat::cnst;
        static const bool assign = true, assign_needs_copy = false, same_assign = true, move_assign = true, vw = false,
                          swap = true, addr = true, addr_rv = false, copy_cons = Cat::lvalue || copyable<P>::value;
    };
    template <class S, class WD> static auto wrap(S&& s, WD&, int, std::true_type) { return xtl::const_closure(std::forward<S>(s)); }
    template <class S, class WD> static auto wrap(S&& s, WD&, int, std::false_type) { return xtl::closure(std::forward<S>(s)); }
    template <class S, class WD> static auto wrap(S&& s, WD& wd, int which) { return wrap(std::forward<S>(s), wd, which, bool_<CONSTK>()); }
    template <class W> static decltype(auto) prim(W& w) { return w.get(); }
    template <class W, class F> static void reads_lv(W& w, F&& f)
    {
        OBS(w.get());
        OBS(cst(w).get());
    }
    template <class W, class F> static void reads_lv_copying(W& w, F&& f)   // lvalue conversions: by value for value closures
    {
        OBS(static_cast<typename W::closure_type>(w));
        OBS(static_cast<typename W::const_closure_type>(cst(w)));
    }
    static const int n_rv = 1;
    template <class W, class F> static void read_rv(W& w, F&& f, int) { OBS(std::move(w).get()); }
    template <class PT> static decltype(auto) ptr_prim(PT& p) { return *p; }
};

// ---- closure_pointer / const_closure_pointer ------------------------------------------------
template <bool CONSTK>
struct K_cptr : KBase
{
    static const char* name() { return CONSTK ? "const_closure_pointer" : "closure_pointer"; }
    template <class P, class Cat> struct caps
    {
        static const bool constructible = (Cat::lvalue || !Cat::cnst || copyable<P>::value)
                                          && !(CONSTK && !Cat::lvalue && Cat::cnst);   // const_closure_pointer(const T&&) is ill-formed on the pinned tree
        static const bool is_const = CONSTK ? Cat::lvalue : Cat::cnst;
        static const bool assign = true, assign_needs_copy = false,
                          same_assign = !Cat::lvalue && !is_const, move_assign = !Cat::lvalue && !is_const, vw = false,
                          swap = false, addr = false, addr_rv = false, copy_cons = Cat::lvalue || copyable<P>::value;
    };
    template <class S, class WD> static auto wrap(S&& s, WD&, int, std::true_type) { return xtl::const_closure_pointer(std::forward<S>(s)); }
    template <class S, class WD> static auto wrap(S&& s, WD&, int, std::false_type) { return xtl::closure_pointer(std::forward<S>(s)); }
    template <class S, class WD> static auto wrap(S&& s, WD& wd, int which) { return wrap(std::forward<S>(s), wd, which, bool_<CONSTK>()); }
    template <class W> static decltype(auto) prim(W& w) { return *w; }
    template <class W, class F> static void reads_lv(W& w, F&& f)
    {
        OBS(*w);
        OBS(*cst(w));
        OBS(*(w.operator->()));
        OBS(*(cst(w).operator->()));
    }
    static const int n_rv = 3;
    template <class W, class F> static void read_rv(W& w, F&& f, int i)   // always references (into the pointer object for an owner)
    {
        if (i == 0) OBS(*std::move(w));
        else if (i == 1) OBS(*std::move(cst(w)));
        else OBS(*(std::move(w).operator->()));
    }
    template <class W, class V> static void assign(W& w, V&& v) { *w = std::forward<V>(v); }
};

// ---- proxy_wrapper -------------------------------------------------------------------------
struct K_proxy : KBase
{
    static const char* name() { return "proxy_wrapper"; }
    template <class P, class Cat> struct caps
    {
        static const bool impl = !Cat::lvalue && std::is_class<P>::value;   // xproxy_wrapper_impl<P> : P
        static const bool constructible = Cat::lvalue || copyable<P>::value || (impl && !Cat::cnst) || (__cplusplus >= 202002L && !Cat::cnst);
        static const bool is_const = Cat::cnst;
        static const bool assign = !impl, assign_needs_copy = false, same_assign = !impl || copyable<P>::value, move_assign = true, vw = false,
                          swap = true, addr = true, addr_rv = impl && copyable<P>::value, copy_cons = Cat::lvalue || copyable<P>::value;
    };
    template <class S, class WD> static auto wrap(S&& s, WD&, int) { return xtl::proxy_wrapper(std::forward<S>(s)); }
    // xclosure_wrapper flavour
    template <class CT> static decltype(auto) prim(xtl::xclosure_wrapper<CT>& w) { return w.get(); }
    template <class CT, class F> static void reads_lv(xtl::xclosure_wrapper<CT>& w, F&& f) { OBS(w.get()); OBS(cst(w).get()); }
    static const int n_rv = 1;
    template <class CT, class F> static void read_rv(xtl::xclosure_wrapper<CT>& w, F&& f, int) { OBS(std::move(w).get()); }
    template <class Q, class F> static void read_rv(xtl::xproxy_wrapper_impl<Q>& w, F&& f, int) { OBS(static_cast<const std::remove_const_t<Q>&>(std::move(w))); }
    // xproxy_wrapper_impl flavour: the wrapper IS the payload (public base)
    template <class Q> static std::remove_const_t<Q>& prim(xtl::xproxy_wrapper_impl<Q>& w) { return static_cast<std::remove_const_t<Q>&>(w); }
    template <class Q, class F> static void reads_lv(xtl::xproxy_wrapper_impl<Q>& w, F&& f)
    {
        OBS(static_cast<const std::remove_const_t<Q>&>(w));
        OBS(static_cast<const std::remove_const_t<Q>&>(cst(w)));
    }
    template <class PT> static decltype(auto) ptr_prim(PT& p) { return *p; }
};

// ---- optional(value, flag): primary = value ------------------------------------------------
template <bool FLAG_LVALUE>
struct K_opt : KBase
{
    static const char* name() { return FLAG_LVALUE ? "optional(v,flag&)" : "optional(v,flag&&)"; }
    template <class P, class Cat> struct caps
    {
        static const bool constructible = Cat::lvalue || !Cat::cnst || copyable<P>::value;
        static const bool is_const = Cat::cnst;
        static const bool plain = !FLAG_LVALUE && !Cat::lvalue && !Cat::cnst;   // no reference / const member: implicit assignment exists
        static const bool assign = true, assign_needs_copy = false, same_assign = plain && copyable<P>::value, move_assign = plain, vw = copyable<P>::value,
                          swap = true, addr = true, addr_rv = Cat::lvalue || copyable<P>::value, copy_cons = Cat::lvalue || copyable<P>::value;
    };
    template <class S, class WD> static auto wrap(S&& s, WD& wd, int which, std::true_type) { return xtl::optional(std::forward<S>(s), which ? wd.fy : wd.fx); }
    template <class S, class WD> static auto wrap(S&& s, WD&, int, std::false_type) { return xtl::optional(std::forward<S>(s), true); }
    template <class S, class WD> static auto wrap(S&& s, WD& wd, int which) { return wrap(std::forward<S>(s), wd, which, bool_<FLAG_LVALUE>()); }
    template <class W> static decltype(auto) prim(W& w) { return w.value(); }
    template <class W, class F> static void reads_lv(W& w, F&& f)
    {
        OBS(w.value());
        OBS(cst(w).value());
        OBS(xtl::value(w));
        OBS(xtl::value(cst(w)));
    }
    static const int n_rv = 3;
    template <class W, class F> static void read_rv(W& w, F&& f, int i)
    {
        if (i == 0) OBS(std::move(w).value());
        else if (i == 1) OBS(std::move(cst(w)).value());
        else OBS(xtl::value(std::move(w)));
    }
    template <class W> static void swap(W& a, W& b) { a.swap(b); }
    template <class PT> static decltype(auto) ptr_prim(PT& p) { return (*p).value(); }
    template <class W, class P> static void assign_vw(W& w, int v, bool by_copy, P*)
    {
        xtl::xoptional<P, bool> ov(P(v), true);
        if (by_copy) w = ov;
        else w = std::move(ov);
    }
    template <class W, class WD> static bool secondary(W& w, WD& wd, int which, std::string& why)
    {
        const bool* f = &w.has_value();
        const char* lo = reinterpret_cast<const char*>(std::addressof(w));
        bool inside = reinterpret_cast<const char*>(f) >= lo && reinterpret_cast<const char*>(f) < lo + sizeof(W);
        if (FLAG_LVALUE && f != (which ? &wd.fy : &wd.fx)) { why = "has_value() does not designate the flag the optional was built from"; return false; }
        if (!FLAG_LVALUE && !inside) { why = "the flag of an optional built from an rvalue flag is not stored in the optional"; return false; }
        if (!*f) { why = "flag reads false"; return false; }
        return true;
    }
};

// ---- optional(value, flag): primary = flag (payload int) -------------------------------------
struct K_optf : KBase
{
    static const char* name() { return "optional(v&,FLAG)"; }
    template <class P> struct in_design : std::is_same<P, int> {};
    template <class P, class Cat> struct caps
    {
        static const bool constructible = std::is_same<P, int>::value;
        static const bool is_const = Cat::cnst;
        static const bool assign = true, assign_needs_copy = false, same_assign = false, move_assign = false, vw = false,
                          swap = true, addr = true, addr_rv = true, copy_cons = true;
    };
    template <class S, class WD> static auto wrap(S&& s, WD& wd, int which) { return xtl::optional(which ? wd.vy : wd.vx, std::forward<S>(s)); }
    template <class W> static decltype(auto) prim(W& w) { return w.has_value(); }
    template <class W, class F> static void reads_lv(W& w, F&& f)
    {
        OBS(w.has_value());
        OBS(cst(w).has_value());
        OBS(xtl::has_value(w));
        OBS(xtl::has_value(cst(w)));
    }
    static const int n_rv = 3;
    template <class W, class F> static void read_rv(W& w, F&& f, int i)
    {
        if (i == 0) OBS(std::move(w).has_value());
        else if (i == 1) OBS(std::move(cst(w)).has_value());
        else OBS(xtl::has_value(std::move(w)));
    }
    template <class W, class V> static void assign(W& w, V&& v) { w.has_value() = std::forward<V>(v); }
    template <class W> static void swap(W& a, W& b) { a.swap(b); }
    template <class PT> static decltype(auto) ptr_prim(PT& p) { return (*p).has_value(); }
    template <class W, class WD> static bool secondary(W& w, WD& wd, int which, std::string& why)
    {
        // the value component was built from an lvalue: it must alias vx / vy (swap exchanges their values, never the designation)
        if (&w.value() != (which ? &wd.vy : &wd.vx)) { why = "value() does not designate the value the optional was built from"; return false; }
        return true;
    }
};

// ---- masked_value(value, flag): primary = value ---------------------------------------------
template <bool FLAG_LVALUE>
struct K_mask : KBase
{
    static const char* name() { return FLAG_LVALUE ? "masked_value(v,flag&)" : "masked_value(v,flag&&)"; }
    template <class P, class Cat> struct caps
    {
        static const bool constructible = Cat::lvalue || !Cat::cnst || copyable<P>::value;
        static const bool is_const = Cat::cnst;
        static const bool plain = !FLAG_LVALUE && !Cat::lvalue && !Cat::cnst;
        static const bool assign = true, assign_needs_copy = true, same_assign = plain && copyable<P>::value, move_assign = plain, vw = copyable<P>::value,
                          swap = true, addr = false, addr_rv = false, copy_cons = Cat::lvalue || copyable<P>::value;
    };
    template <class S, class WD> static auto wrap(S&& s, WD& wd, int which, std::true_type) { return xtl::masked_value(std::forward<S>(s), which ? wd.fy : wd.fx); }
    template <class S, class WD> static auto wrap(S&& s, WD&, int, std::false_type) { return xtl::masked_value(std::forward<S>(s), true); }
    template <class S, class WD> static auto wrap(S&& s, WD& wd, int which) { return wrap(std::forward<S>(s), wd, which, bool_<FLAG_LVALUE>()); }
    template <class W> static decltype(auto) prim(W& w) { return w.value(); }
    template <class W, class F> static void reads_lv(W& w, F&& f)
    {
        OBS(w.value());
        OBS(cst(w).value());
    }
    static const int n_rv = 2;
    template <class W, class F> static void read_rv(W& w, F&& f, int i)
    {
        if (i == 0) OBS(std::move(w).value());
        else OBS(std::move(cst(w)).value());
    }
    template <class W, class P> static void assign_vw(W& w, int v, bool, P*)
    {
        xtl::xmasked_value<P, bool> mv(P(v), true);
        w = mv;
    }
    // `using std::swap; swap(a, b)` is ambiguous for xmasked_value<T, B> of values (std::swap vs xtl::swap<T1,B1,T2,B2>): use the member
    template <class W> static void swap(W& a, W& b) { a.swap(b); }
    // copy-constructing from a NON-const lvalue selects the converting constructor xmasked_value(T1&&), which is ill-formed when the
    // flag is a reference (m_visible(true)); copy from a const lvalue (implicit copy constructor) in that flavour
    template <class W> static std::conditional_t<FLAG_LVALUE, const W&, W&> copy_src(W& w) { return w; }
    template <class W, class WD> static bool secondary(W& w, WD& wd, int which, std::string& why)
    {
        const bool* f = &w.visible();
        const char* lo = reinterpret_cast<const char*>(std::addressof(w));
        bool inside = reinterpret_cast<const char*>(f) >= lo && reinterpret_cast<const char*>(f) < lo + sizeof(W);
        if (FLAG_LVALUE && f != (which ? &wd.fy : &wd.fx)) { why = "visible() does not designate the flag the masked value was built from"; return false; }
        if (!FLAG_LVALUE && !inside) { why = "the flag of a masked value built from an rvalue flag is not stored in it"; return false; }
        if (!*f) { why = "flag reads false"; return false; }
        return true;
    }
};

// ---- masked_value(value, flag): primary = flag (payload int) --------------------------------
struct K_maskf : KBase
{
    static const char* name() { return "masked_value(v&,FLAG)"; }
    template <class P> struct in_design : std::is_same<P, int> {};
    template <class P, class Cat> struct caps
    {
        static const bool constructible = std::is_same<P, int>::value;
        static const bool is_const = Cat::cnst;
        static const bool assign = true, assign_needs_copy = false, same_assign = false, move_assign = false, vw = false,
                          swap = true, addr = false, addr_rv = false, copy_cons = true;
    };
    template <class S, class WD> static auto wrap(S&& s, WD& wd, int which) { return xtl::masked_value(which ? wd.vy : wd.vx, std::forward<S>(s)); }
    template <class W> static decltype(auto) prim(W& w) { return w.visible(); }
    template <class W, class F> static void reads_lv(W& w, F&& f)
    {
        OBS(w.visible());
        OBS(cst(w).visible());
    }
    static const int n_rv = 2;
    template <class W, class F> static void read_rv(W& w, F&& f, int i)
    {
        if (i == 0) OBS(std::move(w).visible());
        else OBS(std::move(cst(w)).visible());
    }
    template <class W, class V> static void assign(W& w, V&& v) { w.visible() = std::forward<V>(v); }
    template <class W> static void swap(W& a, W& b) { a.swap(b); }
    template <class W> static const W& copy_src(W& w) { return w; }   // see K_mask::copy_src
    template <class W, class WD> static bool secondary(W& w, WD& wd, int which, std::string& why)
    {
        if (&w.value() != (which ? &wd.vy : &wd.vx)) { why = "value() does not designate the value the masked value was built from"; return false; }
        return true;
    }
};

// ---- xcomplex<closure_type_t<S>, P&> (primary = real) / xcomplex<P&, closure_type_t<S>> (primary = imag)
template <bool IMAG>
struct K_cplx : KBase
{
    static const char* name() { return IMAG ? "xcomplex<T&,closure>(imag)" : "xcomplex<closure,T&>(real)"; }
    template <class P> struct in_design : copyable<P> {};   // xcomplex is not used with move-only payloads
    template <class P, class Cat> struct caps
    {
        static const bool constructible = copyable<P>::value;   // move-only payloads are not used with xcomplex
        static const bool is_const = Cat::cnst;
        static const bool assign = true, assign_needs_copy = false, same_assign = false, move_assign = true, vw = false,
                          swap = false, addr = true, addr_rv = true, copy_cons = true;
    };
    template <class S, class WD> static auto wrap(S&& s, WD& wd, int which, std::false_type)
    {
        using P = std::decay_t<S>;
        return xtl::xcomplex<xtl::closure_type_t<S>, P&, false>(std::forward<S>(s), which ? wd.y2 : wd.x2);
    }
    template <class S, class WD> static auto wrap(S&& s, WD& wd, int which, std::true_type)
    {
        using P = std::decay_t<S>;
        return xtl::xcomplex<P&, xtl::closure_type_t<S>, false>(which ? wd.y2 : wd.x2, std::forward<S>(s));
    }
    template <class S, class WD> static auto wrap(S&& s, WD& wd, int which) { return wrap(std::forward<S>(s), wd, which, bool_<IMAG>()); }
    template <class W> static decltype(auto) part(W&& w, std::false_type) { return std::forward<W>(w).real(); }
    template <class W> static decltype(auto) part(W&& w, std::true_type) { return std::forward<W>(w).imag(); }
    template <class W> static decltype(auto) prim(W& w) { return part(w, bool_<IMAG>()); }
    template <class W, class F> static void reads_lv(W& w, F&& f)
    {
        OBS(part(w, bool_<IMAG>()));
        OBS(part(cst(w), bool_<IMAG>()));
    }
    static const int n_rv = 2;
    template <class W, class F> static void read_rv(W& w, F&& f, int i)
    {
        if (i == 0) OBS(part(std::move(w), bool_<IMAG>()));
        else OBS(part(std::move(cst(w)), bool_<IMAG>()));
    }
    template <class W, class V> static void assign(W& w, V&& v, std::false_type) { w = std::forward<V>(v); }
    template <class W, class V> static void assign(W& w, V&& v, std::true_type) { w.imag() = std::forward<V>(v); }
    template <class W, class V> static void assign(W& w, V&& v) { assign(w, std::forward<V>(v), bool_<IMAG>()); }
    template <class PT> static decltype(auto) ptr_prim(PT& p) { return part(*p, bool_<IMAG>()); }
    template <class W, class P> static void assign_vw(W& w, int v, bool, P*)
    {
        xtl::xcomplex<P, P, false> cv(P(v), P(v + 1));
        w = cv;
    }
    template <class W, class WD> static bool secondary(W& w, WD& wd, int which, std::string& why)
    {
        const void* a = IMAG ? static_cast<const void*>(&w.real()) : static_cast<const void*>(&w.imag());
        if (a != static_cast<const void*>(which ? &wd.y2 : &wd.x2)) { why = "the component built from an lvalue does not designate it"; return false; }
        return true;
    }
};

#if C07_KIND == 0
typedef K_closure<false> KIND;
#elif C07_KIND == 1
typedef K_closure<true> KIND;
#elif C07_KIND == 2
typedef K_cptr<false> KIND;
#elif C07_KIND == 3
typedef K_cptr<true> KIND;
#elif C07_KIND == 4
typedef K_proxy KIND;
#elif C07_KIND == 5
typedef K_opt<true> KIND;
#elif C07_KIND == 6
typedef K_opt<false> KIND;
#elif C07_KIND == 7
typedef K_optf KIND;
#elif C07_KIND == 8
typedef K_mask<true> KIND;
#elif C07_KIND == 9
typedef K_mask<false> KIND;
#elif C07_KIND == 10
typedef K_maskf KIND;
#elif C07_KIND == 11
typedef K_cplx<false> KIND;
#elif C07_KIND == 12
typedef K_cplx<true> KIND;
#else
#error "unknown C07_KIND"
#endif

// ------------------------------------------------------------------ building a wrapper from a source of category Cat
template <class K, class Cat, class P> struct maker;
template <class K, class P> struct maker<K, PRV, P>
{
    static auto make(World<P>& wd, int which) { return K::wrap(P(which ? 20 : 30), wd, which); }
};
template <class K, class P> struct maker<K, LV, P>
{
    static auto make(World<P>& wd, int which) { return K::wrap(which ? wd.y : wd.x, wd, which); }
};
template <class K, class P> struct maker<K, CLV, P>
{
    static auto make(World<P>& wd, int which) { return K::wrap(cst(which ? wd.y : wd.x), wd, which); }
};
template <class K, class P> struct maker<K, XV, P>
{
    static auto make(World<P>& wd, int which)
    {
        wd.src[which] = new P(which ? 20 : 30);
        return K::wrap(std::move(*wd.src[which]), wd, which);
    }
};
template <class K, class P> struct maker<K, CXV, P>
{
    static auto make(World<P>& wd, int which)
    {
        wd.src[which] = new P(which ? 20 : 30);
        return K::wrap(std::move(cst(*wd.src[which])), wd, which);
    }
};
template <class K, class P> struct maker<K, XVF, P>
{
    __attribute__((noinline)) static auto make(World<P>& wd, int which)
    {
        P tmp(which ? 20 : 30);
        return K::wrap(std::move(tmp), wd, which);   // the source dies with this frame
    }
};

// ------------------------------------------------------------------ model
struct Cell { int val; bool spec; };
struct H { int cell; bool alias; bool moved; int which; };

static long long g_scen = 0, g_nontrivial = 0, g_ops = 0, g_checks = 0;
static std::set<uint64_t> g_traces;
static char* g_shared = nullptr;   // current sequence, visible to the parent after a crash

static std::string seq_str(const std::vector<int>& ops)
{
    std::string s;
    for (size_t i = 0; i < ops.size(); ++i) { if (i) s += ","; s += vf::str(ops[i]); }
    return s;
}
static std::string seq_names(const std::vector<int>& ops)
{
    std::string s = "[";
    for (size_t i = 0; i < ops.size(); ++i) { if (i) s += ", "; s += op_name[ops[i]]; }
    return s + "]";
}

template <class K, class Cat, class P>
struct Run
{
    typedef typename K::template caps<P, Cat> caps;
    typedef decltype(maker<K, Cat, P>::make(std::declval<World<P>&>(), 0)) W;
    static const bool writable = !caps::is_const;
    static const bool trk = tracked<P>::value;

    const std::vector<int>& ops;
    World<P> wd;
    std::vector<Cell> cells;
    bool failed = false;
    bool effective_write = false;
    uint64_t trace = 1469598103934665603ull;
    std::vector<std::function<bool()>> parents;   // checks of the wrappers further up the recursion
    W* other = nullptr; H hother;
    W* same = nullptr; H hsame;
    int step_no = 0;
    const char* cur_op = "construct";

    explicit Run(const std::vector<int>& o) : ops(o)
    {
        cells.push_back(Cell{10, true});   // 0: x
        cells.push_back(Cell{20, true});   // 1: y
        cells.push_back(Cell{30, true});   // 2: heap source of the wrapper under test
        cells.push_back(Cell{20, true});   // 3: heap source of the other wrapper
    }

    void mix(long long v) { trace = (trace ^ uint64_t(v)) * 1099511628211ull; }

    void fail(const std::string& kind, const std::string& what)
    {
        if (failed) return;
        failed = true;
        std::string sig = std::string("C07/") + K::name() + "/" + Cat::name() + "/" + cur_op + "/" + kind;
        std::string msg = std::string(K::name()) + " built from a source of category " + Cat::name() + ", payload " + pname<P>::get() +
                          ", sequence " + seq_names(ops) + ", at step " + vf::str(step_no) + " (" + cur_op + "): " + what;
        vf::violation(sig, msg, {"--kind", vf::str(C07_KIND), "--group", std::string(Cat::name()) + ":" + pname<P>::get(), "--seq", ops.empty() ? "-" : seq_str(ops)});
    }

    const void* cell_addr(int c) { return c == 0 ? static_cast<const void*>(&wd.x) : static_cast<const void*>(&wd.y); }

    // designation + value of one wrapper
    bool check_wrapper(W& w, const H& h, const char* who)
    {
        if (h.moved) return true;
        ++g_checks;
        const P& r = K::prim(w);
        const void* a = &r;
        const char* lo = reinterpret_cast<const char*>(std::addressof(w));
        bool inside = reinterpret_cast<const char*>(a) >= lo && reinterpret_cast<const char*>(a) < lo + sizeof(W);
        if (h.alias)
        {
            if (a != cell_addr(h.cell))
            {
                fail(step_no == 0 ? "not-aliasing" : "rebound", std::string(who) + ": built from an lvalue but its referent is " + (inside ? "an object stored inside the wrapper (a copy)" : "another object") + ", not the original");
                return false;
            }
        }
        else
        {
#ifndef C07_SKIP_STRUCTURAL   // (self-test of the harness only: lets the registry / sanitizer oracles be exercised alone)
            if (!inside)
#else
            if (false)
#endif
            {
                bool is_src = (a == wd.src[0] || a == wd.src[1]);
                fail("not-owning", std::string(who) + ": built from an rvalue but its value is not stored in the wrapper (it refers to " + (is_src ? "the source object" : "an external object") + ")");
                return false;
            }
        }
        int got = rd(r);
        if (registry::get().errors) { fail("lifetime", std::string(who) + ": " + registry::get().first_error); registry::get().errors = 0; return false; }
        if (cells[h.cell].spec && got != cells[h.cell].val)
        {
            fail("wrong-value", std::string(who) + " reads " + vf::str(got) + ", expected " + vf::str(cells[h.cell].val));
            return false;
        }
        mix(got);
        std::string why;
        if (!K::secondary(w, wd, h.which, why)) { fail("secondary-component", std::string(who) + ": " + why); return false; }
        return true;
    }

    bool check_world()
    {
        int gx = rd(wd.x), gy = rd(wd.y);
        if (cells[0].spec && gx != cells[0].val) { fail("original-value", "original x reads " + vf::str(gx) + ", expected " + vf::str(cells[0].val)); return false; }
        if (cells[1].spec && gy != cells[1].val) { fail("original-value", "original y reads " + vf::str(gy) + ", expected " + vf::str(cells[1].val)); return false; }
        for (int i = 0; i < 2; ++i)
            if (wd.src[i] && cells[2 + i].spec && rd(*wd.src[i]) != cells[2 + i].val)
            {
                fail("source-value", "the source object the wrapper was built from reads " + vf::str(rd(*wd.src[i])) + ", expected " + vf::str(cells[2 + i].val));
                return false;
            }
        mix(gx); mix(gy);
        return true;
    }

    bool check_side()
    {
        registry& r = registry::get();
        if (r.errors) { fail("lifetime", r.first_error); r.errors = 0; return false; }
        if (vf::take_asan()) { fail("asan-report", "AddressSanitizer reported a memory error (see stderr of the replay)"); return false; }
        return true;
    }

    bool check_all(W& w, const H& h)
    {
        if (failed) return false;
        if (!check_side()) return false;
        if (!check_wrapper(w, h, "the wrapper")) return false;
        if (other && !check_wrapper(*other, hother, "the second wrapper")) return false;
        if (same && !check_wrapper(*same, hsame, "the second wrapper on the same referent")) return false;
        for (auto& p : parents) if (!p()) return false;
        if (!check_world()) return false;
        if (!check_side()) return false;
        return true;
    }

    // new handle for a wrapper built from the source category
    H fresh(int which)
    {
        if (Cat::lvalue) return H{which, true, false, which};
        cells.push_back(Cell{which ? 20 : 30, true});
        if (Cat::heap && !Cat::cnst) cells[2 + which].spec = false;   // moved-from (or not): unspecified
        return H{int(cells.size()) - 1, false, false, which};
    }

    void go()
    {
        registry& reg = registry::get();
        reg.errors = 0;
        reg.watch[0] = trk ? static_cast<const void*>(&wd.x) : nullptr;
        reg.watch[1] = trk ? static_cast<const void*>(&wd.y) : nullptr;
        size_t base_live = reg.live.size();
        vf::take_asan();
        {
            reg.reset_events();
            size_t l0 = reg.live.size();
            W w = maker<K, Cat, P>::make(wd, 0);
            size_t l1 = reg.live.size();
            H h = fresh(0);
            size_t heap = (Cat::heap ? 1 : 0);
            if (trk && Cat::lvalue && reg.special_calls() != 0)
                fail("copied-original", "building the wrapper from an lvalue invoked " + vf::str(reg.copy_ctor) + " copy / " + vf::str(reg.move_ctor) + " move constructions and " +
                                            vf::str(reg.copy_assign + reg.move_assign) + " assignments of the payload (expected none)");
#ifdef C07_SKIP_STRUCTURAL
            l1 = l0 + heap + 1;
#endif
            if (trk && !Cat::lvalue && l1 != l0 + heap + 1)
                fail("owned-count", "building the wrapper from an rvalue left " + vf::str((long long)(l1 - l0 - heap)) + " owned payload objects alive (expected exactly 1)");
            W o = maker<K, Cat, P>::make(wd, 1);
            other = std::addressof(o); hother = fresh(1);
            check_all(w, h);
            // a second wrapper on the same referent (lvalue categories only)
            lvalue_part(w, h, bool_<Cat::lvalue>());
        }
        // everything destroyed: nothing may be left alive, nothing destroyed twice
        delete wd.src[0]; wd.src[0] = nullptr;
        delete wd.src[1]; wd.src[1] = nullptr;
        cur_op = "teardown";
        check_side();
        if (!failed && reg.live.size() != base_live)
            fail("leak", vf::str((long long)(reg.live.size()) - (long long)(base_live)) + " payload objects still alive after every wrapper was destroyed");
        ++g_scen;
        if (effective_write) ++g_nontrivial;
        g_traces.insert(trace);
    }

    void lvalue_part(W& w, H& h, std::true_type)
    {
        W s = maker<K, Cat, P>::make(wd, 0);
        same = std::addressof(s); hsame = fresh(0);
        step(w, h, 0);
        same = nullptr;
    }
    void lvalue_part(W& w, H& h, std::false_type) { step(w, h, 0); }

    void finish(W& w, H& h)
    {
        // the sources die (if they have not yet); everything must still be valid
        cur_op = "after-source-died";
        delete wd.src[0]; wd.src[0] = nullptr;
        delete wd.src[1]; wd.src[1] = nullptr;
        check_all(w, h);
        if (!failed) do_read(w, h);
    }

    // ---- the operations -----------------------------------------------------------------
    // READ: the lvalue accessors observe the live wrapper. The &&-qualified accessors (and anything else that treats the wrapper as an
    // rvalue) MAY CONSUME an owning wrapper (std::optional-style value() && moves the owned value out), so for an owner each of them is
    // applied to a fresh copy made for that one observation and only the RETURNED value is judged. For a wrapper built from an lvalue
    // they are applied to the live wrapper: an rvalue wrapper gives no right to move from the referent, and the checks that follow
    // (originals against the model) decide that.
    template <class WW>
    void observe(WW& target, const H& h, bool rvalue_forms, int form)
    {
        const void* expect_addr = &K::prim(target);
        int expect_val = cells[h.cell].val;
        bool spec = cells[h.cell].spec;
        Run* self = this;
        auto f = [self, expect_addr, expect_val, spec](const char* what, const P& r, bool is_lv) {
            if (self->failed) return;
            if (is_lv && static_cast<const void*>(&r) != expect_addr)
                self->fail("accessor-designation", std::string(what) + " returns a reference to a different object than get()/value()");
            int got = rd(r);
            if (!self->failed && spec && got != expect_val)
                self->fail("wrong-value", std::string(what) + " reads " + vf::str(got) + ", expected " + vf::str(expect_val));
            self->mix(got);
        };
        if (!rvalue_forms)
        {
            K::reads_lv(target, f);
            static_if(bool_<copyable<P>::value || Cat::lvalue>(), [&](auto& t_) { K::reads_lv_copying(t_, f); }, target);
        }
        else
            static_if(bool_<copyable<P>::value || Cat::lvalue>(), [&](auto& t_) { K::read_rv(t_, f, form); }, target);
    }

    void do_read(W& w, const H& h)
    {
        if (h.moved) return;
        observe(w, h, false, 0);
        for (int i = 0; i < K::n_rv && !failed; ++i)
        {
            if (h.alias) observe(w, h, true, i);
            else
                static_if(bool_<caps::copy_cons>(), [&](auto& w_) {
                    std::remove_reference_t<decltype(w_)> t(K::copy_src(w_));   // consumed by the observation
                    this->observe(t, h, true, i);
                }, w);
        }
    }

    void note_write(int c, int v)
    {
        if (!cells[c].spec || cells[c].val != v) effective_write = true;
        cells[c].val = v; cells[c].spec = true;
    }

    void step(W& w, H& h, size_t i)
    {
        if (failed) return;
        if (i == ops.size()) { finish(w, h); return; }
        registry& reg = registry::get();
        int op = ops[i];
        step_no = int(i) + 1;
        cur_op = op_name[op];
        int v = 100 + 10 * int(i);
        ++g_ops;
        reg.reset_events();
        bool no_copy_op = false;     // the operation must not construct a payload from the originals
        bool no_special_op = false;  // the operation must not touch the payload at all (alias wrappers)
        switch (op)
        {
        case READ:
            do_read(w, h);
            no_special_op = true;
            break;
        case ASSIGN_RV:
            static_if(bool_<writable && caps::assign && !caps::assign_needs_copy>(), [&](auto& w_) { K::assign(w_, P(v)); }, w);
            static_if(bool_<writable && caps::assign && caps::assign_needs_copy && copyable<P>::value>(), [&](auto& w_) { K::assign(w_, P(v)); }, w);
            note_write(h.cell, v);
            no_copy_op = true;
            break;
        case ASSIGN_LV:
            static_if(bool_<writable && caps::assign && copyable<P>::value>(), [&](auto& w_) {
                P t(v);
                K::assign(w_, t);
                if (rd(t) != v) this->fail("source-value", "assigning an lvalue through the wrapper changed the assigned-from object");
            }, w);
            note_write(h.cell, v);
            no_copy_op = true;
            break;
        case ASSIGN_SAME:
            static_if(bool_<writable && caps::same_assign && copyable<P>::value && Cat::lvalue>(), [&](auto& w_, auto* s_) { w_ = *s_; }, w, same);
            break;
        case ASSIGN_OTHER:
            static_if(bool_<writable && caps::same_assign && copyable<P>::value>(), [&](auto& w_, auto* o_) { w_ = *o_; }, w, other);
            if (cells[hother.cell].spec) note_write(h.cell, cells[hother.cell].val);
            else cells[h.cell].spec = false;
            break;
        case MOVE_ASSIGN_OTHER:
            static_if(bool_<writable && caps::move_assign>(), [&](auto& w_, auto* o_) { w_ = std::move(*o_); }, w, other);
            if (cells[hother.cell].spec) note_write(h.cell, cells[hother.cell].val);
            else cells[h.cell].spec = false;
            cells[hother.cell].spec = false;   // swapped with, moved from or copied: not stated
            break;
        case ASSIGN_VW:
            static_if(bool_<writable && caps::vw>(), [&](auto& w_) { K::assign_vw(w_, v, (i % 2) == 0, static_cast<P*>(nullptr)); }, w);
            note_write(h.cell, v);
            no_copy_op = true;
            break;
        case COPY_CONS:
            static_if(bool_<caps::copy_cons>(), [&](auto& w_) {
                std::remove_reference_t<decltype(w_)> c(K::copy_src(w_));
                H hc = h;
                if (!h.alias) { this->cells.push_back(this->cells[h.cell]); hc.cell = int(this->cells.size()) - 1; }
                if (h.alias && trk && registry::get().special_calls() != 0)
                    this->fail("copied-original", "copying a wrapper built from an lvalue invoked payload copy/move operations (expected none)");
                auto* wp = std::addressof(w_); H* hp = &h;
                this->parents.push_back([this, wp, hp]() { return this->check_wrapper(*wp, *hp, "the wrapper that was copied from"); });
                if (this->check_all(c, hc)) this->step(c, hc, i + 1);
                this->parents.pop_back();
            }, w);
            return;
        case MOVE_CONS:
            static_if(std::true_type(), [&](auto& w_) {
                std::remove_reference_t<decltype(w_)> m(std::move(w_));
                H hm = h;
                if (!h.alias) { this->cells.push_back(this->cells[h.cell]); hm.cell = int(this->cells.size()) - 1; }
                if (h.alias && trk && registry::get().special_calls() != 0)
                    this->fail("copied-original", "moving a wrapper built from an lvalue invoked payload copy/move operations (expected none)");
                h.moved = true;   // a moved-from wrapper is not used again
                if (this->check_all(m, hm)) this->step(m, hm, i + 1);
            }, w);
            return;
        case SWAP:
            static_if(bool_<writable && caps::swap>(), [&](auto& w_, auto* o_) { K::swap(w_, *o_); }, w, other);
            {
                Cell a = cells[h.cell], b = cells[hother.cell];
                if (a.spec != b.spec || a.val != b.val) effective_write = true;
                cells[h.cell] = b; cells[hother.cell] = a;
            }
            break;
        case ADDR:
            static_if(bool_<caps::addr>(), [&](auto& w_) {
                auto p = &w_;
                const P& r = K::ptr_prim(p);
                if (static_cast<const void*>(&r) != static_cast<const void*>(&K::prim(w_)))
                    this->fail("address-of-designation", "&wrapper designates a different object than the wrapper");
                static_if(bool_<writable>(), [&](auto& p_) { K::ptr_prim(p_) = P(v); }, p);
            }, w);
            if (writable) note_write(h.cell, v);
            no_copy_op = true;
            break;
        case ADDR_RV:
            static_if(bool_<caps::addr_rv && caps::copy_cons>(), [&](auto& w_) {
                std::remove_reference_t<decltype(w_)> t(K::copy_src(w_));
                auto p = &std::move(t);
                const P& r = K::ptr_prim(p);
                const void* a = &r;
                const char* lo = reinterpret_cast<const char*>(std::addressof(p));
                bool inside = reinterpret_cast<const char*>(a) >= lo && reinterpret_cast<const char*>(a) < lo + sizeof(p);
                if (h.alias && a != this->cell_addr(h.cell))
                    this->fail("address-of-designation", "&std::move(wrapper) of a wrapper built from an lvalue does not designate the original");
                if (!h.alias && !inside)
                    this->fail("address-of-designation", "&std::move(wrapper) of an owning wrapper does not own its value (it refers to an object outside the pointer object)");
                int got = rd(r);
                if (!this->failed && this->cells[h.cell].spec && got != this->cells[h.cell].val)
                    this->fail("wrong-value", "&std::move(wrapper) reads " + vf::str(got) + ", expected " + vf::str(this->cells[h.cell].val));
                static_if(bool_<writable>(), [&](auto& p_) { K::ptr_prim(p_) = P(v); }, p);
            }, w);
            if (writable && h.alias) note_write(h.cell, v);   // an owning copy is independent: the wrapper keeps its value
            break;
        case SRC_WRITE:
            // write the originals / the still living source directly: aliases must see it, owners must not
            wd.x = P(v);
            note_write(0, v);
            if (wd.src[0]) { *wd.src[0] = P(v + 1); cells[2] = Cell{v + 1, true}; }
            no_copy_op = true;
            break;
        case DIE:
            delete wd.src[0]; wd.src[0] = nullptr;
            delete wd.src[1]; wd.src[1] = nullptr;
            break;
        }
        if (failed) return;
        if (trk && h.alias && (no_copy_op || no_special_op) && reg.ctor_from_watched != 0)
            fail("copied-original", "the operation constructed " + vf::str(reg.ctor_from_watched) + " payload object(s) from the original (a wrapper built from an lvalue must not copy or move it)");
        if (!failed && trk && h.alias && no_special_op && reg.special_calls() != 0)
            fail("copied-original", "reading through a wrapper built from an lvalue invoked " + vf::str(reg.special_calls()) + " payload copy/move operations (expected none)");
        if (!check_all(w, h)) return;
        step(w, h, i + 1);
    }

    // which operations exist for this (kind, category, payload)
    static void avail(bool* a)
    {
        for (int i = 0; i < NOPS; ++i) a[i] = false;
        a[READ] = true;
        a[ASSIGN_RV] = writable && caps::assign && (!caps::assign_needs_copy || copyable<P>::value);
        a[ASSIGN_LV] = writable && caps::assign && copyable<P>::value;
        a[ASSIGN_SAME] = writable && caps::same_assign && copyable<P>::value && Cat::lvalue;
        a[ASSIGN_OTHER] = writable && caps::same_assign && copyable<P>::value;
        a[MOVE_ASSIGN_OTHER] = writable && caps::move_assign;
        a[ASSIGN_VW] = writable && caps::vw;
        a[COPY_CONS] = caps::copy_cons;
        a[MOVE_CONS] = true;
        a[SWAP] = writable && caps::swap;
        a[ADDR] = caps::addr;
        a[ADDR_RV] = caps::addr_rv && caps::copy_cons;
        a[SRC_WRITE] = true;
        a[DIE] = Cat::heap;
    }
};

// ------------------------------------------------------------------ enumeration of one group
static double now_s()
{
    return std::chrono::duration<double>(std::chrono::steady_clock::now().time_since_epoch()).count();
}

template <class K, class Cat, class P>
static void enumerate(int maxlen, const std::vector<int>* single, double deadline)
{
    typedef Run<K, Cat, P> R;
    bool a[NOPS];
    R::avail(a);
    std::vector<int> alphabet;
    for (int i = 0; i < NOPS; ++i) if (a[i]) alphabet.push_back(i);
    std::string group = std::string(K::name()) + " / " + Cat::name() + " / " + pname<P>::get();
    if (single)
    {
        for (int o : *single) if (o < 0 || o >= NOPS || !a[o]) { vf::note("replay: operation not available in " + group); return; }
        if (g_shared) std::snprintf(g_shared, 4000, "%s", single->empty() ? "-" : seq_str(*single).c_str());
        R r(*single);
        r.go();
        return;
    }
    long long before = g_scen;
    std::vector<int> seq, sample_seq;
    bool capped = false;
    // iterative deepening: all sequences of length 0, then 1, ... so that a cap names a completed length
    int completed = -1;
    for (int len = 0; len <= maxlen && !capped; ++len)
    {
        std::vector<int> idx(len, 0);
        while (true)
        {
            seq.clear();
            for (int k = 0; k < len; ++k) seq.push_back(alphabet[idx[k]]);
            if (g_shared) std::snprintf(g_shared, 4000, "%s", seq.empty() ? "-" : seq_str(seq).c_str());
            R r(seq);
            r.go();
            if (g_scen - before == 777 || (len == 2 && sample_seq.empty())) sample_seq = seq;
            if ((g_scen & 255) == 0 && now_s() > deadline) { capped = true; break; }
            int k = len - 1;
            while (k >= 0 && ++idx[k] == int(alphabet.size())) { idx[k] = 0; --k; }
            if (k < 0) break;
        }
        if (!capped) completed = len;
    }
    if (capped) vf::cap("deadline reached in group " + group + ": all sequences up to length " + vf::str(completed) + " done, length " + vf::str(completed + 1) + " incomplete");
    vf::smax("max_sequence_length_completed", completed);
    if (!sample_seq.empty() && std::is_same<P, Counted>::value &&
        ((std::is_same<Cat, LV>::value && (C07_KIND == 0 || C07_KIND == 4 || C07_KIND == 5 || C07_KIND == 8 || C07_KIND == 11)) ||
         (std::is_same<Cat, XV>::value && (C07_KIND == 0 || C07_KIND == 6))))
    {
        std::string s;
        for (int o : alphabet) { s += op_name[o]; s += " "; }
        vf::sample(group + ": every sequence of length <= " + vf::str(maxlen) + " over { " + s + "}, e.g. " + seq_names(sample_seq), 6);
    }
    vf::stat(std::string("scenarios[") + K::name() + "]", g_scen - before);
}

template <class K, class Cat, class P>
static void group_run(std::true_type, int maxlen, const std::vector<int>* single, double deadline) { enumerate<K, Cat, P>(maxlen, single, deadline); }
template <class K, class Cat, class P>
static void group_run(std::false_type, int, const std::vector<int>*, double) {}

struct GroupEntry { std::string name; bool constructible; void (*fn)(int, const std::vector<int>*, double); };

template <class K, class Cat, class P>
static void reg_group(std::vector<GroupEntry>& v)
{
    typedef typename K::template caps<P, Cat> caps;
    GroupEntry g;
    g.name = std::string(Cat::name()) + ":" + pname<P>::get();
    g.constructible = caps::constructible;
    g.fn = [](int maxlen, const std::vector<int>* single, double deadline) { group_run<K, Cat, P>(bool_<caps::constructible>(), maxlen, single, deadline); };
    v.push_back(g);
}
template <class K, class P>
static void reg_cats(std::vector<GroupEntry>& v)
{
    if (!K::template in_design<P>::value) return;
    reg_group<K, PRV, P>(v); reg_group<K, LV, P>(v); reg_group<K, CLV, P>(v);
    reg_group<K, XV, P>(v); reg_group<K, CXV, P>(v); reg_group<K, XVF, P>(v);
}

static void flush_child_stats()
{
    vf::reporter& r = vf::reporter::get();
    r.stats["evaluations"] += g_scen;
    r.stats["distinct_nontrivial"] += g_nontrivial;
    r.stats["operations_applied"] += g_ops;
    r.stats["wrapper_checks"] += g_checks;
    r.stats["distinct_outcome_traces"] += (long long)g_traces.size();
    for (auto& kv : r.stats) std::printf("@@{\"t\":\"stat\",\"k\":\"%s\",\"v\":%lld}\n", vf::jesc(kv.first).c_str(), kv.second);
    for (auto& kv : r.maxes) std::printf("@@{\"t\":\"max\",\"k\":\"%s\",\"v\":%lld}\n", vf::jesc(kv.first).c_str(), kv.second);
    for (auto& kv : r.per_sig)
        if (kv.second > 1) std::printf("@@{\"t\":\"note\",\"v\":\"%s occurred %d times\"}\n", vf::jesc(kv.first).c_str(), kv.second);
    std::fflush(stdout);
}

int main(int argc, char** argv)
{
    std::vector<GroupEntry> groups;
    reg_cats<KIND, int>(groups);
    reg_cats<KIND, Counted>(groups);
    reg_cats<KIND, MoveOnly>(groups);

    std::string want, seqarg;
    int maxlen = 3;
    double deadline_s = 1e9;
    bool list = false, have_seq = false;
    for (int i = 1; i < argc; ++i)
    {
        std::string a = argv[i];
        if (a == "--list") list = true;
        else if (a == "--group" && i + 1 < argc) want = argv[++i];
        else if (a == "--len" && i + 1 < argc) maxlen = std::atoi(argv[++i]);
        else if (a == "--seq" && i + 1 < argc) { seqarg = argv[++i]; have_seq = true; }
        else if (a == "--deadline" && i + 1 < argc) deadline_s = std::atof(argv[++i]);
        else if (a == "--kind" && i + 1 < argc) ++i;   // informational (the binary is per kind)
    }
    if (list)
    {
        for (auto& g : groups) std::printf("%s %d\n", g.name.c_str(), g.constructible ? 1 : 0);
        return 0;
    }
    std::vector<int> single;
    if (have_seq && seqarg != "-")
    {
        size_t p = 0;
        while (p < seqarg.size())
        {
            size_t q = seqarg.find(',', p);
            if (q == std::string::npos) q = seqarg.size();
            single.push_back(std::atoi(seqarg.substr(p, q - p).c_str()));
            p = q + 1;
        }
    }
    g_shared = static_cast<char*>(mmap(nullptr, 4096, PROT_READ | PROT_WRITE, MAP_SHARED | MAP_ANONYMOUS, -1, 0));
    double deadline = now_s() + deadline_s;
    bool found = false;
    for (auto& g : groups)
    {
        if (!want.empty() && g.name != want) continue;
        found = true;
        if (!g.constructible)
        {
            vf::stat("groups_not_constructible", 1);
            std::printf("@@{\"t\":\"note\",\"v\":\"%s\"}\n", vf::jesc(std::string(KIND::name()) + " from " + g.name + ": not constructible by the committed capability table (C++" + (g_cxx20 ? "20" : "14") + "), no executions").c_str());
            continue;
        }
        std::fflush(stdout);
        g_shared[0] = 0;
        pid_t pid = fork();
        if (pid == 0)
        {
            vf::reporter::get().stats.clear();
            vf::reporter::get().maxes.clear();
            g.fn(maxlen, have_seq ? &single : nullptr, deadline);
            flush_child_stats();
            _exit(0);
        }
        int st = 0;
        waitpid(pid, &st, 0);
        if (!(WIFEXITED(st) && WEXITSTATUS(st) == 0))
        {
            // the child died: attribute the crash to the sequence it was executing
            std::string s = g_shared;
            std::string how = WIFSIGNALED(st) ? "signal " + vf::str(WTERMSIG(st)) : "exit status " + vf::str(WEXITSTATUS(st));
            std::string cat = g.name.substr(0, g.name.find(':'));
            vf::violation(std::string("C07/") + KIND::name() + "/" + cat + "/crash/" + (WIFSIGNALED(st) ? "signal-" + vf::str(WTERMSIG(st)) : "abnormal-exit"),
                          std::string(KIND::name()) + " from " + g.name + ": the process died (" + how + ") while executing the sequence " + s,
                          {"--kind", vf::str(C07_KIND), "--group", g.name, "--seq", s.empty() ? "-" : s});
        }
        vf::stat("groups_run", 1);
    }
    if (!want.empty() && !found) { std::fprintf(stderr, "no such group: %s\n", want.c_str()); return 2; }
    vf::done();
    return 0;
}
