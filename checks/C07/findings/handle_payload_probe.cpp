// C07 - observations on the UNCHANGED tree made while the reference-like payload part (gen_nest.py) was written. They are NOT judged by
// the check (NOTES.md section 11); this program keeps them reproducible:
//
//   g++ -std=c++14 -I/repo/include -I/verif/checks/C07 -I/verif/engine checks/C07/findings/handle_payload_probe.cpp -o /tmp/hp && /tmp/hp
//
// F1  xoptional::swap (xoptional.hpp:666-670) calls std::swap QUALIFIED on the value member. For a payload whose swap is its own
//     function (a nested reference closure, a proxy / view class) the generic three-move swap is used: a.swap(b) leaves the referents
//     of a nested closure unchanged, and for a view class both referents end up with b's value (a's value is lost).
//     xmasked_value::swap and xclosure_wrapper::swap use `using std::swap; swap(...)` and exchange the referents.
// F2  xclosure_wrapper takes addresses with the built-in spelling (`return &e;` in get_storage_init, `return &val;` in get_pointer,
//     xclosure.hpp:318-343). xclosure_wrapper<T&> overloads operator& (address of the REFERENT), so closure(w) for an LVALUE closure
//     wrapper w and operator& of closure(closure(x)) are ill-formed (probed by the check as capability gaps).
// F3  xproxy_wrapper_impl<P> has no swap: `using std::swap; swap(pa, pb)` on two proxy wrappers picks the generic std::swap (exact
//     match beats the derived-to-base xtl::swap of P), which for a reference-like P is not a swap. (pa.swap(pb), inherited from P,
//     is fine.) This is the caller's choice of function rather than a library operation; recorded for completeness.
#include <xtl/xclosure.hpp>
#include <xtl/xmasked_value.hpp>
#include <xtl/xoptional.hpp>
#include <xtl/xproxy_wrapper.hpp>

#include "nest_common.hpp"

#include <cstdio>

int main()
{
    int bad = 0;
    auto show = [&](const char* what, int x, int y, int ex, int ey) {
        bool ok = x == ex && y == ey;
        std::printf("%-72s x=%d y=%d  (swap exchanges referent values: x=%d y=%d)  %s\n", what, x, y, ex, ey, ok ? "ok" : "DIFFERS");
        if (!ok) ++bad;
    };
    { int x = 1, y = 2; auto a = xtl::optional(xtl::closure(x), true), b = xtl::optional(xtl::closure(y), true); a.swap(b); show("F1 optional(closure(x),true).swap(optional(closure(y),true))", x, y, 2, 1); }
    { int x = 1, y = 2; auto a = xtl::optional(hv::View<int>(x), true), b = xtl::optional(hv::View<int>(y), true); a.swap(b); show("F1 optional(View(x),true).swap(optional(View(y),true))", x, y, 2, 1); }
    { int x = 1, y = 2; hv::View<int> vx(x), vy(y); bool f = true, g = true; auto a = xtl::optional(vx, f), b = xtl::optional(vy, g); a.swap(b); show("F1 optional(view_lvalue,flag).swap(...)   [xoptional<View&,bool&>]", x, y, 2, 1); }
    { int x = 1, y = 2; auto a = xtl::masked_value(xtl::closure(x), true), b = xtl::masked_value(xtl::closure(y), true); a.swap(b); show("   masked_value(closure(x),true).swap(...)", x, y, 2, 1); }
    { int x = 1, y = 2; auto a = xtl::closure(xtl::closure(x)), b = xtl::closure(xtl::closure(y)); a.swap(b); show("   closure(closure(x)).swap(closure(closure(y)))", x, y, 2, 1); }
    { int x = 1, y = 2; auto a = xtl::proxy_wrapper(xtl::closure(x)), b = xtl::proxy_wrapper(xtl::closure(y)); using std::swap; swap(a, b); show("F3 using std::swap; swap(proxy_wrapper(closure(x)), proxy_wrapper(closure(y)))", x, y, 2, 1); }
    { int x = 1, y = 2; auto a = xtl::proxy_wrapper(xtl::closure(x)), b = xtl::proxy_wrapper(xtl::closure(y)); a.swap(b); show("   proxy_wrapper(closure(x)).swap(proxy_wrapper(closure(y)))", x, y, 2, 1); }
    std::printf("%d observation(s) differ from 'swap exchanges referent values'\n", bad);
    return 0;
}
