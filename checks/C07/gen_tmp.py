"""C07 temporary-wrapper part: generator of the cases "the WRAPPER is a temporary (or an xvalue / a named object) and what it hands
out - implicit conversion or accessor - initialises something that is used after the full-expression".

Rule (independent of the library, the accessor rule of gen_static.py executed instead of type-checked):
  * a wrapper built from an RVALUE owns a decayed value; an rvalue of such a wrapper hands out a VALUE, so a `const T&`, `T&&`,
    `auto&&` or an aggregate's reference member initialised from it is bound to a lifetime-extended INDEPENDENT object: alive and
    equal after the wrapper temporary is gone, not inside the dead wrapper's storage, independent of the source object;
  * a wrapper built from an LVALUE hands out the original (or a copy of it): valid after the wrapper temporary is gone, equal to
    the original, the original untouched;
  * a named wrapper that is still alive: the result is valid and equal (a reference into the wrapper and a copy are both accepted).

A case is (kind, source category, form); cases x payload {int, Counted, std::string} are all run. Ill-formed ones are a committed
list (KNOWN_ILL_FORMED), probed every run.
"""

PAYLOADS = [("int", "int"), ("counted", "c07::Counted"), ("string", "std::string")]

# source categories of the closure: label, expression for the value k (1 or 2), owning?
SOURCES = [
    ("T(prvalue)", lambda k: "PVP::mk(%d)" % k, True),
    ("T&&", lambda k: "std::move(E.s%s)" % ("" if k == 1 else "2"), True),
    ("const T&&", lambda k: "std::move(c07t::cst(E.s%s))" % ("" if k == 1 else "2"), True),
    ("T&", lambda k: "E.x%s" % ("" if k == 1 else "2"), False),
    ("const T&", lambda k: "c07t::cst(E.x%s)" % ("" if k == 1 else "2"), False),
]


class Case(object):
    def __init__(self, kind, closure, form, body):
        self.kind, self.closure, self.form, self.body = kind, closure, form, body
        self.id = "%s|%s|%s" % (kind, closure, form)


def kinds():
    """kind -> (factory expression of the source(s), list of (accessor label, pattern with {W}, hands out a value on an rvalue owner))"""
    def one(fac):
        return lambda src, k: "%s(%s)" % (fac, src(k))

    def flagged(fac):
        return lambda src, k: "%s(%s, true)" % (fac, src(k))

    def cplx_re(src, k):
        return "c07t::cplx(%s, E.x%s)" % (src(k), "2" if k == 1 else "")

    def cplx_im(src, k):
        return "c07t::cplx(E.x%s, %s)" % ("2" if k == 1 else "", src(k))

    return [
        ("closure", one("xtl::closure"), [("conversion", "{W}", True), ("get()", "{W}.get()", True)]),
        ("const_closure", one("xtl::const_closure"), [("conversion", "{W}", True), ("get()", "{W}.get()", True)]),
        ("proxy_wrapper", one("xtl::proxy_wrapper"), [("conversion", "{W}", True)]),
        ("optional", flagged("xtl::optional"), [("value()", "{W}.value()", True), ("xtl::value()", "xtl::value({W})", True), ("value_or()", "{W}.value_or(PVP::mk(7))", True)]),
        ("masked_value", flagged("xtl::masked_value"), [("value()", "{W}.value()", True), ("conversion", "{W}", True)]),
        ("masked_value(v)", one("xtl::masked_value"), [("value()", "{W}.value()", True)]),
        ("xcomplex.real", cplx_re, [("real()", "{W}.real()", True), ("xtl::real()", "xtl::real({W})", True)]),
        ("xcomplex.imag", cplx_im, [("imag()", "{W}.imag()", True), ("xtl::imag()", "xtl::imag({W})", True)]),
        # operator* of a pointer-like object gives a reference to what it points to (by design also for a temporary owner, like
        # *std::make_unique<T>()): reference forms are enumerated for lvalue sources only, value forms for every source
        ("closure_pointer", one("xtl::closure_pointer"), [("operator*", "*{W}", False), ("operator->", "*({W}.operator->())", False)]),
    ]


def payloads(tier):
    """std::string (heap storage, no registry: decided by the AddressSanitizer shadow query alone) joins in the thorough tier"""
    return PAYLOADS[:2] if tier == "quick" else PAYLOADS


def cases_for(tag, tier="thorough"):
    return cases()


def is_probe(c, tag, tier):
    """listed cases that are compiled on their own: one form per entry in the quick tier, one form per entry and accessor otherwise"""
    return listed(c, tag) and (c.form == "conversion: T v = temporary" or (tier != "quick" and c.form.endswith(": T v = temporary")))


def cases():
    out = []

    def add(kind, closure, form, body):
        out.append(Case(kind, closure, form, body))

    for kind, fac, accs in kinds():
        for slabel, src, owning in SOURCES:
            J = "own" if owning else "alias"
            for alabel, pat, by_value in accs:
                def X(k, spied=False):
                    w = fac(src, k)
                    if spied:
                        w = "c07t::spy(%s)" % w
                    return pat.replace("{W}", w)
                refs_ok = by_value or not owning     # may a reference be bound to what the TEMPORARY wrapper hands out ?
                implicit = alabel == "conversion"
                nm = alabel + ": "
                # ---- the wrapper is the temporary returned by the factory
                if refs_ok:
                    add(kind, slabel, nm + "const T& r = temporary", "const P& r = %s; E.%s(r, 1, \"the const reference\");" % (X(1), J))
                    add(kind, slabel, nm + "two temporaries, const T& each",
                        "const P& r = %s; const P& r2 = %s; E.%s(r, 1, \"the first const reference\"); E.%s(r2, 2, \"the second const reference\"); E.distinct(r, r2);" % (X(1), X(2), J, J))
                    add(kind, slabel, nm + "aggregate{const T& member} = temporary", "struct H { const P& r; }; H h{%s}; E.%s(h.r, 1, \"the reference member\");" % (X(1), J))
                    if kind != "proxy_wrapper":
                        # (xproxy_wrapper_impl<T> IS-A T: an xvalue of it is an xvalue T, binding a reference to it extends nothing - C++, not the library)
                        add(kind, slabel, nm + "const T& r = temporary passed on as an xvalue",
                            "const P& r = %s; E.%s(r, 1, \"the const reference\");" % (X(1, True), J))
                    if owning and not slabel.startswith("const"):   # a const source gives a const value closure: T&& cannot bind to it
                        add(kind, slabel, nm + "T&& r = temporary", "P&& r = %s; E.own(r, 1, \"the rvalue reference\");" % X(1))
                    if not implicit:
                        add(kind, slabel, nm + "auto&& r = temporary", "auto&& r = %s; E.%s(r, 1, \"the forwarding reference\");" % (X(1), J))
                add(kind, slabel, nm + "T v = temporary", "P v = %s; E.%s(v, 1, \"the value\");" % (X(1), "own" if owning else "alias"))
                add(kind, slabel, nm + "T v(temporary)", "P v(%s); E.%s(v, 1, \"the value\");" % (X(1), J))
                add(kind, slabel, nm + "v = temporary", "P v = PVP::mk(5); v = %s; E.%s(v, 1, \"the assigned value\");" % (X(1), J))
                add(kind, slabel, nm + "return temporary by value", "auto fn = [&]() -> P { return %s; }; P v = fn(); E.%s(v, 1, \"the returned value\");" % (X(1), J))
                add(kind, slabel, nm + "callee(const T&) called with temporary", "E.callee(%s, 1);" % X(1))
                # ---- the wrapper is a named object that stays alive (lvalue, const lvalue, xvalue)
                mk = "auto w = %s; " % fac(src, 1)
                for wl, we in (("w", "w"), ("const w", "c07t::cst(w)"), ("std::move(w)", "std::move(w)")):
                    if wl == "const w" and (kind.startswith("masked_value") and implicit):
                        continue   # xmasked_value's conversion operator is not const-qualified (outside the rule: C04's business)
                    add(kind, slabel, nm + "const T& r = " + wl, mk + "const P& r = %s; E.live(r, 1, \"the const reference\");" % pat.replace("{W}", we))
    ids = set()
    for c in out:
        assert c.id not in ids, c.id
        ids.add(c.id)
    return out


# committed: ill-formed on the pinned tree: (kind, closure[, form[, payload_tag]]) -> reason
_NOCONSTRV = "const_closure_type_t<const T&&> is T and xclosure_wrapper<T> has no constructor taking a const rvalue (static part: same entry)"
KNOWN_ILL_FORMED = {
    ("const_closure", "const T&&"): _NOCONSTRV,
}


def _keys(c, payload_tag):
    return ((c.kind, c.closure), (c.kind, c.closure, c.form), (c.kind, c.closure, c.form, payload_tag), (c.kind, c.closure, None, payload_tag))


def listed(c, payload_tag):
    return any(k in KNOWN_ILL_FORMED for k in _keys(c, payload_tag))


def reason(c):
    for k, v in KNOWN_ILL_FORMED.items():
        if k[:2] == (c.kind, c.closure):
            return v
    return ""


def cstr(s):
    return '"' + s.replace("\\", "\\\\").replace('"', '\\"') + '"'


def tu(cs, payload_tag, payload_type):
    s = "// C07 temporary-wrapper cases, payload %s (%d cases)\n" % (payload_type, len(cs))
    s += '#include "tmp_common.hpp"\n#include <cstring>\n'
    s += "typedef %s P;\ntypedef c07t::PV<P> PVP;\n" % payload_type
    for i, c in enumerate(cs):
        s += "static void case%d()\n{\n" % i
        s += "    static const c07t::case_info ci = {%s, %s, %s, %s, %s, %s};\n" % (cstr(c.id), cstr(c.kind), cstr(c.closure), cstr(c.form), cstr(payload_tag), cstr(payload_type))
        s += "    c07t::tmp_case<P>(ci, [](c07t::env<P>& E) { %s });\n}\n" % c.body
    s += "int main(int argc, char** argv)\n{\n    const char* only = argc > 2 && !std::strcmp(argv[1], \"--only\") ? argv[2] : nullptr;\n"
    for i, c in enumerate(cs):
        s += "    if (!only || !std::strcmp(only, %s)) case%d();\n" % (cstr(c.id), i)
    s += '    vf::stat("evaluations", c07t::g_cases);\n    vf::stat("temporary_wrapper_cases", c07t::g_cases);\n'
    s += '    vf::stat("results_judged_after_the_wrapper_temporary_was_gone", c07t::g_bound);\n    vf::stat("distinct_nontrivial", c07t::g_nontrivial);\n'
    if cs:
        j = min(1, len(cs) - 1)
        s += "    if (!only) vf::sample(%s);\n" % cstr("temporary wrapper [%s]: %s built from %s, %s: `%s`" % (payload_type, cs[j].kind, cs[j].closure, cs[j].form, cs[j].body[:200]))
    s += "    vf::done();\n    return 0;\n}\n"
    return s


if __name__ == "__main__":
    print(len(cases()), "cases x", len(PAYLOADS), "payloads")
