"""C07 pointer payloads: generator of the cases "the payload of the closure is itself a raw pointer".

Rule (independent of the library): a closure built from an rvalue pointer OWNS THE POINTER VALUE (an independent copy of the pointer,
stored in the wrapper); a closure built from a pointer lvalue ALIASES THE POINTER VARIABLE. get / conversion give that pointer,
assignment replaces it, copy / move give wrappers with an equal pointer, swap exchanges the two pointer values, == / != compare the
pointers, &w designates the stored / aliased pointer.  The POINTEES are foreign objects: never read, written, copied or swapped.

Cases x payload {int*, const int*, Counted*}. Ill-formed ones are a committed list (KNOWN_ILL_FORMED), probed every run.
"""

PAYLOADS = [("intp", "int*"), ("cintp", "const int*"), ("countedp", "c07::Counted*")]


class Case(object):
    def __init__(self, kind, closure, form, body):
        self.kind, self.closure, self.form, self.body = kind, closure, form, body
        self.id = "%s|%s|%s" % (kind, closure, form)


def cases():
    out = []

    def add(kind, closure, form, body):
        out.append(Case(kind, closure, form, body))

    # ------------------------------------------------------------------ xclosure_wrapper: closure / const_closure / proxy_wrapper
    for kind, fac in (("closure", "xtl::closure"), ("const_closure", "xtl::const_closure"), ("proxy_wrapper", "xtl::proxy_wrapper")):
        # ---- value closure: built from an rvalue pointer, owns the pointer
        for srcname, A, B in (("prvalue", "%s(E.a1())", "%s(E.a2())"), ("xvalue", "%s(std::move(E.p))", "%s(std::move(E.q))")):
            mk = "auto a = " + A % fac + "; auto b = " + B % fac + "; (void)b;"
            cl = "T*(%s)" % srcname
            own = 'E.chk(E.inside(a, &a.get()), "not-owning", "the pointer is not stored in the wrapper");'
            add(kind, cl, "get", mk + own + 'E.chk(a.get() == E.a1() && c07p::cst(a).get() == E.a1(), "wrong-value", "get() is not the pointer the closure was built from");'
                'E.p = E.a3(); E.wrote = true; E.chk(a.get() == E.a1(), "not-independent", "changing the source pointer variable changed the owned pointer");')
            add(kind, cl, "get-rvalue", mk + 'auto c(a); PT v = std::move(c).get(); E.chk(v == E.a1(), "wrong-value", "std::move(w).get() is not the owned pointer");')
            add(kind, cl, "conversion", mk + 'PT v = a; PT cv = c07p::cst(a); E.chk(v == E.a1() && cv == E.a1(), "wrong-value", "the conversion operator does not give the owned pointer");')
            add(kind, cl, "copy-construct", mk + 'auto c(a); auto cc(c07p::cst(a)); E.chk(c.get() == E.a1() && cc.get() == E.a1(), "wrong-value", "the copy does not own an equal pointer");'
                'E.chk(&c.get() != &a.get() && E.inside(c, &c.get()), "not-owning", "the copy does not own its pointer");')
            add(kind, cl, "move-construct", mk + 'auto c(std::move(a)); E.chk(c.get() == E.a1() && E.inside(c, &c.get()), "wrong-value", "the move-constructed wrapper does not own the pointer");')
            add(kind, cl, "operator&", mk + 'auto pp = &a; E.chk(static_cast<const void*>(pp) == static_cast<const void*>(&a.get()) && *pp == E.a1(), "address-of-designation", "&w does not designate the owned pointer");')
            add(kind, cl, "==", mk + 'auto a1b = ' + A.replace("E.a1()", "E.a1()").replace("std::move(E.p)", "E.a1()") % fac + '; auto a4 = ' + (fac + "(E.a4())") + ';'
                'E.chk(a == a1b && !(a != a1b), "comparison", "two closures owning the SAME pointer compare unequal");'
                'E.chk(!(a == b) && (a != b), "comparison", "closures owning different pointers compare equal");'
                'E.chk(!(a == a4) && (a != a4), "comparison", "closures owning DIFFERENT pointers to EQUAL pointees compare equal (the pointers must be compared, not the pointees)");')
            # writes (const_closure of an rvalue is a plain value closure as well)
            add(kind, cl, "assign-value", mk + 'a = E.a3(); E.wrote = true; E.chk(a.get() == E.a3(), "wrong-value", "assigning a pointer value did not replace the owned pointer");'
                'PT t = E.a4(); a = t; E.chk(a.get() == E.a4() && t == E.a4(), "wrong-value", "assigning a pointer lvalue did not replace the owned pointer");'
                'E.chk(b.get() == E.a2(), "wrong-value", "another wrapper changed");')
            add(kind, cl, "copy-assign", mk + 'a = b; E.wrote = true; E.chk(a.get() == E.a2() && b.get() == E.a2(), "wrong-value", "a = b did not copy the owned pointer");')
            add(kind, cl, "copy-assign-from-const", mk + 'a = c07p::cst(b); E.wrote = true; E.chk(a.get() == E.a2() && b.get() == E.a2(), "wrong-value", "a = const b did not copy the owned pointer");')
            add(kind, cl, "move-assign", mk + 'a = std::move(b); E.wrote = true; E.chk(a.get() == E.a2(), "wrong-value", "a = std::move(b) did not transfer the owned pointer");')
            add(kind, cl, "swap-member", mk + 'a.swap(b); E.wrote = true; E.chk(a.get() == E.a2() && b.get() == E.a1(), "values-not-exchanged", "a.swap(b) did not exchange the owned pointer values");')
            add(kind, cl, "swap-adl", mk + 'using std::swap; swap(a, b); E.wrote = true; E.chk(a.get() == E.a2() && b.get() == E.a1(), "values-not-exchanged", "swap(a,b) did not exchange the owned pointer values");')
            add(kind, cl, "write-through-&", mk + 'auto pp = &a; *pp = E.a3(); E.wrote = true; E.chk(a.get() == E.a3(), "wrong-value", "writing through &w did not change the owned pointer");')
            # the same writes observed only through &w (no other accessor involved)
            via = "auto pa = &a; auto pb = &b; "
            add(kind, cl, "swap-member(via &w)", mk + via + 'a.swap(b); E.wrote = true; E.chk(*pa == E.a2() && *pb == E.a1(), "values-not-exchanged", "a.swap(b) did not exchange the owned pointer values");')
            add(kind, cl, "move-assign(via &w)", mk + via + 'a = std::move(b); E.wrote = true; E.chk(*pa == E.a2(), "wrong-value", "a = std::move(b) did not transfer the owned pointer");')
            add(kind, cl, "copy-assign-from-const(via &w)", mk + via + 'a = c07p::cst(b); E.wrote = true; E.chk(*pa == E.a2() && *pb == E.a2(), "wrong-value", "a = const b did not copy the owned pointer");')
            add(kind, cl, "null", "auto a = " + fac + "(PT(nullptr)); auto c(a); " + 'E.chk(a.get() == nullptr && c.get() == nullptr, "wrong-value", "an owned null pointer is not null");')
        # ---- reference closure: built from the pointer variable, aliases it
        mk = "auto a = %s(E.p); auto b = %s(E.q); (void)b;" % (fac, fac)
        ali = 'E.chk(static_cast<const void*>(&a.get()) == static_cast<const void*>(&E.p), "not-aliasing", "get() does not designate the pointer variable");'
        cl = "T*&" if kind != "const_closure" else "T* const&"
        add(kind, cl, "get", mk + ali + 'E.chk(a.get() == E.a1(), "wrong-value", "wrong pointer"); E.p = E.a3(); E.wrote = true; E.chk(a.get() == E.a3(), "wrong-value", "the closure does not see a write to the pointer variable");')
        add(kind, cl, "conversion", mk + 'PT v = a; E.chk(v == E.a1(), "wrong-value", "the conversion operator does not give the aliased pointer");')
        add(kind, cl, "copy-construct", mk + 'auto c(a); E.chk(static_cast<const void*>(&c.get()) == static_cast<const void*>(&E.p), "not-aliasing", "the copy does not designate the pointer variable");')
        add(kind, cl, "operator&", mk + 'auto pp = &a; E.chk(static_cast<const void*>(pp) == static_cast<const void*>(&E.p), "address-of-designation", "&w is not the address of the pointer variable");')
        add(kind, cl, "==", mk + 'auto s = %s(E.p); PT r4 = E.a4(); auto a4 = %s(r4);' % (fac, fac) +
            'E.chk(a == s && !(a != s) && !(a == b) && (a != b), "comparison", "comparison of reference closures over pointers is wrong");'
            'E.chk(!(a == a4), "comparison", "closures over DIFFERENT pointers to EQUAL pointees compare equal");')
        if kind != "const_closure":
            add(kind, cl, "assign-value", mk + ali + 'a = E.a3(); E.wrote = true; E.chk(E.p == E.a3() && E.q == E.a2(), "wrong-value", "assignment through the closure did not change the pointer variable");'
                'E.chk(static_cast<const void*>(&a.get()) == static_cast<const void*>(&E.p), "rebound", "assignment rebound the closure");')
            add(kind, cl, "copy-assign", mk + 'a = b; E.wrote = true; E.chk(E.p == E.a2() && E.q == E.a2(), "wrong-value", "a = b did not copy the pointer value into the referent"); ' + ali.replace("not-aliasing", "rebound"))
            add(kind, cl, "copy-assign-from-const", mk + 'a = c07p::cst(b); E.wrote = true; E.chk(E.p == E.a2() && E.q == E.a2(), "wrong-value", "a = const b did not copy the pointer value into the referent");')
            add(kind, cl, "move-assign", mk + 'a = std::move(b); E.wrote = true; E.chk(E.p == E.a2(), "wrong-value", "a = std::move(b) did not put b\'s pointer into a\'s referent"); ' + ali.replace("not-aliasing", "rebound"))
            add(kind, cl, "swap-member", mk + 'a.swap(b); E.wrote = true; E.chk(E.p == E.a2() && E.q == E.a1(), "values-not-exchanged", "a.swap(b) did not exchange the two pointer variables"); ' + ali.replace("not-aliasing", "rebound"))
            add(kind, cl, "swap-adl", mk + 'using std::swap; swap(a, b); E.wrote = true; E.chk(E.p == E.a2() && E.q == E.a1(), "values-not-exchanged", "swap(a,b) did not exchange the two pointer variables");')
            add(kind, cl, "write-through-&", mk + 'auto pp = &a; *pp = E.a3(); E.wrote = true; E.chk(E.p == E.a3(), "wrong-value", "writing through &w did not change the pointer variable");')
        # const reference closure
        mkc = "auto a = %s(c07p::cst(E.p));" % fac
        if kind != "const_closure":
            add(kind, "T* const&", "get", mkc + 'E.chk(static_cast<const void*>(&a.get()) == static_cast<const void*>(&E.p) && a.get() == E.a1(), "not-aliasing", "get() does not designate the pointer variable");'
                'E.p = E.a3(); E.wrote = true; E.chk(a.get() == E.a3(), "wrong-value", "the const closure does not see a write to the pointer variable");')

    # ------------------------------------------------------------------ xclosure_pointer, xoptional, xmasked_value over a pointer payload
    add("closure_pointer", "T*(prvalue)", "deref", 'auto a = xtl::closure_pointer(E.a1()); E.chk(*a == E.a1() && E.inside(a, &*a), "wrong-value", "*p is not the owned pointer");'
        '*a = E.a3(); E.wrote = true; E.chk(*a == E.a3(), "wrong-value", "writing *p did not change the owned pointer");')
    add("closure_pointer", "T*&", "deref", 'auto a = xtl::closure_pointer(E.p); E.chk(static_cast<const void*>(&*a) == static_cast<const void*>(&E.p), "not-aliasing", "*p does not designate the pointer variable");'
        '*a = E.a3(); E.wrote = true; E.chk(E.p == E.a3(), "wrong-value", "writing *p did not change the pointer variable");')
    for kind, fac, acc in (("optional", "xtl::optional", "value"), ("masked_value", "xtl::masked_value", "value")):
        add(kind, "T*(prvalue)", "value+assign+swap",
            'auto a = %s(E.a1(), true); auto b = %s(E.a2(), true);' % (fac, fac) +
            'E.chk(a.%s() == E.a1() && E.inside(a, &a.%s()), "wrong-value", "value() is not the owned pointer");' % (acc, acc) +
            'a = E.a3(); E.wrote = true; E.chk(a.%s() == E.a3(), "wrong-value", "assignment did not replace the owned pointer");' % acc +
            'a.swap(b); E.chk(a.%s() == E.a2() && b.%s() == E.a3(), "values-not-exchanged", "swap did not exchange the owned pointers");' % (acc, acc))
        add(kind, "T*&", "value+assign+swap",
            'bool f = true, g = true; auto a = %s(E.p, f); auto b = %s(E.q, g);' % (fac, fac) +
            'E.chk(static_cast<const void*>(&a.%s()) == static_cast<const void*>(&E.p), "not-aliasing", "value() does not designate the pointer variable");' % acc +
            'a = E.a3(); E.wrote = true; E.chk(E.p == E.a3(), "wrong-value", "assignment did not write the pointer variable");'
            'a.swap(b); E.chk(E.p == E.a2() && E.q == E.a3(), "values-not-exchanged", "swap did not exchange the pointer variables");')
    add("optional", "T*(prvalue)", "==", 'auto a = xtl::optional(E.a1(), true); auto a1 = xtl::optional(E.a1(), true); auto a4 = xtl::optional(E.a4(), true);'
        'E.chk(a == a1 && !(a == a4) && (a != a4), "comparison", "optionals over pointers must compare the pointers");')
    ids = set()
    for c in out:
        assert c.id not in ids, c.id
        ids.add(c.id)
    return out


# committed: ill-formed on the pinned tree: (kind, closure, form[, payload_tag]) -> reason
KNOWN_ILL_FORMED = {}


def listed(c, payload_tag):
    return (c.kind, c.closure, c.form) in KNOWN_ILL_FORMED or (c.kind, c.closure, c.form, payload_tag) in KNOWN_ILL_FORMED


def reason(c):
    for k, v in KNOWN_ILL_FORMED.items():
        if k[:3] == (c.kind, c.closure, c.form):
            return v
    return ""


def cstr(s):
    return '"' + s.replace("\\", "\\\\").replace('"', '\\"') + '"'


def tu(cs, payload_tag, payload_type):
    s = "// C07 pointer-payload cases, payload %s (%d cases)\n" % (payload_type, len(cs))
    s += '#include "ptr_common.hpp"\n#include <cstring>\n'
    s += "typedef %s PT;\n" % payload_type
    for i, c in enumerate(cs):
        s += "static void case%d()\n{\n" % i
        s += "    static const c07p::case_info ci = {%s, %s, %s, %s, %s, %s};\n" % (cstr(c.id), cstr(c.kind), cstr(c.closure), cstr(c.form), cstr(payload_tag), cstr(payload_type))
        s += "    c07p::ptr_case<PT>(ci, [](c07p::env<PT>& E) { %s });\n}\n" % c.body
    s += "int main(int argc, char** argv)\n{\n    const char* only = argc > 2 && !std::strcmp(argv[1], \"--only\") ? argv[2] : nullptr;\n"
    for i, c in enumerate(cs):
        s += "    if (!only || !std::strcmp(only, %s)) case%d();\n" % (cstr(c.id), i)
    s += '    vf::stat("evaluations", c07p::g_cases);\n    vf::stat("pointer_payload_cases", c07p::g_cases);\n    vf::stat("distinct_nontrivial", c07p::g_nontrivial);\n'
    if cs:
        s += "    if (!only) vf::sample(%s);\n" % cstr("pointer payload [%s]: %s / %s / %s: `%s`" % (payload_type, cs[0].kind, cs[0].closure, cs[min(11, len(cs) - 1)].form, cs[min(11, len(cs) - 1)].body[:160]))
    s += "    vf::done();\n    return 0;\n}\n"
    return s


if __name__ == "__main__":
    print(len(cases()), "cases x", len(PAYLOADS), "payloads")
