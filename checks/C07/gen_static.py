"""C07 static part: the reference rule and the generator of the static_assert programs.

The REFERENCE RULE (independent of the library; this file never reads a header):

    a source of value category / type S = cv T [& | &&] is mapped by a closure trait to
        lvalue  (S = cv T&)            ->  cv T&   (closure)   /  cv T*   (ptr closure)   /  const T& , const T*  (const_ variants)
        rvalue  (S = cv T, cv T&&)     ->  cv T    (an owning, decayed VALUE; const is preserved by the plain variants,
                                                    for the const_ variants both T and const T are accepted)
    factories wrap exactly that closure type; accessors of a wrapper give
        a reference to the referent for reference closures (const never dropped),
        a reference into the wrapper for an lvalue wrapper holding a value, and a VALUE for an rvalue wrapper holding a value.

Every entry is one type identity  "observed type expression  is one of  accepted types".
The compiler is the executor: entries are compiled into table programs (one row per entry, is_same evaluated by the
compiler, the row prints the observed type), and every failing row is re-checked as a one-assert translation unit
(`static_assert`) which is also what `--replay` compiles.
"""
import os

T_ALL = ["int", "c07::Counted", "c07::MoveOnly", "int*", "int const*", "c07::Counted*"]
T_CLASSY = ["int", "c07::Counted", "c07::MoveOnly"]

# the source forms of the quantifier: label, const, ref
S_FORMS = [("T", False, ""), ("const T", True, ""), ("T&", False, "&"), ("const T&", True, "&"), ("T&&", False, "&&"), ("const T&&", True, "&&")]
# expression categories: label, factory in c07_payload.hpp, deduced const, is lvalue
E_CATS = [("T(prvalue)", "prv", False, False), ("T&", "lv", False, True), ("const T&", "clv", True, True),
          ("T&&", "xv", False, False), ("const T&&", "cxv", True, False)]

HDR = {
    "closure": ["xtl/xclosure.hpp"],
    "traits": ["xtl/xtype_traits.hpp"],
    "complex": ["xtl/xcomplex.hpp"],
    "optional": ["xtl/xoptional.hpp"],
    "masked": ["xtl/xoptional.hpp", "xtl/xmasked_value.hpp"],
    "proxy": ["xtl/xproxy_wrapper.hpp"],
    "sequence": ["xtl/xsequence.hpp"],
}


def ty(T, c=False, v=False, ref=""):
    """east-const spelling, so that pointer types compose"""
    return T + (" const" if c else "") + (" volatile" if v else "") + ref


def short(T):
    return T.replace("c07::", "")


# --------------------------------------------------------------------------- the rule
def rule_closure(T, c, lvalue):
    return [ty(T, c, ref="&")] if lvalue else [ty(T, c)]


def rule_const_closure(T, c, lvalue):
    return [ty(T, True, ref="&")] if lvalue else [ty(T), ty(T, True)]


def rule_ptr_closure(T, c, lvalue):
    return [ty(T, c) + "*"] if lvalue else [ty(T, c)]


def rule_const_ptr_closure(T, c, lvalue):
    return [ty(T, True) + "*"] if lvalue else [ty(T), ty(T, True)]


def rule_access(T, closure, obj):
    """type of an accessor of a wrapper whose component has closure type `closure` in {"T","const T","T&","const T&"},
    called on an object expression `obj` in {"lv","clv","xv","cxv"}"""
    if closure == "T&":
        # alias of a mutable object: a reference to it; a const wrapper may (deep const) or may not (shallow const) add const
        return [ty(T, ref="&")] if obj in ("lv", "xv") else [ty(T, ref="&"), ty(T, True, ref="&")]
    if closure == "const T&":
        return [ty(T, True, ref="&")]
    # the wrapper owns the value
    if obj == "lv":
        return [ty(T, closure == "const T", ref="&")]
    if obj == "clv":
        return [ty(T, True, ref="&")]
    return [ty(T), ty(T, True)]   # rvalue wrapper: by value


CLOSURES = [("T", False, ""), ("const T", True, ""), ("T&", False, "&"), ("const T&", True, "&")]
OBJS = [("lv", "W&"), ("clv", "const W&"), ("xv", "W&&"), ("cxv", "const W&&")]


class Entry(object):
    __slots__ = ("id", "func", "icls", "hdr", "observed", "accept", "nontrivial", "probe_only", "domain_note")

    def __init__(self, id, func, icls, hdr, observed, accept, nontrivial=True):
        self.id = id
        self.func = func          # function / trait name for the signature
        self.icls = icls          # input class for the signature (no payload type)
        self.hdr = hdr
        self.observed = observed
        self.accept = accept
        self.nontrivial = nontrivial

    def sig(self, kind):
        return "C07/%s/%s/%s" % (self.func, self.icls, kind)


def entries():
    out = []

    def add(id, func, icls, hdr, observed, accept, nontrivial=True):
        out.append(Entry(id, func, icls, hdr, observed, accept, nontrivial))

    # ---- A: the four closure traits ---------------------------------------------------------
    for name, rule in (("closure_type_t", rule_closure), ("const_closure_type_t", rule_const_closure),
                       ("ptr_closure_type_t", rule_ptr_closure), ("const_ptr_closure_type_t", rule_const_ptr_closure)):
        for T in T_ALL:
            for label, c, ref in S_FORMS:
                S = ty(T, c, ref=ref)
                acc = rule(T, c, ref == "&")
                add("%s<%s>" % (name, S), name, label, "closure", "xtl::%s<%s>" % (name, S), acc, acc[0] != S)

    # ---- B: apply_cv_t, C: detail::forward_type_t -------------------------------------------
    for T in ("int", "c07::Counted"):
        for U in ("double", "c07::MoveOnly"):
            for c in (False, True):
                for v in (False, True):
                    for ref in ("", "&", "&&"):
                        S = ty(T, c, v, ref)
                        exp = ty(U, c, v, "&" if ref == "&" else "")
                        label = ("const " if c else "") + ("volatile " if v else "") + "T" + ref
                        add("apply_cv_t<%s,%s>" % (S, U), "apply_cv_t", label, "traits", "xtl::apply_cv_t<%s, %s>" % (S, U), [exp], True)
    for T in ("double", "std::complex<double>"):
        for M in ("double", "float"):
            for c in (False, True):
                for v in (False, True):
                    for ref in ("", "&", "&&"):
                        S = ty(T, c, v, ref)
                        exp = ty(M, c, v, "&" if ref == "&" else "")
                        label = ("const " if c else "") + ("volatile " if v else "") + "T" + ref
                        add("forward_type_t<%s,%s>" % (S, M), "detail::forward_type_t", label, "complex",
                            "xtl::detail::forward_type_t<%s, %s>" % (S, M), [exp], True)

    # ---- D: factories -----------------------------------------------------------------------
    def arg(T, fac):
        return "c07::%s<%s>()" % (fac, T)

    for T in T_ALL:
        for label, fac, c, lvalue in E_CATS:
            if T == "c07::MoveOnly" and fac == "cxv":
                continue   # a const rvalue of a move-only type cannot be owned by anybody: outside the domain
            a = arg(T, fac)
            add("closure(%s %s)" % (short(T), label), "closure()", label, "closure", "decltype(xtl::closure(%s))" % a,
                ["xtl::xclosure_wrapper<%s>" % t for t in rule_closure(T, c, lvalue)])
            add("const_closure(%s %s)" % (short(T), label), "const_closure()", label, "closure", "decltype(xtl::const_closure(%s))" % a,
                ["xtl::xclosure_wrapper<%s>" % t for t in rule_const_closure(T, c, lvalue)])
            add("closure_pointer(%s %s)" % (short(T), label), "closure_pointer()", label, "closure", "decltype(xtl::closure_pointer(%s))" % a,
                ["xtl::xclosure_pointer<%s>" % t for t in rule_closure(T, c, lvalue)])
            add("const_closure_pointer(%s %s)" % (short(T), label), "const_closure_pointer()", label, "closure",
                "decltype(xtl::const_closure_pointer(%s))" % a, ["xtl::xclosure_pointer<%s>" % t for t in rule_const_closure(T, c, lvalue)])
            # proxy_wrapper: an lvalue is aliased by a closure wrapper; an rvalue is owned (class: the wrapper IS-A payload; scalar: value closure)
            is_class = T in ("c07::Counted", "c07::MoveOnly")
            if lvalue:
                acc = ["xtl::xclosure_wrapper<%s>" % t for t in rule_closure(T, c, True)]
            elif is_class:
                acc = ["xtl::xproxy_wrapper_impl<%s>" % t for t in rule_closure(T, c, False)]
            else:
                acc = ["xtl::xclosure_wrapper<%s>" % t for t in rule_closure(T, c, False)]
            add("proxy_wrapper(%s %s)" % (short(T), label), "proxy_wrapper()", label, "proxy", "decltype(xtl::proxy_wrapper(%s))" % a, acc)

    for T in T_CLASSY:
        for label, fac, c, lvalue in E_CATS:
            if T == "c07::MoveOnly" and fac == "cxv":
                continue
            ct = rule_closure(T, c, lvalue)[0]
            add("masked_value(%s %s)" % (short(T), label), "masked_value(v)", label, "masked",
                "decltype(xtl::masked_value(%s))" % arg(T, fac), ["xtl::xmasked_value<%s, bool>" % ct])
            for flabel, ffac, fc, flv in E_CATS:
                cb = rule_closure("bool", fc, flv)[0]
                add("optional(%s %s, bool %s)" % (short(T), label, flabel), "optional(v,flag)", "value:%s,flag:%s" % (label, "lvalue" if flv else "rvalue"), "optional",
                    "decltype(xtl::optional(%s, %s))" % (arg(T, fac), arg("bool", ffac)), ["xtl::xoptional<%s, %s>" % (ct, cb)])
                add("masked_value(%s %s, bool %s)" % (short(T), label, flabel), "masked_value(v,flag)", "value:%s,flag:%s" % (label, "lvalue" if flv else "rvalue"), "masked",
                    "decltype(xtl::masked_value(%s, %s))" % (arg(T, fac), arg("bool", ffac)), ["xtl::xmasked_value<%s, %s>" % (ct, cb)])

    # forward_sequence<R, A>(s): the argument itself when the types match, an owning R otherwise
    seqs = [("std::vector<int>", "vector"), ("std::array<int, 3>", "array")]
    for R, rn in seqs:
        for X, xn in seqs:
            same = R == X
            for label, A, fac, same_exp in (("T&", X + "&", "lv", X + "&"), ("const T&", X + " const&", "clv", X + " const&"),
                                            ("T&&", X, "xv", X + "&&"), ("const T&&", X + " const", "cxv", X + " const&&"),
                                            ("T&&(named)", X, "lv", X + "&&")):
                for Rq in (R, R + " const&"):
                    add("forward_sequence<%s,%s>(%s %s)" % (Rq, A, xn, label), "forward_sequence", ("same-type:" if same else "other-type:") + label, "sequence",
                        "decltype(xtl::forward_sequence<%s, %s>(%s))" % (Rq, A, arg(X, fac)), [same_exp] if same else [R])

    # ---- E: qualified accessors -------------------------------------------------------------
    def wrap_obj(W, obj):
        return {"lv": "c07::lv<%s>()", "clv": "c07::clv<%s>()", "xv": "c07::xv<%s>()", "cxv": "c07::cxv<%s>()"}[obj] % W

    for T in ("int", "c07::Counted", "int*"):
        for clabel, cc, cref in CLOSURES:
            C = ty(T, cc, ref=cref)
            for obj, olabel in OBJS:
                acc = rule_access(T, clabel, obj)
                icls = "closure %s on %s" % (clabel, olabel)
                nt = acc[0] != C
                # xoptional
                W = "xtl::xoptional<%s, bool>" % C
                add("xoptional<%s,bool>::value() on %s" % (C, olabel), "xoptional::value()", icls, "optional",
                    "decltype(%s.value())" % wrap_obj(W, obj), acc, nt)
                if obj != "cxv":
                    add("xtl::value(xoptional<%s,bool> %s)" % (C, olabel), "value(xoptional)", icls, "optional",
                        "decltype(xtl::value(%s))" % wrap_obj(W, obj), acc, nt)
                # xmasked_value
                W = "xtl::xmasked_value<%s, bool>" % C
                add("xmasked_value<%s,bool>::value() on %s" % (C, olabel), "xmasked_value::value()", icls, "masked",
                    "decltype(%s.value())" % wrap_obj(W, obj), acc, nt)
                # xclosure_wrapper::get()  (a const rvalue binds to the const& overload: a reference into the wrapper)
                W = "xtl::xclosure_wrapper<%s>" % C
                g_acc = rule_access(T, clabel, "clv" if obj == "cxv" else obj)
                add("xclosure_wrapper<%s>::get() on %s" % (C, olabel), "xclosure_wrapper::get()", icls, "closure",
                    "decltype(%s.get())" % wrap_obj(W, obj), g_acc, nt)
                # xclosure_pointer: operator* / operator->
                W = "xtl::xclosure_pointer<%s>" % C
                p_acc = rule_access(T, clabel, "lv" if obj in ("lv", "xv") else "clv")
                add("*xclosure_pointer<%s> on %s" % (C, olabel), "xclosure_pointer::operator*", icls, "closure",
                    "decltype(*%s)" % wrap_obj(W, obj), p_acc, True)
                is_const = cc
                add("xclosure_pointer<%s>::operator-> on %s" % (C, olabel), "xclosure_pointer::operator->", icls, "closure",
                    "decltype(%s.operator->())" % wrap_obj(W, obj), [ty(T, True) + "*"] if is_const else [ty(T) + "*", ty(T, True) + "*"], True)
    # flags of xoptional / xmasked_value
    for clabel, cc, cref in CLOSURES:
        C = ty("bool", cc, ref=cref)
        for obj, olabel in OBJS:
            acc = rule_access("bool", clabel, obj)
            icls = "closure %s on %s" % (clabel, olabel)
            W = "xtl::xoptional<int, %s>" % C
            add("xoptional<int,%s>::has_value() on %s" % (C, olabel), "xoptional::has_value()", icls, "optional",
                "decltype(%s.has_value())" % wrap_obj(W, obj), acc, acc[0] != C)
            if obj != "cxv":
                add("xtl::has_value(xoptional<int,%s> %s)" % (C, olabel), "has_value(xoptional)", icls, "optional",
                    "decltype(xtl::has_value(%s))" % wrap_obj(W, obj), acc, acc[0] != C)
            W = "xtl::xmasked_value<int, %s>" % C
            add("xmasked_value<int,%s>::visible() on %s" % (C, olabel), "xmasked_value::visible()", icls, "masked",
                "decltype(%s.visible())" % wrap_obj(W, obj), acc, acc[0] != C)
    # xcomplex real()/imag(), members and free functions
    for clabel, cc, cref in CLOSURES:
        C = ty("double", cc, ref=cref)
        for obj, olabel in OBJS:
            acc = rule_access("double", clabel, obj)
            icls = "closure %s on %s" % (clabel, olabel)
            for part, W in (("real", "xtl::xcomplex<%s, double&, false>" % C), ("imag", "xtl::xcomplex<double&, %s, false>" % C)):
                add("%s::%s() on %s" % (W.replace("xtl::", ""), part, olabel), "xcomplex::%s()" % part, icls, "complex",
                    "decltype(%s.%s())" % (wrap_obj(W, obj), part), acc, acc[0] != C)
                if obj != "cxv":
                    add("xtl::%s(%s %s)" % (part, W.replace("xtl::", ""), olabel), "%s(xcomplex)" % part, icls, "complex",
                        "decltype(xtl::%s(%s))" % (part, wrap_obj(W, obj)), acc, acc[0] != C)
    # real()/imag() of std::complex and real() of a scalar: lvalue -> (const) reference to the part, rvalue -> value
    for label, fac, c, lvalue in E_CATS:
        acc = [ty("double", c, ref="&")] if lvalue else [ty("double"), ty("double", True)]
        for part in ("real", "imag"):
            add("xtl::%s(std::complex<double> %s)" % (part, label), "%s(std::complex)" % part, label, "complex",
                "decltype(xtl::%s(%s))" % (part, arg("std::complex<double>", fac)), acc)
        add("xtl::real(double %s)" % label, "real(scalar)", label, "complex", "decltype(xtl::real(%s))" % arg("double", fac), acc)

    # ---- F: operator& -----------------------------------------------------------------------
    for T in ("int", "c07::Counted", "int*"):
        for clabel, cc, cref in CLOSURES:
            C = ty(T, cc, ref=cref)
            W = "xtl::xclosure_wrapper<%s>" % C
            add("&xclosure_wrapper<%s>" % C, "xclosure_wrapper::operator&", "closure " + clabel, "closure",
                "decltype(&%s)" % wrap_obj(W, "lv"), [ty(T, cc) + "*"])
        for Wn, W, hdr in (("xoptional", "xtl::xoptional<%s&, bool&>" % T, "optional"), ("xoptional", "xtl::xoptional<%s, bool>" % T, "optional")):
            add("&%s on W&" % W, Wn + "::operator&", "W&", hdr, "decltype(&%s)" % wrap_obj(W, "lv"), ["xtl::xclosure_pointer<%s&>" % W])
            add("&%s on const W&" % W, Wn + "::operator&", "const W&", hdr, "decltype(&%s)" % wrap_obj(W, "clv"), ["xtl::xclosure_pointer<%s const&>" % W])
            add("&%s on W&&" % W, Wn + "::operator&", "W&&", hdr, "decltype(&%s)" % wrap_obj(W, "xv"), ["xtl::xclosure_pointer<%s>" % W])
    for W in ("xtl::xcomplex<double&, double&, false>", "xtl::xcomplex<double, double, false>"):
        add("&%s on W&" % W, "xcomplex::operator&", "W&", "complex", "decltype(&%s)" % wrap_obj(W, "lv"), ["xtl::xclosure_pointer<%s&>" % W])
        add("&%s on const W&" % W, "xcomplex::operator&", "const W&", "complex", "decltype(&%s)" % wrap_obj(W, "clv"), ["xtl::xclosure_pointer<%s const&>" % W])
        add("&%s on W&&" % W, "xcomplex::operator&", "W&&", "complex", "decltype(&%s)" % wrap_obj(W, "xv"), ["xtl::xclosure_pointer<%s>" % W])
    for T in ("c07::Counted", "c07::MoveOnly"):
        W = "xtl::xproxy_wrapper_impl<%s>" % T
        add("&%s on W&" % W, "xproxy_wrapper_impl::operator&", "W&", "proxy", "decltype(&%s)" % wrap_obj(W, "lv"), ["xtl::xclosure_pointer<%s&>" % T])
        add("&%s on W&&" % W, "xproxy_wrapper_impl::operator&", "W&&", "proxy", "decltype(&%s)" % wrap_obj(W, "xv"), ["xtl::xclosure_pointer<%s>" % T])

    # ---- G: capability probes: same-type assignment between reference-closure wrappers --------
    # (committed as ill-formed on the pinned tree: the implicitly deleted copy assignment operator wins overload resolution; the
    #  dynamic harness therefore assigns through these wrappers from values / value wrappers only)
    for W, hdr in (("xtl::xoptional<int&, bool&>", "optional"), ("xtl::xmasked_value<int&, bool&>", "masked"),
                   ("xtl::xcomplex<double&, double&, false>", "complex"), ("xtl::xclosure_pointer<int&>", "closure")):
        add("%s = same type" % W, "same-type-assignment", W.split("<")[0].replace("xtl::", ""), hdr,
            "decltype(%s = %s)" % (wrap_obj(W, "lv"), wrap_obj(W, "lv")), [W + "&"])

    # ---- H: implicit conversions of a wrapper to its payload (conversion operators / derived-to-base) -------------------
    # the same rule as for the accessors, read off the only thing the type system shows of an implicit conversion: what it can
    # initialise.  Every wrapper converts to `T const&` and (copyable T) to `T`; it converts to `T&` iff the rule gives a mutable
    # lvalue: never for a const closure (const is preserved), never for an RVALUE wrapper that owns its value (the rule gives a
    # decayed VALUE there, and a non-const lvalue reference cannot bind to a value), never for a const wrapper that owns its value.
    # Where the rule leaves a choice (lvalue wrapper owning a value: a value or a reference into the wrapper; const wrapper over a
    # T& closure: shallow or deep const) there is no row.
    def conv_row(W, wlabel, hdr, func, clabel, obj, olabel, T, target, expect):
        From = {"lv": W + "&", "clv": W + " const&", "xv": W}[obj]
        To = {"T&": ty(T, ref="&"), "const T&": ty(T, True, ref="&"), "T": T}[target]
        add("is_convertible<%s %s, %s>" % (wlabel, olabel, To), func, "closure %s on %s to %s" % (clabel, olabel, target), hdr,
            "std::integral_constant<bool, std::is_convertible<%s, %s>::value>" % (From, To),
            ["std::integral_constant<bool, %s>" % ("true" if expect else "false")], True)

    for T in ("int", "c07::Counted", "int*"):
        for clabel, cc, cref in CLOSURES:
            C = ty(T, cc, ref=cref)
            for obj, olabel in (("lv", "W&"), ("clv", "const W&"), ("xv", "W&&")):
                for target in ("T&", "const T&", "T"):
                    if target != "T&":
                        expect = True
                    elif clabel == "T&":
                        expect = None if obj == "clv" else True
                    elif clabel == "const T&" or clabel == "const T":
                        expect = False
                    else:   # the wrapper owns a mutable value
                        expect = None if obj == "lv" else False
                    if expect is None:
                        continue
                    conv_row("xtl::xclosure_wrapper<%s>" % C, "xclosure_wrapper<%s>" % C, "closure", "xclosure_wrapper::conversion", clabel, obj, olabel, T, target, expect)
    for T in ("int", "c07::Counted"):
        # an owning xmasked_value converts to a decayed value; xproxy_wrapper_impl<T> IS-A T: an rvalue of it is an rvalue T
        for obj, olabel in (("lv", "W&"), ("xv", "W&&")):
            conv_row("xtl::xmasked_value<%s, bool>" % T, "xmasked_value<%s,bool>" % T, "masked", "xmasked_value::conversion", "T", obj, olabel, T, "T", True)
        conv_row("xtl::xmasked_value<%s, bool>" % T, "xmasked_value<%s,bool>" % T, "masked", "xmasked_value::conversion", "T", "xv", "W&&", T, "T&", False)
    conv_row("xtl::xproxy_wrapper_impl<c07::Counted>", "xproxy_wrapper_impl<Counted>", "proxy", "xproxy_wrapper_impl::conversion", "T", "lv", "W&", "c07::Counted", "T&", True)
    conv_row("xtl::xproxy_wrapper_impl<c07::Counted>", "xproxy_wrapper_impl<Counted>", "proxy", "xproxy_wrapper_impl::conversion", "T", "xv", "W&&", "c07::Counted", "T&", False)
    conv_row("xtl::xproxy_wrapper_impl<c07::Counted>", "xproxy_wrapper_impl<Counted>", "proxy", "xproxy_wrapper_impl::conversion", "T", "xv", "W&&", "c07::Counted", "const T&", True)

    ids = set()
    for e in out:
        assert e.id not in ids, e.id
        ids.add(e.id)
    return out


# --------------------------------------------------------------------------- committed capability manifest
# Entries that are ILL-FORMED on the pinned tree (they have no type to check).  key: entry id -> (set of -std values, reason).
# An entry listed here is compiled on its own every run: if it has become well-formed its identity is checked like any other
# (and a note says so); an entry NOT listed here that fails to compile is a violation (failure kind "ill-formed").
ALL_STD = ("c++14", "c++17", "c++20")
PRE20 = ("c++14", "c++17")


def known_ill_formed():
    """id -> (predicate(cxx, std), reason)"""
    k = {}
    why_copy = ("xclosure_wrapper's value constructor copies (get_storage_init returns a named rvalue reference): a move-only payload needs the "
                "implicit move of rvalue-reference parameters, which g++ applies from -std=c++20 on and clang++ in every mode")
    why_const = "const_closure_type_t<const T> is T, and xclosure_wrapper<T>/xclosure_pointer<T> have no constructor taking a const rvalue"
    why_assign = "the wrapper has reference members, its implicitly declared copy assignment operator is deleted and is selected for an argument of the same type"

    def gcc_pre20(cxx, std):
        return cxx.startswith("g++") and std in PRE20

    def always(cxx, std):
        return True

    for lab in ("T(prvalue)", "T&&"):
        k["closure(MoveOnly %s)" % lab] = (gcc_pre20, why_copy)
        k["const_closure(MoveOnly %s)" % lab] = (gcc_pre20, why_copy)
    for T in ("int", "Counted", "int*", "int const*", "Counted*"):
        k["const_closure(%s const T&&)" % T] = (always, why_const)
        k["const_closure_pointer(%s const T&&)" % T] = (always, why_const)
    for W in ("xtl::xoptional<int&, bool&>", "xtl::xmasked_value<int&, bool&>", "xtl::xcomplex<double&, double&, false>", "xtl::xclosure_pointer<int&>"):
        k["%s = same type" % W] = (always, why_assign)
    return k


def is_listed(known, eid, cxx, std):
    return eid in known and known[eid][0](cxx, std)


PRELUDE = r'''
#include <array>
#include <complex>
#include <type_traits>
#include <vector>
#include "c07_payload.hpp"
namespace c07s
{
    template <class O, class... E> struct any_same;
    template <class O> struct any_same<O> : std::false_type {};
    template <class O, class E0, class... E> struct any_same<O, E0, E...> : std::integral_constant<bool, std::is_same<O, E0>::value || any_same<O, E...>::value> {};
    template <class T> const char* tname() { return __PRETTY_FUNCTION__; }
}
'''


def includes(hdrs):
    return "".join('#include <%s>\n' % h for h in sorted(set(hdrs)))


def one_assert_tu(e):
    """the one-assert translation unit: what --replay compiles"""
    s = "// C07 static: %s\n" % e.id
    s += includes(HDR[e.hdr]) + PRELUDE
    s += "typedef %s observed_type;\n" % e.observed
    s += "static_assert(c07s::any_same<observed_type, %s>::value, \"C07 rule violated\");\n" % ", ".join(e.accept)
    s += "int main() { return 0; }\n"
    return s


def table_tu(es, tag):
    """one row per entry; prints a violation record for every row whose identity does not hold"""
    hdrs = []
    for e in es:
        hdrs += HDR[e.hdr]
    s = "// C07 static table %s (%d entries)\n" % (tag, len(es))
    s += includes(hdrs) + PRELUDE + '#include "report.hpp"\n#include <string>\n'
    s += r'''
static long long n_eval = 0;
static std::string clean(const char* pf)
{
    std::string s = pf;
    size_t a = s.find("T = ");
    if (a == std::string::npos) return s;
    s = s.substr(a + 4);
    size_t b = s.rfind(']');
    if (b != std::string::npos) s = s.substr(0, b);
    return s;
}
static void row(const char* id, const char* sig, bool ok, const char* observed, const char* accepted)
{
    ++n_eval;
    if (!ok)
        vf::violation(sig, std::string(id) + ": observed type `" + clean(observed) + "`, the rule accepts `" + accepted + "`", {"static", id, C07_STD, C07_CXX});
}
'''
    chunk = 40
    nfun = 0
    for i in range(0, len(es), chunk):
        s += "static void part%d()\n{\n" % nfun
        for e in es[i:i + chunk]:
            s += "    { typedef %s O; row(%s, %s, c07s::any_same<O, %s>::value, c07s::tname<O>(), %s); }\n" % (
                e.observed, cstr(e.id), cstr(e.sig("wrong-type")), ", ".join(e.accept), cstr(" | ".join(e.accept)))
        s += "}\n"
        nfun += 1
    s += "int main()\n{\n"
    for i in range(nfun):
        s += "    part%d();\n" % i
    s += '    vf::stat("static_identities_checked", n_eval);\n    vf::stat("evaluations", n_eval);\n'
    s += "    vf::done();\n    return 0;\n}\n"
    return s


def cstr(s):
    return '"' + s.replace("\\", "\\\\").replace('"', '\\"') + '"'


if __name__ == "__main__":
    es = entries()
    print(len(es), "entries;", sum(1 for e in es if e.nontrivial), "non-trivial")
    from collections import Counter
    print(Counter(e.func for e in es))
