// C07 dynamic part, continued: SWAP over every referent-designating wrapper / proxy kind (NOTES.md section 12).
//   swapx --list                              the kind families of this binary (-DSWAPX_PART=0..3), one per line
//   swapx --family NAME [--deep]              every (kind of the family, configuration, swap form, 1 or 2 applications)
//   swapx --family NAME --one KIND|CFG|FORM|TIMES   a single scenario (replay)
// Oracle (from the statement "swap exchanges referent values"): a wrapper is a tuple of components (value, flag | real, imaginary |
// the bit); every component designates a CELL - an original object of the world (reference closure, proxy) or an object the wrapper owns.
// After swap(a, b) the contents of the two cells of every component are exchanged EXACTLY (the very value, whatever the type of the
// cell), a cell both wrappers designate keeps its content, every other cell of the world is untouched, no component designates another
// object than before, and a second application restores the initial state.  Which swap spellings exist for a kind is a committed
// capability table (expected()), probed at compile time: a spelling that stopped compiling is a violation, one that started is executed.
#include <xtl/xclosure.hpp>
#include <xtl/xcomplex.hpp>
#include <xtl/xdynamic_bitset.hpp>
#include <xtl/xmasked_value.hpp>
#include <xtl/xoptional.hpp>
#include <xtl/xoptional_sequence.hpp>
#include <xtl/xproxy_wrapper.hpp>

#include "c07_payload.hpp"
#include "report.hpp"

#include <algorithm>
#include <array>
#include <cstdint>
#include <cstdio>
#include <memory>
#include <set>
#include <string>
#include <type_traits>
#include <utility>
#include <vector>

#include <sys/mman.h>
#include <sys/wait.h>
#include <unistd.h>

#ifndef SWAPX_PART
#define SWAPX_PART 0
#endif

using namespace c07;

static char* g_shared = nullptr;
static long long g_eval = 0, g_nontrivial = 0, g_gaps = 0;
static bool g_deep = false;
static std::string g_only;     // KIND|CFG|FORM|TIMES of a replay

// ---------------------------------------------------------------------------------------------------------------------
// capability probes (declaration level; every spelling below is SFINAE-friendly with libstdc++ / libc++: std::swap is constrained on
// is_move_constructible && is_move_assignable)
// ---------------------------------------------------------------------------------------------------------------------
namespace cap
{
    using std::swap;
    template <class...> struct voider { typedef void type; };
    template <class A, class B, class = void> struct adl : std::false_type {};
    template <class A, class B> struct adl<A, B, typename voider<decltype(swap(std::declval<A>(), std::declval<B>()))>::type> : std::true_type {};
    template <class A, class = void> struct mem : std::false_type {};
    template <class A> struct mem<A, typename voider<decltype(std::declval<A&>().swap(std::declval<A&>()))>::type> : std::true_type {};

    template <class W> void do_mem(std::true_type, W& a, W& b) { a.swap(b); }
    template <class W> void do_mem(std::false_type, W&, W&) {}
    template <class W> void do_adl(std::true_type, W& a, W& b) { using std::swap; swap(a, b); }
    template <class W> void do_adl(std::false_type, W&, W&) {}
    template <class K, class WD> void do_tmp(std::true_type, WD& w) { using std::swap; swap(K::mk_a(w), K::mk_b(w)); }
    template <class K, class WD> void do_tmp(std::false_type, WD&) {}
    template <class K, class W, class WD> void do_lvtmp(std::true_type, W& a, WD& w) { using std::swap; swap(a, K::mk_b(w)); }
    template <class K, class W, class WD> void do_lvtmp(std::false_type, W&, WD&) {}
    template <class K, class WD> void do_iter(std::true_type, WD& w) { K::iter_swap_ab(w); }
    template <class K, class WD> void do_iter(std::false_type, WD&) {}
}

enum Form { F_MEM_AB, F_MEM_BA, F_MEM_AA, F_ADL_AB, F_ADL_BA, F_ADL_AA, F_ADL_TMP, F_ADL_LVTMP, F_ITER, F_NFORMS };
static const char* form_name[F_NFORMS] = {"a.swap(b)", "b.swap(a)", "a.swap(a)", "using std::swap; swap(a,b)", "using std::swap; swap(b,a)", "using std::swap; swap(a,a)",
                                          "using std::swap; swap(<temporary a>, <temporary b>)", "using std::swap; swap(a, <temporary b>)", "std::iter_swap(it_a, it_b)"};
static const char* form_sig[F_NFORMS] = {"a.swap(b)", "b.swap(a)", "a.swap(a)", "swap(a,b)", "swap(b,a)", "swap(a,a)", "swap(temporaries)", "swap(lvalue,temporary)", "iter_swap"};
static bool form_self(int f) { return f == F_MEM_AA || f == F_ADL_AA; }
static bool form_tmp(int f) { return f == F_ADL_TMP || f == F_ITER; }

static std::string num(double v)
{
    char b[64];
    if (v == double((long long)v)) std::snprintf(b, sizeof b, "%lld", (long long)v); else std::snprintf(b, sizeof b, "%.17g", v);
    return b;
}

static std::set<std::string> g_once;
static bool once(const std::string& s) { return g_once.insert(s).second; }

// ---------------------------------------------------------------------------------------------------------------------
// the judge, shared by all kinds
// ---------------------------------------------------------------------------------------------------------------------
template <class K>
static bool form_capable(int form)
{
    typedef typename K::W W;
    switch (form)
    {
    case F_MEM_AB: case F_MEM_BA: case F_MEM_AA: return cap::mem<W>::value;
    case F_ADL_AB: case F_ADL_BA: case F_ADL_AA: return cap::adl<W&, W&>::value;
    case F_ADL_TMP: return cap::adl<W, W>::value;
    case F_ADL_LVTMP: return cap::adl<W&, W>::value;
    default: return K::has_iter && cap::adl<W, W>::value;   // std::iter_swap(i, j) is swap(*i, *j) on two temporaries
    }
}

template <class K>
static void exec_form(int form, typename K::W& a, typename K::W& b, typename K::World& w)
{
    typedef typename K::W W;
    switch (form)
    {
    case F_MEM_AB: cap::do_mem(cap::mem<W>(), a, b); break;
    case F_MEM_BA: cap::do_mem(cap::mem<W>(), b, a); break;
    case F_MEM_AA: cap::do_mem(cap::mem<W>(), a, a); break;
    case F_ADL_AB: cap::do_adl(cap::adl<W&, W&>(), a, b); break;
    case F_ADL_BA: cap::do_adl(cap::adl<W&, W&>(), b, a); break;
    case F_ADL_AA: cap::do_adl(cap::adl<W&, W&>(), a, a); break;
    case F_ADL_TMP: cap::do_tmp<K>(cap::adl<W, W>(), w); break;
    case F_ADL_LVTMP: cap::do_lvtmp<K>(cap::adl<W&, W>(), a, w); break;
    default: cap::do_iter<K>(std::integral_constant<bool, K::has_iter && cap::adl<W, W>::value>(), w); break;
    }
}

template <class K>
static void judge(const std::string& kname, const typename K::Cfg& cfg, long ci, int form, int times)
{
    typedef typename K::W W;
    const std::string id = kname + "|" + vf::str(ci) + "|" + vf::str(form) + "|" + vf::str(times);
    if (!g_only.empty() && g_only != id) return;
    std::vector<std::string> replay = {"--swapx", vf::str(SWAPX_PART), "--family", K::family(), "--one", id};
    if (g_deep) replay.push_back("--deep");     // the configuration index counts the deep alphabet
    const std::string sig = "C07/swap/" + kname + "/" + form_sig[form] + "/";
    const bool can = form_capable<K>(form), exp = K::expected(form);
    if (!can)
    {
        if (exp && once(sig + "ill-formed"))
            vf::violation(sig + "ill-formed", kname + ": the swap spelling `" + form_name[form] + "` is in the committed capability table of this kind (it compiles on the pinned tree) "
                          "but no viable swap is found for it any more (capability probe at compile time)", replay);
        if (!exp) ++g_gaps;
        return;
    }
    if (!exp && once(sig + "cap-note"))
        vf::note("capability: " + kname + ": `" + std::string(form_name[form]) + "` is listed as not available but compiles now; it is executed and judged");
    if (form == F_ITER && !K::iter_applies(cfg)) return;
    // forms whose wrappers are temporaries can only be judged through the world: every component must designate a world cell
    bool all_ref = true;
    for (int c = 0; c < K::NC; ++c) if (K::cell_a(cfg, c) < 0 || K::cell_b(cfg, c) < 0) all_ref = false;
    if ((form_tmp(form) || form == F_ADL_LVTMP) && !all_ref) return;

    std::snprintf(g_shared, 4000, "%s", id.c_str());
    registry& reg = registry::get();
    reg.errors = 0;
    vf::take_asan();
    const size_t base = reg.live.size();
    ++g_eval;
    std::string what = K::describe(cfg) + "; then " + form_name[form] + (times == 2 ? ", applied twice" : "") + ": ";
    {
        typename K::World w(cfg);
        W a = K::mk_a(w);
        W b = K::mk_b(w);
        std::vector<double> ew = K::world(w);               // expected world
        const std::vector<double> w0 = ew;
        double ea[2] = {0, 0}, eb[2] = {0, 0};              // expected reads through a / b
        for (int c = 0; c < K::NC; ++c) { ea[c] = K::read(a, c); eb[c] = K::read(b, c); }
        // the wrappers read their cells to begin with
        for (int c = 0; c < K::NC; ++c)
        {
            int ia = K::cell_a(cfg, c), ib = K::cell_b(cfg, c);
            if ((ia >= 0 && ea[c] != ew[ia]) || (ib >= 0 && eb[c] != ew[ib]))
            { vf::violation(sig + "construct/wrong-value", what + "before the swap a wrapper does not read the content of the object its " + K::cname(c) + " component was built from", replay); return; }
        }
        const void* aa[2] = {nullptr, nullptr};
        const void* ab[2] = {nullptr, nullptr};
        for (int c = 0; c < K::NC; ++c) { aa[c] = K::addr(a, c); ab[c] = K::addr(b, c); }
        const bool exchange = !form_self(form) && (times % 2) == 1;
        bool changes = false;
        if (exchange)
            for (int c = 0; c < K::NC; ++c)
            {
                int ia = K::cell_a(cfg, c), ib = K::cell_b(cfg, c);
                if (ia >= 0 && ia == ib) continue;                 // one common cell: keeps its content
                if (ea[c] != eb[c]) changes = true;
                std::swap(ea[c], eb[c]);
                if (ia >= 0) ew[ia] = ea[c];
                if (ib >= 0) ew[ib] = eb[c];
            }
        if (changes || (times == 2 && !form_self(form))) ++g_nontrivial;
        for (int t = 0; t < times; ++t) exec_form<K>(form, a, b, w);
        // ---- verdict
        const char* fail_cell = form_self(form) ? "self-swap-changed" : times == 2 ? "swap-twice-not-restored" : nullptr;
        std::vector<double> gw = K::world(w);
        std::string state;
        bool bad = false;
        std::string kind;
        for (size_t i = 0; i < gw.size() && !bad; ++i)
            if (gw[i] != ew[i])
            {
                int comp = -1;
                for (int c = 0; c < K::NC; ++c) if (K::cell_a(cfg, c) == int(i) || K::cell_b(cfg, c) == int(i)) comp = c;
                bad = true;
                if (comp < 0) { kind = "bystander-changed"; state = K::cell_name(cfg, int(i)) + ", which neither wrapper designates, holds " + num(gw[i]) + " (it was " + num(w0[i]) + ")"; }
                else { kind = fail_cell ? fail_cell : std::string(K::cname(comp)) + "s-not-exchanged"; }
            }
        const bool alive = !form_tmp(form);
        if (!bad && alive)
            for (int c = 0; c < K::NC && !bad; ++c)
                if (K::read(a, c) != ea[c] || (form != F_ADL_LVTMP && K::read(b, c) != eb[c]))
                { bad = true; kind = fail_cell ? fail_cell : std::string(K::cname(c)) + "s-not-exchanged"; }
        if (bad && state.empty())
        {
            // full picture: every component, got vs expected (what the wrappers read; for temporaries what the originals hold)
            for (int c = 0; c < K::NC; ++c)
            {
                int ia = K::cell_a(cfg, c), ib = K::cell_b(cfg, c);
                double ga = alive ? K::read(a, c) : gw[ia], gb = (alive && form != F_ADL_LVTMP) ? K::read(b, c) : gw[ib];
                state += std::string(c ? "; " : "") + K::cname(c) + " of a (" + (ia >= 0 ? K::cell_name(cfg, ia) : std::string("owned")) + ") = " + num(ga) + " expected " + num(ea[c]) +
                         ", " + K::cname(c) + " of b (" + (ib >= 0 ? K::cell_name(cfg, ib) : std::string("owned")) + ") = " + num(gb) + " expected " + num(eb[c]);
            }
            state += form_self(form) ? " (a swap of a wrapper with itself changes nothing)" : times == 2 ? " (swapping twice restores the initial state)" :
                     " (swap exchanges the contents of the designated objects exactly, component by component)";
        }
        if (bad) vf::violation(sig + kind, what + state, replay);
        if (!bad && alive)
            for (int c = 0; c < K::NC; ++c)
            {
                int ia = K::cell_a(cfg, c), ib = K::cell_b(cfg, c);
                const void* na = K::addr(a, c); const void* nb = K::addr(b, c);
                const void* oa = ia >= 0 ? K::cell_addr(w, ia) : nullptr; const void* ob = ib >= 0 ? K::cell_addr(w, ib) : nullptr;
                if (na != aa[c] || nb != ab[c] || (oa && na && oa != na) || (ob && nb && ob != nb))
                { vf::violation(sig + "rebound", what + "the " + K::cname(c) + " component of a wrapper designates a different object than before the swap / than the object it was built from", replay); break; }
            }
    }
    if (reg.errors) { vf::violation(sig + "lifetime", what + reg.first_error, replay); reg.errors = 0; }
    if (vf::take_asan()) vf::violation(sig + "asan-report", what + "AddressSanitizer reported a memory error", replay);
    if (reg.live.size() != base) vf::violation(sig + "leak", what + "payload objects are still alive after everything was destroyed", replay);
}

template <class K>
static void run_kind()
{
    const std::string kname = K::name();
    if (!g_only.empty() && g_only.compare(0, kname.size() + 1, kname + "|") != 0) return;
    long long before = g_eval;
    std::vector<typename K::Cfg> cs = K::configs();
    for (size_t ci = 0; ci < cs.size(); ++ci)
        for (int form = 0; form < F_NFORMS; ++form)
            for (int times = 1; times <= 2; ++times)
                judge<K>(kname, cs[ci], long(ci), form, times);
    vf::stat(std::string("scenarios[swap-kinds:") + K::family() + "]", g_eval - before);
    vf::stat("swap_kinds_enumerated", 1);
}

// ---------------------------------------------------------------------------------------------------------------------
// helpers shared by the kinds
// ---------------------------------------------------------------------------------------------------------------------
template <bool B> using bool_c = std::integral_constant<bool, B>;
template <class T> static T& pick(std::true_type, T& r, T) { return r; }
template <class T> static T pick(std::false_type, T&, T v) { return v; }
static double rdd(const int& v) { return v; }
static double rdd(const double& v) { return v; }
static double rdd(const bool& v) { return v ? 1 : 0; }
static double rdd(const unsigned char& v) { return v; }
static double rdd(const Counted& v) { return rd(v); }
static double rdd(const MoveOnly& v) { return rd(v); }

template <class P> struct pn { static std::string get() { return pname<P>::get(); } };
template <> struct pn<double> { static std::string get() { return "double"; } };
template <> struct pn<bool> { static std::string get() { return "bool"; } };
template <> struct pn<unsigned char> { static std::string get() { return "unsigned char"; } };
template <> struct pn<uint64_t> { static std::string get() { return "uint64_t"; } };

// flag alphabets: every flag type carries 0, 1 and a truthy value that is not 1
template <class F> struct flagvals;
template <> struct flagvals<bool> { static int n() { return 2; } static bool get(int i) { return i != 0; } };
template <> struct flagvals<int> { static int n() { return 4; } static int get(int i) { static const int v[4] = {0, 1, 2, -1}; return v[i]; } };
template <> struct flagvals<unsigned char> { static int n() { return 4; } static unsigned char get(int i) { static const unsigned char v[4] = {0, 1, 0x80, 3}; return v[i]; } };
template <> struct flagvals<double> { static int n() { return 4; } static double get(int i) { static const double v[4] = {0.0, 1.0, 0.25, -2.5}; return v[i]; } };

template <class P> static P mkp(int v) { return P(v); }

#if SWAPX_PART == 0
// =====================================================================================================================
// single-closure wrappers: closure(v), proxy_wrapper(v)
// =====================================================================================================================
template <class CT> static decltype(auto) pget(xtl::xclosure_wrapper<CT>& w) { return w.get(); }
template <class T> static T& pget(xtl::xproxy_wrapper_impl<T>& w) { return static_cast<T&>(w); }

struct MkClosure { static const char* nm() { return "closure"; } template <class V> static auto mk(V&& v) { return xtl::closure(std::forward<V>(v)); } };
struct MkProxy { static const char* nm() { return "proxy_wrapper"; } template <class V> static auto mk(V&& v) { return xtl::proxy_wrapper(std::forward<V>(v)); } };

template <class Mk, class P, bool REF>
struct KSingle
{
    struct Cfg { int vy, same; };
    struct World { P x, y, z; World(const Cfg& c) : x(10), y(c.vy), z(30), cfg(c) {} Cfg cfg; };
    typedef decltype(Mk::mk(pick<P>(bool_c<REF>(), std::declval<P&>(), std::declval<P>()))) W;
    static const int NC = 1;
    static const bool has_iter = false;
    static bool iter_applies(const Cfg&) { return false; }
    static void iter_swap_ab(World&) {}
    static const char* family() { return "single"; }
    static std::string name() { return std::string(Mk::nm()) + "(" + pn<P>::get() + (REF ? "&" : " rvalue") + ")"; }
    static std::vector<Cfg> configs()
    {
        std::vector<Cfg> v;
        for (int same = 0; same <= (REF ? 1 : 0); ++same) for (int vy = 10; vy <= 20; vy += 10) v.push_back(Cfg{vy, same});
        return v;
    }
    static W mk_a(World& w) { return Mk::mk(pick<P>(bool_c<REF>(), w.x, P(10))); }
    static W mk_b(World& w) { return Mk::mk(pick<P>(bool_c<REF>(), w.cfg.same ? w.x : w.y, P(w.cfg.vy))); }
    static const char* cname(int) { return "value"; }
    static double read(W& a, int) { return rdd(pget(a)); }
    static const void* addr(W& a, int) { return &pget(a); }
    static int cell_a(const Cfg&, int) { return REF ? 0 : -1; }
    static int cell_b(const Cfg& c, int) { return REF ? (c.same ? 0 : 1) : -1; }
    static std::vector<double> world(World& w) { return {rdd(w.x), rdd(w.y), rdd(w.z)}; }
    static const void* cell_addr(World& w, int i) { return i == 0 ? &w.x : i == 1 ? &w.y : &w.z; }
    static std::string cell_name(const Cfg&, int i) { return i == 0 ? "x" : i == 1 ? "y" : "z"; }
    static std::string describe(const Cfg& c)
    {
        return std::string(Mk::nm()) + " over payload " + pn<P>::get() + ": " + (REF ? "x=10, y=" + vf::str(c.vy) + ", z=30; a = " + Mk::nm() + "(x), b = " + Mk::nm() + (c.same ? "(x)" : "(y)")
                                                                                      : "a = " + std::string(Mk::nm()) + "(P(10)), b = " + Mk::nm() + "(P(" + vf::str(c.vy) + ")) (both own their value)");
    }
    static bool expected(int f)
    {
        const bool impl = std::is_same<W, xtl::xproxy_wrapper_impl<P>>::value;   // is-a P: no member swap, the generic std::swap of an owner
        if (f <= F_MEM_AA) return !impl;
        return f <= F_ADL_AA;
    }
};

// =====================================================================================================================
// xcomplex over value / reference closures
// =====================================================================================================================
template <class T, bool RR, bool IR>
struct KComplex
{
    struct Cfg { int rsame, isame, eq; };
    struct World { T x1, x2, y1, y2, z; Cfg cfg; World(const Cfg& c) : x1(1), x2(2), y1(c.eq ? 1 : 3), y2(c.eq ? 2 : 4), z(9), cfg(c) {} };
    typedef xtl::xcomplex<std::conditional_t<RR, T&, T>, std::conditional_t<IR, T&, T>> W;
    static const int NC = 2;
    static const bool has_iter = false;
    static bool iter_applies(const Cfg&) { return false; }
    static void iter_swap_ab(World&) {}
    static const char* family() { return "complex"; }
    static std::string name() { return "xcomplex<" + pn<T>::get() + (RR ? "&" : "") + "," + pn<T>::get() + (IR ? "&" : "") + ">"; }
    static std::vector<Cfg> configs()
    {
        std::vector<Cfg> v;
        for (int rs = 0; rs <= (RR ? 1 : 0); ++rs) for (int is = 0; is <= (IR ? 1 : 0); ++is) for (int eq = 0; eq <= 1; ++eq) v.push_back(Cfg{rs, is, eq});
        return v;
    }
    static W mk_a(World& w) { return W(pick<T>(bool_c<RR>(), w.x1, T(1)), pick<T>(bool_c<IR>(), w.x2, T(2))); }
    static W mk_b(World& w) { return W(pick<T>(bool_c<RR>(), w.cfg.rsame ? w.x1 : w.y1, T(w.cfg.eq ? 1 : 3)), pick<T>(bool_c<IR>(), w.cfg.isame ? w.x2 : w.y2, T(w.cfg.eq ? 2 : 4))); }
    static const char* cname(int c) { return c ? "imaginary part" : "real part"; }
    static double read(W& a, int c) { return c ? rdd(a.imag()) : rdd(a.real()); }
    static const void* addr(W& a, int c) { return c ? static_cast<const void*>(&a.imag()) : static_cast<const void*>(&a.real()); }
    static int cell_a(const Cfg&, int c) { return c ? (IR ? 1 : -1) : (RR ? 0 : -1); }
    static int cell_b(const Cfg& k, int c) { return c ? (IR ? (k.isame ? 1 : 3) : -1) : (RR ? (k.rsame ? 0 : 2) : -1); }
    static std::vector<double> world(World& w) { return {rdd(w.x1), rdd(w.x2), rdd(w.y1), rdd(w.y2), rdd(w.z)}; }
    static const void* cell_addr(World& w, int i) { return i == 0 ? &w.x1 : i == 1 ? &w.x2 : i == 2 ? &w.y1 : i == 3 ? &w.y2 : &w.z; }
    static std::string cell_name(const Cfg&, int i) { static const char* n[5] = {"x1", "x2", "y1", "y2", "z"}; return n[i]; }
    static std::string describe(const Cfg& k)
    {
        return name() + ": x1=1 x2=2 " + (k.eq ? "y1=1 y2=2" : "y1=3 y2=4") + " z=9; a(" + (RR ? "x1" : "1") + ", " + (IR ? "x2" : "2") + "), b(" +
               (RR ? (k.rsame ? "x1" : "y1") : (k.eq ? "1" : "3")) + ", " + (IR ? (k.isame ? "x2" : "y2") : (k.eq ? "2" : "4")) + ")";
    }
    static bool expected(int f) { return f >= F_ADL_AB && f <= F_ADL_AA; }      // no member swap; found through `using std::swap`
};

// =====================================================================================================================
// bitset element references (owning bitset and view)
// =====================================================================================================================
static const size_t NB = 70;
static const size_t bitpos[6] = {0, 7, 8, 63, 64, 69};
enum { P_INDEX, P_AT, P_FRONTBACK, P_ITER, P_NPATHS };
static const char* path_name[P_NPATHS] = {"operator[]", "at()", "front()/back()", "*iterator"};

template <class B, bool VIEW> struct BitHolder;
template <class B> struct BitHolder<B, false> { xtl::xdynamic_bitset<B> bs; BitHolder() : bs(NB, false) {} typedef xtl::xdynamic_bitset<B> BS; };
template <class B> struct BitHolder<B, true>
{
    typedef xtl::xdynamic_bitset_view<B> BS;
    std::unique_ptr<B[]> store; BS bs;
    BitHolder() : store(new B[(NB + sizeof(B) * 8 - 1) / (sizeof(B) * 8)]()), bs(store.get(), NB) {}
};
static bool bgbit(int bg, size_t k) { return bg == 0 ? false : bg == 1 ? true : bg == 2 ? (k % 2 == 0) : (k % 2 == 1); }
// begin() of the std::array based sequences is ill-formed on the pinned tree (xoptional_iterator over a raw pointer): their proxies are not reached through iterators
template <class S> struct seq_iterable : std::true_type {};
template <class T, std::size_t I, class BC> struct seq_iterable<xtl::xoptional_array<T, I, BC>> : std::false_type {};
template <class S> static typename S::reference seq_deref(std::true_type, S& s, size_t i) { return *(s.begin() + std::ptrdiff_t(i)); }
template <class S> static typename S::reference seq_deref(std::false_type, S& s, size_t i) { return s[i]; }
template <class S> static void seq_iter_swap(std::true_type, S& s, size_t i, size_t j) { std::iter_swap(s.begin() + std::ptrdiff_t(i), s.begin() + std::ptrdiff_t(j)); }
template <class S> static void seq_iter_swap(std::false_type, S&, size_t, size_t) {}
template <class S> static typename S::reference seq_get(S& s, int path, size_t i)
{
    switch (path)
    {
    case P_AT: return s.at(i);
    case P_FRONTBACK: return i == 0 ? s.front() : s.back();
    case P_ITER: return seq_deref(seq_iterable<S>(), s, i);
    default: return s[i];
    }
}

template <class B, bool VIEW>
struct KBit
{
    struct Cfg { int path; size_t i, j; int vi, vj, bg; };
    struct World : BitHolder<B, VIEW>
    {
        Cfg cfg;
        World(const Cfg& c) : cfg(c) { for (size_t k = 0; k < NB; ++k) this->bs.set(k, bgbit(c.bg, k)); this->bs.set(c.j, c.vj != 0); this->bs.set(c.i, c.vi != 0); }
    };
    typedef typename BitHolder<B, VIEW>::BS BS;
    typedef typename BS::reference W;
    static const int NC = 1;
    static const bool has_iter = true;
    static bool iter_applies(const Cfg& c) { return c.path == P_ITER; }
    static void iter_swap_ab(World& w) { std::iter_swap(w.bs.begin() + std::ptrdiff_t(w.cfg.i), w.bs.begin() + std::ptrdiff_t(w.cfg.j)); }
    static const char* family() { return "bitref"; }
    static std::string name() { return std::string(VIEW ? "xdynamic_bitset_view<" : "xdynamic_bitset<") + pn<B>::get() + ">::reference"; }
    static std::vector<Cfg> configs()
    {
        std::vector<Cfg> v;
        for (int path = 0; path < P_NPATHS; ++path)
            for (size_t i : bitpos) for (size_t j : bitpos)
            {
                if (path == P_FRONTBACK && ((i != 0 && i != NB - 1) || (j != 0 && j != NB - 1))) continue;
                for (int vi = 0; vi <= 1; ++vi) for (int vj = 0; vj <= 1; ++vj)
                {
                    if (i == j && vi != vj) continue;
                    for (int bg = 0; bg < (g_deep ? 4 : 2); ++bg) v.push_back(Cfg{path, i, j, vi, vj, bg});
                }
            }
        return v;
    }
    static W mk_a(World& w) { return seq_get(w.bs, w.cfg.path, w.cfg.i); }
    static W mk_b(World& w) { return seq_get(w.bs, w.cfg.path, w.cfg.j); }
    static const char* cname(int) { return "bit"; }
    static double read(W& a, int) { return bool(a) ? 1 : 0; }
    static const void* addr(W&, int) { return nullptr; }
    static int cell_a(const Cfg& c, int) { return int(c.i); }
    static int cell_b(const Cfg& c, int) { return int(c.j); }
    static std::vector<double> world(World& w) { std::vector<double> v(NB); const BS& c = w.bs; for (size_t k = 0; k < NB; ++k) v[k] = bool(c[k]) ? 1 : 0; return v; }
    static const void* cell_addr(World&, int) { return nullptr; }
    static std::string cell_name(const Cfg&, int i) { return "bit " + vf::str(i); }
    static std::string describe(const Cfg& c)
    {
        static const char* bgn[4] = {"all other bits 0", "all other bits 1", "other bits 1 at even positions", "other bits 1 at odd positions"};
        return std::string(VIEW ? "xdynamic_bitset_view<" : "xdynamic_bitset<") + pn<B>::get() + "> of " + vf::str(NB) + " bits (" + vf::str(sizeof(B) * 8) + " bits per block), " + bgn[c.bg] +
               ", bit " + vf::str(c.i) + "=" + vf::str(c.vi) + (c.i == c.j ? " (a and b are two references to this one bit)" : ", bit " + vf::str(c.j) + "=" + vf::str(c.vj)) +
               "; a = reference to bit " + vf::str(c.i) + ", b = reference to bit " + vf::str(c.j) + ", both obtained by " + path_name[c.path];
    }
    static bool expected(int f) { return f >= F_ADL_AB; }     // no member swap; ADL swap taking the proxies by value: lvalues, temporaries, iter_swap
};

// proxy_wrapper(bits[i]): the wrapper IS-A bit reference (xproxy_wrapper_impl<reference>) and designates the bit the proxy designates
template <class B>
struct KBitProxy : KBit<B, false>
{
    typedef KBit<B, false> base;
    typedef typename base::World World;
    typedef typename base::Cfg Cfg;
    typedef typename base::W R;
    typedef decltype(xtl::proxy_wrapper(std::declval<R>())) W;
    static const bool has_iter = false;
    static bool iter_applies(const Cfg&) { return false; }
    static std::string name() { return "proxy_wrapper(" + base::name() + ")"; }
    static std::vector<Cfg> configs() { std::vector<Cfg> v; for (const Cfg& c : base::configs()) if (c.path == P_INDEX) v.push_back(c); return v; }
    static W mk_a(World& w) { return xtl::proxy_wrapper(base::mk_a(w)); }
    static W mk_b(World& w) { return xtl::proxy_wrapper(base::mk_b(w)); }
    static double read(W& a, int) { return bool(static_cast<R&>(a)) ? 1 : 0; }
    static const void* addr(W&, int) { return nullptr; }
    static std::string describe(const Cfg& c) { return base::describe(c) + " and wrapped: a = proxy_wrapper(bits[" + vf::str(c.i) + "]), b = proxy_wrapper(bits[" + vf::str(c.j) + "])"; }
    static bool expected(int f) { return f >= F_ADL_AB && f != F_ITER; }    // temporaries: the by-value swap of the bit reference accepts the derived wrapper
};

// =====================================================================================================================
// element proxies of xoptional_vector / xoptional_array
// =====================================================================================================================
static const size_t seqpos[5] = {0, 1, 63, 64, 69};

template <class S> struct SeqMake;
template <class T, class A, class BC> struct SeqMake<xtl::xoptional_vector<T, A, BC>>
{
    static std::string nm() { return "xoptional_vector<" + pn<T>::get() + ", flags " + SeqMake::fl() + ">"; }
    static std::string fl();
    typedef T value;
};
template <class T, std::size_t I, class BC> struct SeqMake<xtl::xoptional_array<T, I, BC>>
{
    static std::string nm() { return "xoptional_array<" + pn<T>::get() + "," + vf::str(I) + ", flags " + SeqMake::fl() + ">"; }
    static std::string fl();
    typedef T value;
};
template <class BC> struct flname;
template <class B> struct flname<xtl::xdynamic_bitset<B>> { static std::string get() { return "xdynamic_bitset<" + pn<B>::get() + ">"; } };
template <> struct flname<std::vector<bool>> { static std::string get() { return "std::vector<bool>"; } };
template <class T, class A, class BC> std::string SeqMake<xtl::xoptional_vector<T, A, BC>>::fl() { return flname<BC>::get(); }
template <class T, std::size_t I, class BC> std::string SeqMake<xtl::xoptional_array<T, I, BC>>::fl() { return flname<BC>::get(); }

template <class S>
struct KSeq
{
    typedef typename SeqMake<S>::value T;
    struct Cfg { int path; size_t i, j; int pi, pj, bg; };
    struct World
    {
        S v; Cfg cfg;
        World(const Cfg& c) : v(NB, T(0)), cfg(c)
        {
            for (size_t k = 0; k < NB; ++k) { v.value()[k] = T(int(100 + k)); v.has_value()[k] = bgbit(c.bg, k); }
            v.has_value()[c.j] = c.pj != 0; v.has_value()[c.i] = c.pi != 0;
        }
    };
    typedef typename S::reference W;
    static const int NC = 2;
    static const bool has_iter = seq_iterable<S>::value;
    static bool iter_applies(const Cfg& c) { return c.path == P_ITER; }
    static void iter_swap_ab(World& w) { seq_iter_swap(seq_iterable<S>(), w.v, w.cfg.i, w.cfg.j); }
    static const char* family() { return "optseq"; }
    static std::string name() { return SeqMake<S>::nm() + "::reference"; }
    static std::vector<Cfg> configs()
    {
        std::vector<Cfg> v;
        for (int path = 0; path < (seq_iterable<S>::value ? P_NPATHS : P_ITER); ++path)
            for (size_t i : seqpos) for (size_t j : seqpos)
            {
                if (path == P_FRONTBACK && ((i != 0 && i != NB - 1) || (j != 0 && j != NB - 1))) continue;
                for (int pi = 0; pi <= 1; ++pi) for (int pj = 0; pj <= 1; ++pj)
                {
                    if (i == j && pi != pj) continue;
                    for (int bg = 0; bg < (g_deep ? 4 : 2); ++bg) v.push_back(Cfg{path, i, j, pi, pj, bg});
                }
            }
        return v;
    }
    static W mk_a(World& w) { return seq_get(w.v, w.cfg.path, w.cfg.i); }
    static W mk_b(World& w) { return seq_get(w.v, w.cfg.path, w.cfg.j); }
    static const char* cname(int c) { return c ? "presence flag" : "value"; }
    static double read(W& a, int c) { return c ? (bool(a.has_value()) ? 1 : 0) : rdd(a.value()); }
    static const void* addr(W& a, int c) { return c ? nullptr : static_cast<const void*>(&a.value()); }
    static int cell_a(const Cfg& k, int c) { return int(k.i) + (c ? int(NB) : 0); }
    static int cell_b(const Cfg& k, int c) { return int(k.j) + (c ? int(NB) : 0); }
    static std::vector<double> world(World& w)
    {
        std::vector<double> v(2 * NB);
        const S& c = w.v;
        for (size_t k = 0; k < NB; ++k) { v[k] = rdd(c.value()[k]); v[NB + k] = bool(c.has_value()[k]) ? 1 : 0; }
        return v;
    }
    static const void* cell_addr(World& w, int i) { return i < int(NB) ? static_cast<const void*>(&w.v.value()[size_t(i)]) : nullptr; }
    static std::string cell_name(const Cfg&, int i) { return i < int(NB) ? "the value of element " + vf::str(i) : "the presence flag of element " + vf::str(i - int(NB)); }
    static std::string describe(const Cfg& c)
    {
        static const char* bgn[4] = {"all other elements missing", "all other elements present", "other elements present at even positions", "other elements present at odd positions"};
        return SeqMake<S>::nm() + " of " + vf::str(NB) + " elements, element k holds 100+k, " + bgn[c.bg] + ", element " + vf::str(c.i) + (c.pi ? " present" : " missing") +
               (c.i == c.j ? " (a and b are two proxies of this one element)" : ", element " + vf::str(c.j) + (c.pj ? " present" : " missing")) +
               "; a = proxy of element " + vf::str(c.i) + ", b = proxy of element " + vf::str(c.j) + ", both obtained by " + path_name[c.path];
    }
    static bool expected(int f) { return f <= F_ADL_AA; }      // xoptional::swap and swap(xoptional&, xoptional&) on named proxies; nothing accepts the temporaries v[i], v[j] (nor iter_swap)
};
#endif

#if SWAPX_PART == 1 || SWAPX_PART == 2
// =====================================================================================================================
// optional(v, f) / masked_value(v, f): value closure {T, T&} x flag closure {F, F&} x flag type F in {bool, int, unsigned char, double}
// =====================================================================================================================
struct FamOpt
{
    static const char* nm() { return "optional"; }
    template <class V, class F> static auto mk(V&& v, F&& f) { return xtl::optional(std::forward<V>(v), std::forward<F>(f)); }
    template <class W> static decltype(auto) value(W& w) { return w.value(); }
    template <class W> static decltype(auto) flag(W& w) { return w.has_value(); }
    static bool adl_lv(bool, bool) { return true; }                // swap(xoptional&, xoptional&) forwards to the member (before /repo 1024237: only two values, through the generic std::swap)
};
struct FamMask
{
    static const char* nm() { return "masked_value"; }
    template <class V, class F> static auto mk(V&& v, F&& f) { return xtl::masked_value(std::forward<V>(v), std::forward<F>(f)); }
    template <class W> static decltype(auto) value(W& w) { return w.value(); }
    template <class W> static decltype(auto) flag(W& w) { return w.visible(); }
    static bool adl_lv(bool vr, bool fr) { return vr || fr; }      // two values: xtl::swap and std::swap are ambiguous
};

template <class Fam, class P, bool VR, class F, bool FR>
struct KVF
{
    struct Cfg { int vy, vsame, fsame, fa, fb; };
    struct World { P x, y, z; F f, g, h; Cfg cfg; World(const Cfg& c) : x(10), y(c.vy), z(30), f(flagvals<F>::get(c.fa)), g(flagvals<F>::get(c.fb)), h(flagvals<F>::get(1)), cfg(c) {} };
    typedef decltype(Fam::mk(pick<P>(bool_c<VR>(), std::declval<P&>(), std::declval<P>()), pick<F>(bool_c<FR>(), std::declval<F&>(), std::declval<F>()))) W;
    static const int NC = 2;
    static const bool has_iter = false;
    static bool iter_applies(const Cfg&) { return false; }
    static void iter_swap_ab(World&) {}
    static const char* family() { return Fam::nm(); }
    static std::string clos() { return pn<P>::get() + (VR ? "&" : "") + "," + pn<F>::get() + (FR ? "&" : ""); }
    static std::string name() { return std::string(Fam::nm()) + "(" + clos() + ")"; }
    static std::vector<Cfg> configs()
    {
        std::vector<Cfg> v;
        for (int vs = 0; vs <= (VR ? 1 : 0); ++vs) for (int fs = 0; fs <= (FR ? 1 : 0); ++fs) for (int vy = 10; vy <= 20; vy += 10)
            for (int fa = 0; fa < flagvals<F>::n(); ++fa) for (int fb = 0; fb < flagvals<F>::n(); ++fb) v.push_back(Cfg{vy, vs, fs, fa, fb});
        return v;
    }
    static W mk_a(World& w) { return Fam::mk(pick<P>(bool_c<VR>(), w.x, P(10)), pick<F>(bool_c<FR>(), w.f, flagvals<F>::get(w.cfg.fa))); }
    static W mk_b(World& w) { return Fam::mk(pick<P>(bool_c<VR>(), w.cfg.vsame ? w.x : w.y, P(w.cfg.vy)), pick<F>(bool_c<FR>(), w.cfg.fsame ? w.f : w.g, flagvals<F>::get(w.cfg.fb))); }
    static const char* cname(int c) { return c ? "flag" : "value"; }
    static double read(W& a, int c) { return c ? rdd(Fam::flag(a)) : rdd(Fam::value(a)); }
    static const void* addr(W& a, int c) { return c ? static_cast<const void*>(&Fam::flag(a)) : static_cast<const void*>(&Fam::value(a)); }
    static int cell_a(const Cfg&, int c) { return c ? (FR ? 3 : -1) : (VR ? 0 : -1); }
    static int cell_b(const Cfg& k, int c) { return c ? (FR ? (k.fsame ? 3 : 4) : -1) : (VR ? (k.vsame ? 0 : 1) : -1); }
    static std::vector<double> world(World& w) { return {rdd(w.x), rdd(w.y), rdd(w.z), rdd(w.f), rdd(w.g), rdd(w.h)}; }
    static const void* cell_addr(World& w, int i)
    {
        return i == 0 ? static_cast<const void*>(&w.x) : i == 1 ? static_cast<const void*>(&w.y) : i == 2 ? static_cast<const void*>(&w.z) : i == 3 ? static_cast<const void*>(&w.f) :
               i == 4 ? static_cast<const void*>(&w.g) : static_cast<const void*>(&w.h);
    }
    static std::string cell_name(const Cfg&, int i) { static const char* n[6] = {"x", "y", "z", "f", "g", "h"}; return n[i]; }
    static std::string describe(const Cfg& k)
    {
        std::string fa = num(rdd(flagvals<F>::get(k.fa))), fb = num(rdd(flagvals<F>::get(k.fb)));
        return std::string(Fam::nm()) + "(v, flag) with closures (" + clos() + "): values x=10 y=" + vf::str(k.vy) + " z=30, flags (" + pn<F>::get() + ") f=" + fa + " g=" + fb + " h=1; a = " + Fam::nm() + "(" +
               (VR ? "x" : "P(10)") + ", " + (FR ? "f" : fa) + "), b = " + Fam::nm() + "(" + (VR ? (k.vsame ? "x" : "y") : "P(" + vf::str(k.vy) + ")") + ", " + (FR ? (k.fsame ? "f" : "g") : fb) + ")";
    }
    static bool expected(int f)
    {
        if (f <= F_MEM_AA) return true;
        if (f <= F_ADL_AA) return Fam::adl_lv(VR, FR);
        return false;
    }
};

template <class Fam, class P, class F>
static void run_vf_closures()
{
    run_kind<KVF<Fam, P, true, F, true>>();
    run_kind<KVF<Fam, P, true, F, false>>();
    run_kind<KVF<Fam, P, false, F, true>>();
    run_kind<KVF<Fam, P, false, F, false>>();
}
template <class Fam>
static void run_vf()
{
    run_vf_closures<Fam, int, bool>(); run_vf_closures<Fam, int, int>(); run_vf_closures<Fam, int, unsigned char>(); run_vf_closures<Fam, int, double>();
    run_vf_closures<Fam, Counted, bool>(); run_vf_closures<Fam, Counted, int>(); run_vf_closures<Fam, Counted, unsigned char>(); run_vf_closures<Fam, Counted, double>();
}
#endif

#if SWAPX_PART == 3
// =====================================================================================================================
// optional(v, bits[i]) / masked_value(v, bits[i]): the flag closure is a bitset element reference held by value
// =====================================================================================================================
static const size_t NFB = 12;
static const size_t fbpos[3] = {0, 7, 8};

struct FamOpt
{
    static const char* nm() { return "optional"; }
    template <class V, class F> static auto mk(V&& v, F&& f) { return xtl::optional(std::forward<V>(v), std::forward<F>(f)); }
    template <class W> static decltype(auto) value(W& w) { return w.value(); }
    template <class W> static bool flag(W& w) { return bool(w.has_value()); }
    static bool adl_lv(bool) { return true; }
};
struct FamMask
{
    static const char* nm() { return "masked_value"; }
    template <class V, class F> static auto mk(V&& v, F&& f) { return xtl::masked_value(std::forward<V>(v), std::forward<F>(f)); }
    template <class W> static decltype(auto) value(W& w) { return w.value(); }
    template <class W> static bool flag(W& w) { return bool(w.visible()); }
    static bool adl_lv(bool vr) { return vr; }     // owned value + proxy flag: assignable, so xtl::swap and std::swap are ambiguous (as for two plain values)
};

template <class Fam, class P, bool VR, class B>
struct KVBit
{
    struct Cfg { int vy, vsame; size_t i, j; int bi, bj, bg; };
    struct World
    {
        P x, y, z; xtl::xdynamic_bitset<B> bits; Cfg cfg;
        World(const Cfg& c) : x(10), y(c.vy), z(30), bits(NFB, c.bg != 0), cfg(c) { bits.set(c.j, c.bj != 0); bits.set(c.i, c.bi != 0); }
    };
    typedef decltype(Fam::mk(pick<P>(bool_c<VR>(), std::declval<P&>(), std::declval<P>()), std::declval<xtl::xdynamic_bitset<B>&>()[0])) W;
    static const int NC = 2;
    static const bool has_iter = false;
    static bool iter_applies(const Cfg&) { return false; }
    static void iter_swap_ab(World&) {}
    static const char* family() { return "bitflag"; }
    static std::string clos() { return pn<P>::get() + (VR ? "&" : "") + ",xbitset_reference<" + pn<B>::get() + ">"; }
    static std::string name() { return std::string(Fam::nm()) + "(" + clos() + ")"; }
    static std::vector<Cfg> configs()
    {
        std::vector<Cfg> v;
        for (int vs = 0; vs <= (VR ? 1 : 0); ++vs) for (int vy = 10; vy <= 20; vy += 10)
            for (size_t i : fbpos) for (size_t j : fbpos) for (int bi = 0; bi <= 1; ++bi) for (int bj = 0; bj <= 1; ++bj)
            {
                if (i == j && bi != bj) continue;
                for (int bg = 0; bg <= 1; ++bg) v.push_back(Cfg{vy, vs, i, j, bi, bj, bg});
            }
        return v;
    }
    static W mk_a(World& w) { return Fam::mk(pick<P>(bool_c<VR>(), w.x, P(10)), w.bits[w.cfg.i]); }
    static W mk_b(World& w) { return Fam::mk(pick<P>(bool_c<VR>(), w.cfg.vsame ? w.x : w.y, P(w.cfg.vy)), w.bits[w.cfg.j]); }
    static const char* cname(int c) { return c ? "flag" : "value"; }
    static double read(W& a, int c) { return c ? (Fam::flag(a) ? 1 : 0) : rdd(Fam::value(a)); }
    static const void* addr(W& a, int c) { return c ? nullptr : static_cast<const void*>(&Fam::value(a)); }
    static int cell_a(const Cfg& k, int c) { return c ? 3 + int(k.i) : (VR ? 0 : -1); }
    static int cell_b(const Cfg& k, int c) { return c ? 3 + int(k.j) : (VR ? (k.vsame ? 0 : 1) : -1); }
    static std::vector<double> world(World& w)
    {
        std::vector<double> v = {rdd(w.x), rdd(w.y), rdd(w.z)};
        const xtl::xdynamic_bitset<B>& c = w.bits;
        for (size_t k = 0; k < NFB; ++k) v.push_back(bool(c[k]) ? 1 : 0);
        return v;
    }
    static const void* cell_addr(World& w, int i) { return i == 0 ? static_cast<const void*>(&w.x) : i == 1 ? static_cast<const void*>(&w.y) : i == 2 ? static_cast<const void*>(&w.z) : nullptr; }
    static std::string cell_name(const Cfg&, int i) { return i == 0 ? "x" : i == 1 ? "y" : i == 2 ? "z" : "bit " + vf::str(i - 3) + " of the flag bitset"; }
    static std::string describe(const Cfg& k)
    {
        return std::string(Fam::nm()) + "(v, bits[i]) with closures (" + clos() + "): values x=10 y=" + vf::str(k.vy) + " z=30, flag bitset of " + vf::str(NFB) + " bits, all other bits " + vf::str(k.bg) +
               ", bit " + vf::str(k.i) + "=" + vf::str(k.bi) + (k.i == k.j ? " (both flags designate this one bit)" : ", bit " + vf::str(k.j) + "=" + vf::str(k.bj)) + "; a = " + Fam::nm() + "(" +
               (VR ? "x" : "P(10)") + ", bits[" + vf::str(k.i) + "]), b = " + Fam::nm() + "(" + (VR ? (k.vsame ? "x" : "y") : "P(" + vf::str(k.vy) + ")") + ", bits[" + vf::str(k.j) + "])";
    }
    static bool expected(int f)
    {
        if (f <= F_MEM_AA) return true;
        if (f <= F_ADL_AA) return Fam::adl_lv(VR);
        return false;
    }
};
#endif

// =====================================================================================================================
struct Family { const char* name; void (*run)(); };

#if SWAPX_PART == 0
static void fam_single()
{
    run_kind<KSingle<MkClosure, int, true>>(); run_kind<KSingle<MkClosure, int, false>>();
    run_kind<KSingle<MkClosure, double, true>>(); run_kind<KSingle<MkClosure, double, false>>();
    run_kind<KSingle<MkClosure, Counted, true>>(); run_kind<KSingle<MkClosure, Counted, false>>();
    run_kind<KSingle<MkClosure, MoveOnly, true>>();
    run_kind<KSingle<MkProxy, int, true>>(); run_kind<KSingle<MkProxy, int, false>>();
    run_kind<KSingle<MkProxy, Counted, true>>(); run_kind<KSingle<MkProxy, Counted, false>>();
}
static void fam_complex()
{
    run_kind<KComplex<double, true, true>>(); run_kind<KComplex<double, true, false>>(); run_kind<KComplex<double, false, true>>(); run_kind<KComplex<double, false, false>>();
    run_kind<KComplex<int, true, true>>(); run_kind<KComplex<int, true, false>>(); run_kind<KComplex<int, false, true>>(); run_kind<KComplex<int, false, false>>();
}
static void fam_bitref()
{
    run_kind<KBit<uint8_t, false>>(); run_kind<KBit<uint8_t, true>>(); run_kind<KBit<uint64_t, false>>(); run_kind<KBit<uint64_t, true>>();
    run_kind<KBitProxy<uint8_t>>(); run_kind<KBitProxy<uint64_t>>();
}
static void fam_optseq()
{
    run_kind<KSeq<xtl::xoptional_vector<int>>>();
    run_kind<KSeq<xtl::xoptional_vector<Counted>>>();
    run_kind<KSeq<xtl::xoptional_vector<int, std::allocator<int>, xtl::xdynamic_bitset<uint8_t>>>>();
    run_kind<KSeq<xtl::xoptional_array<int, NB>>>();
    run_kind<KSeq<xtl::xoptional_array<double, NB, xtl::xdynamic_bitset<uint8_t>>>>();
}
static const Family families[] = {{"single", fam_single}, {"complex", fam_complex}, {"bitref", fam_bitref}, {"optseq", fam_optseq}};
#elif SWAPX_PART == 1
static void fam_optional() { run_vf<FamOpt>(); }
static const Family families[] = {{"optional", fam_optional}};
#elif SWAPX_PART == 2
static void fam_masked() { run_vf<FamMask>(); }
static const Family families[] = {{"masked_value", fam_masked}};
#else
static void fam_bitflag()
{
    run_kind<KVBit<FamOpt, int, true, uint8_t>>(); run_kind<KVBit<FamOpt, int, false, uint8_t>>();
    run_kind<KVBit<FamOpt, Counted, true, uint8_t>>(); run_kind<KVBit<FamOpt, Counted, false, uint8_t>>();
    run_kind<KVBit<FamOpt, int, true, uint64_t>>(); run_kind<KVBit<FamOpt, int, false, uint64_t>>();
    run_kind<KVBit<FamMask, int, true, uint8_t>>(); run_kind<KVBit<FamMask, int, false, uint8_t>>();
    run_kind<KVBit<FamMask, Counted, true, uint8_t>>(); run_kind<KVBit<FamMask, Counted, false, uint8_t>>();
}
static const Family families[] = {{"bitflag", fam_bitflag}};
#endif

int main(int argc, char** argv)
{
    std::string family;
    bool list = false;
    for (int i = 1; i < argc; ++i)
    {
        std::string a = argv[i];
        if (a == "--list") list = true;
        else if (a == "--family" && i + 1 < argc) family = argv[++i];
        else if (a == "--one" && i + 1 < argc) g_only = argv[++i];
        else if (a == "--deep") g_deep = true;
        else if (a == "--swapx" && i + 1 < argc) ++i;
    }
    if (list)
    {
        for (const Family& f : families) std::printf("%s\n", f.name);
        return 0;
    }
    g_shared = static_cast<char*>(mmap(nullptr, 4096, PROT_READ | PROT_WRITE, MAP_SHARED | MAP_ANONYMOUS, -1, 0));
    g_shared[0] = 0;
    std::fflush(stdout);
    pid_t pid = fork();
    if (pid == 0)
    {
        for (const Family& f : families)
            if (family.empty() || family == f.name) f.run();
        vf::reporter& r = vf::reporter::get();
        r.stats["evaluations"] += g_eval;
        r.stats["distinct_nontrivial"] += g_nontrivial;
        r.stats["swap_spellings_not_offered_by_the_kind"] += g_gaps;
        for (auto& kv : r.stats) std::printf("@@{\"t\":\"stat\",\"k\":\"%s\",\"v\":%lld}\n", vf::jesc(kv.first).c_str(), kv.second);
        for (auto& kv : r.per_sig)
            if (kv.second > 1) std::printf("@@{\"t\":\"note\",\"v\":\"%s occurred %d times\"}\n", vf::jesc(kv.first).c_str(), kv.second);
        std::fflush(stdout);
        _exit(0);
    }
    int st = 0;
    waitpid(pid, &st, 0);
    if (!(WIFEXITED(st) && WEXITSTATUS(st) == 0))
    {
        std::string s = g_shared;
        std::string how = WIFSIGNALED(st) ? "signal-" + vf::str(WTERMSIG(st)) : "abnormal-exit";
        std::string kind = s.substr(0, s.find('|'));
        std::vector<std::string> replay = {"--swapx", vf::str(SWAPX_PART), "--family", family, "--one", s};
        if (g_deep) replay.push_back("--deep");
        vf::violation("C07/swap/" + kind + "/crash/" + how, "the process died (" + how + ") while executing swap scenario " + s + " (kind|configuration|form|applications)", replay);
    }
    vf::done();
    return 0;
}
