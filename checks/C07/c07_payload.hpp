// C07 payload types, shared by the generated static TUs and the dynamic harness.
//   Counted  : copyable + movable, every special member is counted and every object is
//              registered by address (live set), so "a copy of the original was made",
//              "read of / copy from a dead object" and "owned object leaked / destroyed twice"
//              are decided deterministically, without relying on the sanitizer.
//   MoveOnly : movable, not copyable (same registry).
//   int      : plain scalar (only AddressSanitizer can see a dangling reference to it).
#ifndef C07_PAYLOAD_HPP
#define C07_PAYLOAD_HPP

#include <cstddef>
#include <set>
#include <string>
#include <vector>

namespace c07
{
    struct registry
    {
        std::set<const void*> live;
        // events since the last reset
        long copy_ctor = 0, move_ctor = 0, copy_assign = 0, move_assign = 0, value_ctor = 0, dtor = 0;
        // construction (copy or move) whose SOURCE is one of the watched originals
        const void* watch[4] = {nullptr, nullptr, nullptr, nullptr};
        long ctor_from_watched = 0;
        // any use of a watched original as the source of a move / of a copy (construction or assignment)
        long move_from_watched = 0, copy_from_watched = 0;
        // lifetime errors (first one is kept as text)
        long errors = 0;
        std::string first_error;

        static registry& get() { static registry r; return r; }

        void err(const std::string& s)
        {
            if (errors++ == 0) first_error = s;
        }
        bool is_live(const void* p) const { return live.count(p) != 0; }
        void born(const void* p)
        {
            if (!live.insert(p).second) err("construction on an address that already holds a live payload");
        }
        void died(const void* p)
        {
            if (live.erase(p) == 0) err("destruction of a payload that is not alive (double destruction or never constructed)");
        }
        void source(const void* p, const char* what, bool is_move = false, bool is_ctor = true)
        {
            if (!is_live(p)) err(std::string(what) + " from a payload object that is no longer alive (dangling source)");
            for (const void* w : watch)
                if (w != nullptr && w == p)
                {
                    if (is_ctor) ++ctor_from_watched;
                    if (is_move) ++move_from_watched; else ++copy_from_watched;
                }
        }
        void target(const void* p, const char* what)
        {
            if (!is_live(p)) err(std::string(what) + " to a payload object that is no longer alive (dangling target)");
        }
        void reset_events()
        {
            copy_ctor = move_ctor = copy_assign = move_assign = value_ctor = dtor = 0;
            ctor_from_watched = 0;
            move_from_watched = copy_from_watched = 0;
        }
        long special_calls() const { return copy_ctor + move_ctor + copy_assign + move_assign; }
    };

    static const int DEAD = -559038737;   // 0xDEADBEEF, written by destructors
    static const int MOVED = -1;          // left in a moved-from payload

    struct Counted
    {
        int v;
        Counted() : v(0) { registry::get().born(this); ++registry::get().value_ctor; }
        explicit Counted(int a) : v(a) { registry::get().born(this); ++registry::get().value_ctor; }
        Counted(const Counted& o) : v(0)
        {
            registry& r = registry::get();
            r.source(&o, "copy construction", false, true);
            v = o.v;
            r.born(this);
            ++r.copy_ctor;
        }
        Counted(Counted&& o) noexcept : v(0)
        {
            registry& r = registry::get();
            r.source(&o, "move construction", true, true);
            v = o.v;
            o.v = MOVED;
            r.born(this);
            ++r.move_ctor;
        }
        Counted& operator=(const Counted& o)
        {
            registry& r = registry::get();
            r.source(&o, "copy assignment", false, false);
            r.target(this, "copy assignment");
            v = o.v;
            ++r.copy_assign;
            return *this;
        }
        Counted& operator=(Counted&& o) noexcept
        {
            registry& r = registry::get();
            r.source(&o, "move assignment", true, false);
            r.target(this, "move assignment");
            int t = o.v;
            if (&o != this) o.v = MOVED;
            v = t;
            ++r.move_assign;
            return *this;
        }
        ~Counted()
        {
            registry::get().died(this);
            ++registry::get().dtor;
            v = DEAD;
        }
    };
    inline bool operator==(const Counted& a, const Counted& b) { return a.v == b.v; }
    inline bool operator!=(const Counted& a, const Counted& b) { return a.v != b.v; }

    struct MoveOnly
    {
        int v;
        MoveOnly() : v(0) { registry::get().born(this); ++registry::get().value_ctor; }
        explicit MoveOnly(int a) : v(a) { registry::get().born(this); ++registry::get().value_ctor; }
        MoveOnly(const MoveOnly&) = delete;
        MoveOnly& operator=(const MoveOnly&) = delete;
        MoveOnly(MoveOnly&& o) noexcept : v(0)
        {
            registry& r = registry::get();
            r.source(&o, "move construction", true, true);
            v = o.v;
            o.v = MOVED;
            r.born(this);
            ++r.move_ctor;
        }
        MoveOnly& operator=(MoveOnly&& o) noexcept
        {
            registry& r = registry::get();
            r.source(&o, "move assignment", true, false);
            r.target(this, "move assignment");
            int t = o.v;
            if (&o != this) o.v = MOVED;
            v = t;
            ++r.move_assign;
            return *this;
        }
        ~MoveOnly()
        {
            registry::get().died(this);
            ++registry::get().dtor;
            v = DEAD;
        }
    };
    inline bool operator==(const MoveOnly& a, const MoveOnly& b) { return a.v == b.v; }
    inline bool operator!=(const MoveOnly& a, const MoveOnly& b) { return a.v != b.v; }

    // checked read of a payload value: a tracked payload must be alive
    inline int rd(const int& p) { return p; }
    inline int rd(const double& p) { return int(p); }
    inline int rd(const Counted& p)
    {
        if (!registry::get().is_live(&p)) { registry::get().err("read of a payload object that is no longer alive (dangling reference)"); return DEAD; }
        return p.v;
    }
    inline int rd(const MoveOnly& p)
    {
        if (!registry::get().is_live(&p)) { registry::get().err("read of a payload object that is no longer alive (dangling reference)"); return DEAD; }
        return p.v;
    }

    template <class P> struct pname;
    template <> struct pname<int> { static const char* get() { return "int"; } };
    template <> struct pname<Counted> { static const char* get() { return "Counted"; } };
    template <> struct pname<MoveOnly> { static const char* get() { return "MoveOnly"; } };

    template <class P> struct tracked { static const bool value = false; };
    template <> struct tracked<Counted> { static const bool value = true; };
    template <> struct tracked<MoveOnly> { static const bool value = true; };

    // expression factories for unevaluated operands (static part)
    template <class T> T& lv();
    template <class T> const T& clv();
    template <class T> T prv();
    template <class T> T&& xv();
    template <class T> const T&& cxv();
}

#endif
