// C18 run-time part: mpl::static_if.
//
// Enumerated: condition {true,false} x call form {static_if<cond>(tf, ff), static_if(std::integral_constant<bool,cond>(), tf, ff)}
//             x return kind {int by value, int&, const int&, void, std::string by value}
//             x untaken-branch kind {well-formed, ill-formed if it were instantiated}
// Oracle (hand-derived from "static_if computes what if/else computes"): exactly the selected branch runs, exactly once;
// the result (value / identity of the referred object / declared return type) is that branch's result; the branch not taken
// is never instantiated (its body may be ill-formed for the argument it would receive), and the object passed to the branch
// is an identity function (self(x) is x itself).
//
// usage: static_if_harness            run all cases
//        static_if_harness --case N   run only case N (replay)
#include <string>
#include <tuple>
#include <type_traits>

#include "xtl/xmeta_utils.hpp"
#include "report.hpp"

namespace
{
    int g_only = -1;
    int g_case = 0;

    struct counters
    {
        int t = 0;
        int f = 0;
    };

    const char* form_name(int form) { return form == 0 ? "static_if<cond>(tf,ff)" : "static_if(integral_constant,tf,ff)"; }

    bool begin_case(const std::string& desc)
    {
        int id = g_case++;
        if (g_only >= 0 && id != g_only) return false;
        vf::stat("evaluations");
        vf::stat("static_if_cases");
        vf::sample("static_if case " + vf::str(id) + ": " + desc, 2);
        return true;
    }

    void fail(const std::string& ret, bool cond, int form, const std::string& what, const std::string& msg)
    {
        std::string sig = "C18/mpl::static_if/" + std::string(cond ? "true" : "false") + "," + ret + "/" + what;
        vf::violation(sig, std::string(form_name(form)) + " cond=" + (cond ? "true" : "false") + " return kind " + ret + ": " + msg,
                      {"--case", vf::str(g_case - 1)});
    }

    template <bool C, int Form>
    struct caller;

    template <bool C>
    struct caller<C, 0>
    {
        template <class TF, class FF>
        static decltype(auto) call(const TF& tf, const FF& ff) { return xtl::mpl::static_if<C>(tf, ff); }
    };

    template <bool C>
    struct caller<C, 1>
    {
        template <class TF, class FF>
        static decltype(auto) call(const TF& tf, const FF& ff) { return xtl::mpl::static_if(std::integral_constant<bool, C>(), tf, ff); }
    };

    void check_counts(const counters& c, bool cond, int form, const std::string& ret)
    {
        int et = cond ? 1 : 0, ef = cond ? 0 : 1;
        if (c.t != et || c.f != ef)
            fail(ret, cond, form, "wrong-branch", "expected true-branch calls=" + vf::str(et) + " false-branch calls=" + vf::str(ef)
                 + ", observed " + vf::str(c.t) + " / " + vf::str(c.f));
    }

    struct poison  // what the untaken branch would choke on if it were instantiated with xtl::identity
    {
    };

    template <bool C, int Form>
    void run_one()
    {
        const bool cond = C;
        // --- int by value
        if (begin_case(std::string(form_name(Form)) + " cond=" + (C ? "true" : "false") + " returns int by value"))
        {
            counters c;
            auto tf = [&](auto) { c.t++; return 11; };
            auto ff = [&](auto) { c.f++; return 22; };
            static_assert(std::is_same<decltype(caller<C, Form>::call(tf, ff)), int>::value, "static_if value return type");
            int r = caller<C, Form>::call(tf, ff);
            check_counts(c, cond, Form, "value");
            if (r != (cond ? 11 : 22)) fail("value", cond, Form, "wrong-result", "expected " + vf::str(cond ? 11 : 22) + ", observed " + vf::str(r));
        }
        // --- int&
        if (begin_case(std::string(form_name(Form)) + " cond=" + (C ? "true" : "false") + " returns int&"))
        {
            counters c;
            int a = 1, b = 2;
            auto tf = [&](auto) -> int& { c.t++; return a; };
            auto ff = [&](auto) -> int& { c.f++; return b; };
            static_assert(std::is_same<decltype(caller<C, Form>::call(tf, ff)), int&>::value, "static_if must preserve int&");
            int& r = caller<C, Form>::call(tf, ff);
            check_counts(c, cond, Form, "lvalue-ref");
            if (&r != (cond ? &a : &b)) fail("lvalue-ref", cond, Form, "wrong-object", "the returned reference does not refer to the selected branch's object");
        }
        // --- const int&
        if (begin_case(std::string(form_name(Form)) + " cond=" + (C ? "true" : "false") + " returns const int&"))
        {
            counters c;
            const int a = 1, b = 2;
            auto tf = [&](auto) -> const int& { c.t++; return a; };
            auto ff = [&](auto) -> const int& { c.f++; return b; };
            static_assert(std::is_same<decltype(caller<C, Form>::call(tf, ff)), const int&>::value, "static_if must preserve const int&");
            const int& r = caller<C, Form>::call(tf, ff);
            check_counts(c, cond, Form, "const-ref");
            if (&r != (cond ? &a : &b)) fail("const-ref", cond, Form, "wrong-object", "the returned reference does not refer to the selected branch's object");
        }
        // --- void
        if (begin_case(std::string(form_name(Form)) + " cond=" + (C ? "true" : "false") + " returns void"))
        {
            counters c;
            auto tf = [&](auto) { c.t++; };
            auto ff = [&](auto) { c.f++; };
            static_assert(std::is_same<decltype(caller<C, Form>::call(tf, ff)), void>::value, "static_if void return type");
            caller<C, Form>::call(tf, ff);
            check_counts(c, cond, Form, "void");
        }
#ifdef C18_WITH_LAZY
        // --- std::string by value, branches of different return types, untaken branch ill-formed if instantiated,
        //     and self must be an identity function
        if (begin_case(std::string(form_name(Form)) + " cond=" + (C ? "true" : "false")
                       + " taken branch returns std::string via self(x); untaken branch would be ill-formed"))
        {
            counters c;
            std::string s = "payload";
            const std::string* seen = nullptr;
            // the taken branch: uses self as identity on an lvalue and checks it gets the same object back
            auto good_t = [&](auto self) { c.t++; seen = &self(s); return self(s) + "!"; };
            auto good_f = [&](auto self) { c.f++; seen = &self(s); return self(s) + "?"; };
            // the untaken branch: calls a member that does not exist on what self returns for a poison argument
            auto bad_t = [&](auto self) { c.t++; return self(poison()).no_such_member(); };
            auto bad_f = [&](auto self) { c.f++; return self(poison()).no_such_member(); };
            std::string r = xtl::mpl::static_if(std::integral_constant<bool, true>(),
                                                [&](auto) { return std::string(); }, [&](auto) { return 0; });  // differing types are fine
            (void) r;
            std::string out = caller<C, Form>::call(std::get<C ? 0 : 1>(std::tie(good_t, bad_t)), std::get<C ? 1 : 0>(std::tie(good_f, bad_f)));
            check_counts(c, cond, Form, "lazy");
            if (out != (cond ? "payload!" : "payload?")) fail("lazy", cond, Form, "wrong-result", "expected payload" + std::string(cond ? "!" : "?") + ", observed " + out);
            if (seen != &s) fail("lazy", cond, Form, "self-not-identity", "self(x) did not return x itself");
        }
#else
        g_case++;  // keep the case numbering independent of the build flavour
#endif
    }
}

int main(int argc, char** argv)
{
    for (int i = 1; i + 1 < argc; ++i)
        if (std::string(argv[i]) == "--case") g_only = std::atoi(argv[i + 1]);
    run_one<true, 0>();
    run_one<false, 0>();
    run_one<true, 1>();
    run_one<false, 1>();
    if (g_only >= g_case)
    {
        std::printf("no such case\n");
        return 3;
    }
    vf::done();
    return 0;
}
