// C18 run-time part 2: mpl::static_if over the alphabet of FUNCTION OBJECT CLASSES.
//
// Statement: static_if computes exactly what the corresponding operation computes, i.e. static_if<c>(tf, ff) IS
//     c ? tf(identity()) : ff(identity())
// evaluated on the function objects the caller passed.  The first harness (static_if_harness.cpp) only uses closures that
// capture by reference: such an object has no identity of its own (a copy of it behaves exactly like the original), so
// anything static_if does to the OBJECTS it is given - copy them, move them, call a private copy, hand out a reference into
// that copy - is invisible there.  This harness enumerates function objects WITH identity.
//
// Enumerated (full cartesian product of the listed factors; C18O_DEEP = thorough bound):
//   condition {true,false}
//   x call form {0: static_if<c>(tf,ff), 1: static_if(std::integral_constant<bool,c>(),tf,ff), 2: static_if(tag derived from it,tf,ff)}
//   x value category of tf {lvalue, const lvalue, xvalue} x value category of ff {lvalue, const lvalue, xvalue}   (all 9 pairs, always)
//   x function object class:
//       hand-written classes  fn<life, result kind, call-operator kind>
//           life         {copyable, move-only, neither copyable nor movable}
//           result kind  {int by value, const int& to own state, int& to own (mutable) state, int&& to own state,
//                         int& to an object outside, void, const fn& to the function object itself, std::string by value}
//           call op      {const, const&-qualified, a const and a non-const overload}
//         quick: tf, ff of the same life (3) x [const x all 8 result kinds + {const&, two overloads} x {const int& to own state, void}]
//                x forms {0,1} (form 2 for {const} x {const int& to own state}); all 6 mixed-life pairs x {const} x {const int& to own state} x forms {0,1}
//         deep:  same life (3) x all 3 call ops x all 8 result kinds x forms {0,1,2}; all 6 mixed-life pairs x {const} x all 8 result kinds x forms {0,1,2}
//       generic lambdas, by-value capture of a tracked payload (copyable / move-only closure)
//           {const int& to own capture, int& to own capture, int by value, void, int& through an additional reference capture,
//            std::string by value}                      quick: forms {0,1} (form 2 for the first shape); deep: forms {0,1,2}
//       generic lambdas with reference captures only {const int& to the captured object, void}   (forms as above)
//     optional families (ill-formed on a tree whose static_if takes `const TF&`; probed by check.py, compiled in and judged by the
//     same oracle whenever the tree accepts them):
//       classes with a non-const call operator only (tf, ff lvalue or xvalue), classes with a &&-qualified call operator only
//       (tf, ff xvalues), generic lambdas declared mutable {int& to own capture, int by value}
//
// Oracle: the direct expression, written without static_if: the object is picked by tag dispatch on c (pick<c>::of(tf, ff), the
// arguments forwarded with their value categories) and called with xtl::identity().  Every case evaluates
//       A: direct expression     B: static_if     D: direct expression again
// on the SAME two objects and B must be indistinguishable from A (and leave the objects as A left them, seen by D):
//   same declared result type (decltype), same result value, same ADDRESS of a returned reference, the call ran on the same
//   object (`this` of the call), exactly one call of the selected object and none of the other, the hit counter kept inside the
//   selected object advanced by exactly one in B and is seen advanced by D (effects on the object itself are not lost),
//   no copy construction, no move construction, no assignment and no destruction of either object's state during B.
// References are only compared by address, never read through, so a dangling result is detected without undefined behaviour.
// For the classes with both a const and a non-const overload the direct expression on a non-const argument selects the
// non-const one while a static_if taking `const TF&` selects the const one: WHICH overload ran is not judged (both overloads do
// the same and return the same type), everything else is.
//
// usage: static_if_objects            run all cases
//        static_if_objects --case N   run only case N (replay)
#include <cstdio>
#include <cstdlib>
#include <string>
#include <memory>
#include <type_traits>
#include <utility>

#include "xtl/xmeta_utils.hpp"
#include "report.hpp"

#ifndef C18O_FAMILIES
#define C18O_FAMILIES 0x7f  // the required families
#endif
#ifndef C18O_CATS
#define C18O_CATS 0x1ff  // all 9 (category of tf, category of ff) pairs
#endif

namespace
{
    // ------------------------------------------------------------------------------------------------ bookkeeping
    struct role_log
    {
        int copies = 0, moves = 0, assigns = 0, dtors = 0, calls = 0;
        const void* self = nullptr;  // address of the state object the last call ran on
        int hits = 0;                // value of that object's own hit counter after the call
        bool self_bad = false;       // the argument passed to the branch was not an identity function
    };
    role_log g[2];
    void reset_log() { g[0] = role_log(); g[1] = role_log(); }

    enum { copyable = 0, move_only = 1, pinned = 2 };
    const char* life_name(int l) { return l == copyable ? "copyable" : l == move_only ? "move-only" : "neither copyable nor movable"; }

    template <int R, int L>
    struct life_base;
    template <int R>
    struct life_base<R, copyable>
    {
        life_base() {}
        life_base(const life_base&) { g[R].copies++; }
        life_base(life_base&&) { g[R].moves++; }
        life_base& operator=(const life_base&) { g[R].assigns++; return *this; }
        life_base& operator=(life_base&&) { g[R].assigns++; return *this; }
        ~life_base() { g[R].dtors++; }
    };
    template <int R>
    struct life_base<R, move_only>
    {
        life_base() {}
        life_base(const life_base&) = delete;
        life_base(life_base&&) { g[R].moves++; }
        life_base& operator=(const life_base&) = delete;
        life_base& operator=(life_base&&) { g[R].assigns++; return *this; }
        ~life_base() { g[R].dtors++; }
    };
    template <int R>
    struct life_base<R, pinned>
    {
        life_base() {}
        life_base(const life_base&) = delete;
        life_base(life_base&&) = delete;
        life_base& operator=(const life_base&) = delete;
        life_base& operator=(life_base&&) = delete;
        ~life_base() { g[R].dtors++; }
    };

    // the state a function object of role R (0 = tf, 1 = ff) owns
    template <int R, int L>
    struct cap : life_base<R, L>
    {
        mutable int slot;
        mutable int hits = 0;
        explicit cap(int v) : slot(v) {}
        template <class S>
        void touch(S& self) const
        {
            g[R].calls++;
            g[R].self = static_cast<const void*>(this);
            g[R].hits = ++hits;
            int probe = 0;
            if (&self(probe) != &probe) g[R].self_bad = true;
        }
    };

    // ------------------------------------------------------------------------------------------------ result kinds
    enum { r_val = 0, r_cref, r_ref, r_rref, r_ext, r_void, r_self, r_str, N_RET };
    const char* ret_name(int k)
    {
        static const char* n[] = {"int by value", "const int& to its own state", "int& to its own (mutable) state", "int&& to its own state",
                                  "int& to an object outside", "void", "const reference to the function object itself", "std::string by value"};
        return n[k];
    }
    const char* ret_key(int k)
    {
        static const char* n[] = {"value", "own-const-ref", "own-ref", "own-rvalue-ref", "outside-ref", "void", "self-ref", "string"};
        return n[k];
    }
    template <int K> struct ret;
    template <> struct ret<r_val> { template <class F> using type = int; template <class F> static int get(const F& f) { return f.c.slot; } };
    template <> struct ret<r_cref> { template <class F> using type = const int&; template <class F> static const int& get(const F& f) { return f.c.slot; } };
    template <> struct ret<r_ref> { template <class F> using type = int&; template <class F> static int& get(const F& f) { return f.c.slot; } };
    template <> struct ret<r_rref> { template <class F> using type = int&&; template <class F> static int&& get(const F& f) { return std::move(f.c.slot); } };
    template <> struct ret<r_ext> { template <class F> using type = int&; template <class F> static int& get(const F& f) { return *f.ext; } };
    template <> struct ret<r_void> { template <class F> using type = void; template <class F> static void get(const F&) {} };
    template <> struct ret<r_self> { template <class F> using type = const F&; template <class F> static const F& get(const F& f) { return f; } };
    template <> struct ret<r_str> { template <class F> using type = std::string; template <class F> static std::string get(const F& f) { return "s" + vf::str(f.c.slot); } };

    // ------------------------------------------------------------------------------------------------ hand-written classes
    enum { q_const = 0, q_const_lref, q_dual, q_nonconst, q_rref };
    const char* call_name(int q)
    {
        static const char* n[] = {"operator() const", "operator() const&", "operator() const and operator() (two overloads)", "operator() (non-const only)", "operator() && only"};
        return n[q];
    }
    const char* call_key(int q)
    {
        static const char* n[] = {"const", "const-lref", "dual", "nonconst", "rref"};
        return n[q];
    }

    template <int R, int L>
    struct fn_base
    {
        cap<R, L> c;
        int* ext;
        fn_base(int v, int* e) : c(v), ext(e) {}
    };

    template <int Q, int R, int L, int K>
    struct fn;
#define C18O_CALL(QUALS) \
    template <class S> typename ret<K>::template type<fn> operator()(S self) QUALS { this->c.touch(self); return ret<K>::get(*this); }
    template <int R, int L, int K>
    struct fn<q_const, R, L, K> : fn_base<R, L> { using fn_base<R, L>::fn_base; C18O_CALL(const) };
    template <int R, int L, int K>
    struct fn<q_const_lref, R, L, K> : fn_base<R, L> { using fn_base<R, L>::fn_base; C18O_CALL(const&) };
    template <int R, int L, int K>
    struct fn<q_dual, R, L, K> : fn_base<R, L> { using fn_base<R, L>::fn_base; C18O_CALL(const) C18O_CALL() };
    template <int R, int L, int K>
    struct fn<q_nonconst, R, L, K> : fn_base<R, L> { using fn_base<R, L>::fn_base; C18O_CALL() };
    template <int R, int L, int K>
    struct fn<q_rref, R, L, K> : fn_base<R, L> { using fn_base<R, L>::fn_base; C18O_CALL(&&) };
#undef C18O_CALL

    // ------------------------------------------------------------------------------------------------ generic lambdas
    enum { l_cref = 0, l_ref, l_val, l_void, l_ext, l_str, N_LSHAPE, l_refcap_cref = N_LSHAPE, l_refcap_void, l_mut_ref, l_mut_val };
    const char* lshape_name(int s)
    {
        static const char* n[] = {"[c = state](auto) -> const int& to its own capture", "[c = state](auto) -> int& to its own capture (mutable member)",
                                  "[c = state](auto) returning int by value", "[c = state](auto) returning void", "[c = state, &x](auto) -> int& to x",
                                  "[c = state](auto) returning std::string by value", "[&c](auto) -> const int& into the captured object", "[&c](auto) returning void",
                                  "[c = state](auto) mutable -> int& to its own capture", "[c = state](auto) mutable returning int by value"};
        return n[s];
    }
    const char* lshape_key(int s)
    {
        static const char* n[] = {"own-const-ref", "own-ref", "value", "void", "outside-ref", "string", "refcapture-const-ref", "refcapture-void", "mutable-own-ref", "mutable-value"};
        return n[s];
    }
    template <int R>
    cap<R, pinned>& outer_state()
    {
        static cap<R, pinned> o(R == 0 ? 10 : 20);
        return o;
    }
    template <int S> struct lam;
    template <> struct lam<l_cref> { template <int R, int L> static auto make(int v, int*) { return [c = cap<R, L>(v)](auto self) -> const int& { c.touch(self); return c.slot; }; } };
    template <> struct lam<l_ref> { template <int R, int L> static auto make(int v, int*) { return [c = cap<R, L>(v)](auto self) -> int& { c.touch(self); return c.slot; }; } };
    template <> struct lam<l_val> { template <int R, int L> static auto make(int v, int*) { return [c = cap<R, L>(v)](auto self) { c.touch(self); return c.slot + 0; }; } };
    template <> struct lam<l_void> { template <int R, int L> static auto make(int v, int*) { return [c = cap<R, L>(v)](auto self) { c.touch(self); }; } };
    template <> struct lam<l_ext> { template <int R, int L> static auto make(int v, int* e) { return [c = cap<R, L>(v), &x = *e](auto self) -> int& { c.touch(self); return x; }; } };
    template <> struct lam<l_str> { template <int R, int L> static auto make(int v, int*) { return [c = cap<R, L>(v)](auto self) { c.touch(self); return "s" + vf::str(c.slot); }; } };
    template <> struct lam<l_refcap_cref> { template <int R, int L> static auto make(int, int*) { return [&c = outer_state<R>()](auto self) -> const int& { c.touch(self); return c.slot; }; } };
    template <> struct lam<l_refcap_void> { template <int R, int L> static auto make(int, int*) { return [&c = outer_state<R>()](auto self) { c.touch(self); }; } };
    template <> struct lam<l_mut_ref> { template <int R, int L> static auto make(int v, int*) { return [c = cap<R, L>(v)](auto self) mutable -> int& { c.touch(self); return c.slot; }; } };
    template <> struct lam<l_mut_val> { template <int R, int L> static auto make(int v, int*) { return [c = cap<R, L>(v)](auto self) mutable { c.touch(self); return c.slot + 0; }; } };

    // ------------------------------------------------------------------------------------------------ call forms, categories
    const char* form_name(int form)
    {
        return form == 0 ? "static_if<c>(tf, ff)" : form == 1 ? "static_if(std::integral_constant<bool,c>(), tf, ff)" : "static_if(tag, tf, ff) with a tag type derived from std::integral_constant<bool,c>";
    }
    template <bool C> struct derived_tag : std::integral_constant<bool, C> {};

    // the direct expression: c ? tf(identity()) : ff(identity()); the object is selected by tag dispatch, without static_if
    template <bool C> struct pick;
    template <> struct pick<true> { template <class A, class B> static A&& of(A&& a, B&&) { return static_cast<A&&>(a); } };
    template <> struct pick<false> { template <class A, class B> static B&& of(A&&, B&& b) { return static_cast<B&&>(b); } };
    template <bool C, class A, class B>
    decltype(auto) direct(A&& a, B&& b)
    {
        return pick<C>::of(std::forward<A>(a), std::forward<B>(b))(xtl::identity());
    }

    // the three call forms, written out as a caller writes them (A, B: the two arguments with their value categories)
    // (C18O_DIRECT_ONLY: check.py's control build when a family does not compile - the same translation unit with every static_if
    //  call replaced by the direct expression must compile, otherwise the harness itself is at fault)
    template <bool C, int Form> struct form;
#ifdef C18O_DIRECT_ONLY
    template <bool C, int Form> struct form
    {
        template <class A, class B>
        static decltype(auto) call(A&& a, B&& b) { return direct<C>(std::forward<A>(a), std::forward<B>(b)); }
    };
#else
    template <bool C> struct form<C, 0>
    {
        template <class A, class B>
        static decltype(auto) call(A&& a, B&& b) { return xtl::mpl::static_if<C>(std::forward<A>(a), std::forward<B>(b)); }
    };
    template <bool C> struct form<C, 1>
    {
        template <class A, class B>
        static decltype(auto) call(A&& a, B&& b) { return xtl::mpl::static_if(std::integral_constant<bool, C>(), std::forward<A>(a), std::forward<B>(b)); }
    };
    template <bool C> struct form<C, 2>
    {
        template <class A, class B>
        static decltype(auto) call(A&& a, B&& b) { return xtl::mpl::static_if(derived_tag<C>(), std::forward<A>(a), std::forward<B>(b)); }
    };
#endif

    const char* cat_name(int c) { return c == 0 ? "lvalue" : c == 1 ? "const lvalue" : "xvalue (std::move)"; }
    template <int Cat> struct cat;
    template <> struct cat<0> { template <class T> static T& f(T& x) { return x; } };
    template <> struct cat<1> { template <class T> static const T& f(T& x) { return x; } };
    template <> struct cat<2> { template <class T> static T&& f(T& x) { return static_cast<T&&>(x); } };

    // ------------------------------------------------------------------------------------------------ observation
    struct phase
    {
        role_log r[2];
        bool has_addr = false;
        const void* addr = nullptr;
        bool has_val = false;
        char val[48] = {0};  // text of a by-value result
    };
    void snapshot(phase& p) { p.r[0] = g[0]; p.r[1] = g[1]; }
    void to_text(char* out, int v, int) { std::snprintf(out, 48, "%d", v); }
    void to_text(char* out, const std::string& v, int) { std::snprintf(out, 48, "\"%s\"", v.c_str()); }
    template <class T> void to_text(char* out, const T&, long) { out[0] = 0; }
    // `(expr), probe{...}`: for a non-void expr this operator records the result (address of a reference result - never read
    // through - or the value of a by-value result); for a void expr the built-in comma operator is selected and nothing is recorded
    struct probe { phase* p; bool is_ref; };
    template <class T>
    void operator,(T&& v, probe pr)
    {
        if (pr.is_ref) { pr.p->has_addr = true; pr.p->addr = static_cast<const void*>(std::addressof(v)); }
        else { pr.p->has_val = true; to_text(pr.p->val, v, 0); }
    }

    template <class T>
    std::string type_name()
    {
        std::string s = __PRETTY_FUNCTION__;
        size_t a = s.find("T = ");
        if (a == std::string::npos) return s;
        a += 4;
        size_t b = s.find_first_of(";]", a);
        return s.substr(a, b == std::string::npos ? std::string::npos : b - a);
    }

    // ------------------------------------------------------------------------------------------------ judging (not a template)
    struct info
    {
        int family;
        bool lambda;     // generic lambda (shape k, life lt) or hand-written class (call-operator kind q, lives lt/lf, result kind k)
        int q, lt, lf, k;
        bool cond;
        int form, cat_t, cat_f;
    };
    const char* family_key(int f)
    {
        static const char* n[] = {"class:copyable", "class:move-only", "class:pinned", "class:mixed-life", "lambda:copyable", "lambda:move-only", "lambda:reference-capture", "?",
                                  "class:nonconst-call:copyable", "class:nonconst-call:move-only", "class:nonconst-call:pinned",
                                  "class:rvalue-call:copyable", "class:rvalue-call:move-only", "class:rvalue-call:pinned", "lambda:mutable:copyable", "lambda:mutable:move-only"};
        return n[f];
    }
    std::string class_text(const info& i, int role)
    {
        if (i.lambda)
            return std::string("generic lambda ") + lshape_name(i.k) + (i.family == 6 ? std::string() : std::string(", captured state ") + life_name(i.lt));
        return std::string("class, ") + life_name(role == 0 ? i.lt : i.lf) + ", " + call_name(i.q) + ", returns " + ret_name(i.k);
    }

    int g_only = -1;
    int g_case = 0;
    long long g_ran = 0;

    bool begin_case(int family)
    {
        int id = g_case++;
        if (g_only >= 0 && id != g_only) return false;
        g_ran++;
        vf::stat("evaluations");
        vf::stat("static_if_object_cases");
        vf::stat(std::string("static_if_object_cases[") + family_key(family) + "]");
        return true;
    }

    std::string describe(const info& i)
    {
        return std::string(form_name(i.form)) + ", c=" + (i.cond ? "true" : "false") + ", tf = " + cat_name(i.cat_t) + " of {" + class_text(i, 0) + "}, ff = "
               + cat_name(i.cat_f) + " of {" + class_text(i, 1) + "}";
    }

    void harness_bug(const info& i, const std::string& what)
    {
        std::fprintf(stderr, "static_if_objects: the DIRECT expression misbehaves (harness defect), case %d: %s: %s\n", g_case - 1, describe(i).c_str(), what.c_str());
        std::exit(9);
    }

    void fail(const info& i, const char* what, const std::string& msg)
    {
        std::string sig = std::string("C18/mpl::static_if/") + family_key(i.family) + "," + (i.lambda ? lshape_key(i.k) : ret_key(i.k)) + "/" + what;
        vf::violation(sig, "case " + vf::str(g_case - 1) + ": " + describe(i) + ": " + msg, {"--case", vf::str(g_case - 1)});
    }

    std::string ptr(const void* p) { return p ? vf::str(p) : std::string("(none)"); }

    typedef std::string (*namer)();
    void judge(const info& i, const phase& A, const phase& B, const phase& D, bool same_type, namer type_direct, namer type_static_if)
    {
        const int sel = i.cond ? 0 : 1, oth = 1 - sel;
        const char* rn[2] = {"tf", "ff"};
        // the direct expression itself (harness sanity)
        const phase* dd[2] = {&A, &D};
        for (int k = 0; k < 2; ++k)
        {
            const phase& P = *dd[k];
            if (P.r[sel].calls != 1 || P.r[oth].calls != 0) harness_bug(i, "calls");
            for (int r = 0; r < 2; ++r)
                if (P.r[r].copies || P.r[r].moves || P.r[r].assigns || P.r[r].dtors) harness_bug(i, "copies/moves/destructions");
            if (P.r[sel].self_bad) harness_bug(i, "xtl::identity is not an identity");
        }
        if (D.r[sel].self != A.r[sel].self || D.has_addr != A.has_addr || D.has_val != A.has_val || D.addr != A.addr || std::string(D.val) != A.val)
            harness_bug(i, "the direct expression is not repeatable");
        const std::string expr = std::string("the direct expression ") + (i.cond ? "tf" : "ff") + "(identity())";

        if (!same_type)
            fail(i, "wrong-type", "decltype of the static_if call is " + type_static_if() + ", " + expr + " has type " + type_direct());
        if (B.r[sel].calls != 1 || B.r[oth].calls != 0)
            fail(i, "wrong-branch", "expected exactly one call of " + std::string(rn[sel]) + " and none of " + rn[oth] + ", observed tf called " + vf::str(B.r[0].calls)
                 + "x, ff called " + vf::str(B.r[1].calls) + "x");
        for (int r = 0; r < 2; ++r)
        {
            const char* which = r == sel ? "selected" : "unselected";
            if (B.r[r].copies)
                fail(i, r == sel ? "selected-copied" : "unselected-copied", "the " + std::string(which) + " function object " + rn[r] + " was copy-constructed " + vf::str(B.r[r].copies)
                     + "x during the static_if call; " + expr + " copies nothing (expected 0 copies, 0 moves, 0 destructions)");
            if (B.r[r].moves)
                fail(i, r == sel ? "selected-moved" : "unselected-moved", "the " + std::string(which) + " function object " + rn[r] + " was move-constructed " + vf::str(B.r[r].moves)
                     + "x during the static_if call; " + expr + " moves nothing (expected 0 copies, 0 moves, 0 destructions)");
            if (B.r[r].assigns)
                fail(i, "assigned", "the state of " + std::string(rn[r]) + " was assigned " + vf::str(B.r[r].assigns) + "x during the static_if call; expected 0");
            if (B.r[r].dtors && !B.r[r].copies && !B.r[r].moves)
                fail(i, "destroyed", "state of " + std::string(rn[r]) + " was destroyed " + vf::str(B.r[r].dtors) + "x during the static_if call; expected 0");
        }
        if (B.r[sel].calls >= 1)
        {
            if (B.r[sel].self != A.r[sel].self)
                fail(i, "wrong-object", "the call ran on a different object than the one passed: state object at " + ptr(B.r[sel].self) + ", " + expr + " runs on the caller's "
                     + rn[sel] + " (state at " + ptr(A.r[sel].self) + ")");
            if (B.r[sel].self_bad) fail(i, "self-not-identity", "the argument passed to the branch is not an identity function");
        }
        // effects of the call on the object itself: its own hit counter is A -> h, B -> h+1, D -> h+2
        const int h = A.r[sel].hits;
        if (D.r[sel].hits != h + 2)
            fail(i, "effects-lost", "the selected object's own hit counter reads " + vf::str(D.r[sel].hits) + " after {direct, static_if, direct}, expected " + vf::str(h + 2)
                 + " (after the first direct evaluation it was " + vf::str(h) + "): the effect of the call made by static_if on the function object itself is not visible in the caller's object");
        if (A.has_addr != B.has_addr || A.has_val != B.has_val)
        {
            if (same_type) harness_bug(i, "same result type but different result category");
        }
        else if (A.has_addr && B.addr != A.addr)
            fail(i, "wrong-result-object", "the returned reference refers to " + ptr(B.addr) + ", " + expr + " returns a reference to " + ptr(A.addr)
                 + " (the same address on every evaluation)");
        else if (A.has_val && std::string(B.val) != A.val)
            fail(i, "wrong-result", "result " + std::string(B.val) + ", " + expr + " yields " + A.val);
    }

    // ------------------------------------------------------------------------------------------------ one case
    // one evaluation of the direct expression (shared by the three call forms)
    template <bool C, int CT, int CF, class TF, class FF>
    void direct_phase(phase& P, TF& tf, FF& ff)
    {
        using t_direct = decltype(direct<C>(cat<CT>::f(tf), cat<CF>::f(ff)));
        reset_log();
        (direct<C>(cat<CT>::f(tf), cat<CF>::f(ff))), probe{&P, std::is_reference<t_direct>::value};
        snapshot(P);
    }
    template <bool C, int Form, int CT, int CF, class TF, class FF>
    void core(info i, TF& tf, FF& ff)
    {
        i.cond = C; i.form = Form; i.cat_t = CT; i.cat_f = CF;
        using t_direct = decltype(direct<C>(cat<CT>::f(tf), cat<CF>::f(ff)));
        using t_static_if = decltype(form<C, Form>::call(cat<CT>::f(tf), cat<CF>::f(ff)));
        phase P[3];
        direct_phase<C, CT, CF>(P[0], tf, ff);
        reset_log();
        (form<C, Form>::call(cat<CT>::f(tf), cat<CF>::f(ff))), probe{&P[1], std::is_reference<t_static_if>::value};
        snapshot(P[1]);
        direct_phase<C, CT, CF>(P[2], tf, ff);
        judge(i, P[0], P[1], P[2], std::is_same<t_direct, t_static_if>::value, &type_name<t_direct>, &type_name<t_static_if>);
    }

    // Mk: a pair of function object classes.  Mk::run<C,Form,CT,CF>() builds the two objects and runs the case.
    template <int Fam, int Q, int LT, int LF, int K>
    struct mk_class
    {
        static constexpr int family = Fam;
        static constexpr unsigned cats = Q == q_nonconst ? 0x145u /* {lvalue,xvalue}^2: pairs 0,2,6,8 */ : Q == q_rref ? 0x100u /* xvalue,xvalue */ : 0x1ffu;
        struct objects
        {
            int ext0, ext1;
            fn<Q, 0, LT, K> tf;
            fn<Q, 1, LF, K> ff;
            objects() : ext0(1000), ext1(2000), tf(10, &ext0), ff(20, &ext1) {}
        };
        static info base() { return info{Fam, false, Q, LT, LF, K, false, 0, 0, 0}; }
        static void with(void (*f)(info, decltype(objects::tf)&, decltype(objects::ff)&))
        {
            objects o;
            f(base(), o.tf, o.ff);
        }
        template <bool C, int Form, int CT, int CF>
        static void run()
        {
            if (begin_case(Fam)) with(&core<C, Form, CT, CF, decltype(objects::tf), decltype(objects::ff)>);
        }
    };
    template <int Fam, int S, int L>
    struct mk_lambda
    {
        static constexpr int family = Fam;
        static constexpr unsigned cats = (S == l_mut_ref || S == l_mut_val) ? 0x145u : 0x1ffu;
        struct objects
        {
            int ext0, ext1;
            decltype(lam<S>::template make<0, L>(0, nullptr)) tf;
            decltype(lam<S>::template make<1, L>(0, nullptr)) ff;
            objects() : ext0(1000), ext1(2000), tf(lam<S>::template make<0, L>(10, &ext0)), ff(lam<S>::template make<1, L>(20, &ext1)) {}
        };
        static info base() { return info{Fam, true, 0, L, L, S, false, 0, 0, 0}; }
        static void with(void (*f)(info, decltype(objects::tf)&, decltype(objects::ff)&))
        {
            objects o;
            f(base(), o.tf, o.ff);
        }
        template <bool C, int Form, int CT, int CF>
        static void run()
        {
            if (begin_case(Fam)) with(&core<C, Form, CT, CF, decltype(objects::tf), decltype(objects::ff)>);
        }
    };

    // ---- enumeration of condition x form x category pairs for one class pair
    template <class Mk, bool C, int Form, int P, bool On = ((((C18O_CATS) & Mk::cats) >> P) & 1u) != 0>
    struct cat_step { static void run() { Mk::template run<C, Form, P / 3, P % 3>(); } };
    template <class Mk, bool C, int Form, int P>
    struct cat_step<Mk, C, Form, P, false> { static void run() {} };

    template <class Mk, bool C, int Form>
    void all_cats()
    {
        cat_step<Mk, C, Form, 0>::run(); cat_step<Mk, C, Form, 1>::run(); cat_step<Mk, C, Form, 2>::run();
        cat_step<Mk, C, Form, 3>::run(); cat_step<Mk, C, Form, 4>::run(); cat_step<Mk, C, Form, 5>::run();
        cat_step<Mk, C, Form, 6>::run(); cat_step<Mk, C, Form, 7>::run(); cat_step<Mk, C, Form, 8>::run();
    }
    template <class Mk, int Form, bool On>
    struct form_step { static void run() { all_cats<Mk, true, Form>(); all_cats<Mk, false, Form>(); } };
    template <class Mk, int Form>
    struct form_step<Mk, Form, false> { static void run() {} };
    // Forms: bit mask of the call forms to enumerate; C18O_DEEP always enumerates all three
#ifdef C18O_DEEP
#define C18O_FORMS(m) 7
#else
#define C18O_FORMS(m) (m)
#endif
    template <class Mk, int Forms = 3>
    void all_calls()
    {
        form_step<Mk, 0, (C18O_FORMS(Forms) & 1) != 0>::run();
        form_step<Mk, 1, (C18O_FORMS(Forms) & 2) != 0>::run();
        form_step<Mk, 2, (C18O_FORMS(Forms) & 4) != 0>::run();
    }

    template <int Fam, int Q, int LT, int LF>
    void all_rets()
    {
        all_calls<mk_class<Fam, Q, LT, LF, r_val>>(); all_calls<mk_class<Fam, Q, LT, LF, r_cref>, 7>(); all_calls<mk_class<Fam, Q, LT, LF, r_ref>>();
        all_calls<mk_class<Fam, Q, LT, LF, r_rref>>(); all_calls<mk_class<Fam, Q, LT, LF, r_ext>>(); all_calls<mk_class<Fam, Q, LT, LF, r_void>>();
        all_calls<mk_class<Fam, Q, LT, LF, r_self>>(); all_calls<mk_class<Fam, Q, LT, LF, r_str>>();
    }
    template <int Fam, int L>
    void class_family()  // tf and ff of the same life
    {
        all_rets<Fam, q_const, L, L>();
#ifdef C18O_DEEP
        all_rets<Fam, q_const_lref, L, L>(); all_rets<Fam, q_dual, L, L>();
#else
        all_calls<mk_class<Fam, q_const_lref, L, L, r_cref>>(); all_calls<mk_class<Fam, q_const_lref, L, L, r_void>>();
        all_calls<mk_class<Fam, q_dual, L, L, r_cref>>(); all_calls<mk_class<Fam, q_dual, L, L, r_void>>();
#endif
    }
    template <int LT, int LF>
    void mixed_pair()
    {
#ifdef C18O_DEEP
        all_rets<3, q_const, LT, LF>();
#else
        all_calls<mk_class<3, q_const, LT, LF, r_cref>>();
#endif
    }
    template <int Fam, int L>
    void lambda_family()
    {
        all_calls<mk_lambda<Fam, l_cref, L>, 7>(); all_calls<mk_lambda<Fam, l_ref, L>>(); all_calls<mk_lambda<Fam, l_val, L>>();
        all_calls<mk_lambda<Fam, l_void, L>>(); all_calls<mk_lambda<Fam, l_ext, L>>(); all_calls<mk_lambda<Fam, l_str, L>>();
    }

    void family(int f) { g_case = f * 100000; }
}

int main(int argc, char** argv)
{
    for (int i = 1; i + 1 < argc; ++i)
        if (std::string(argv[i]) == "--case") g_only = std::atoi(argv[i + 1]);
    // case ids are family * 100000 + running index inside the family, so they do not depend on which families are compiled in
#if (C18O_FAMILIES) & (1 << 0)
    family(0); class_family<0, copyable>();
#endif
#if (C18O_FAMILIES) & (1 << 1)
    family(1); class_family<1, move_only>();
#endif
#if (C18O_FAMILIES) & (1 << 2)
    family(2); class_family<2, pinned>();
#endif
#if (C18O_FAMILIES) & (1 << 3)
    family(3);
    mixed_pair<copyable, move_only>(); mixed_pair<copyable, pinned>(); mixed_pair<move_only, copyable>();
    mixed_pair<move_only, pinned>(); mixed_pair<pinned, copyable>(); mixed_pair<pinned, move_only>();
#endif
#if (C18O_FAMILIES) & (1 << 4)
    family(4); lambda_family<4, copyable>();
#endif
#if (C18O_FAMILIES) & (1 << 5)
    family(5); lambda_family<5, move_only>();
#endif
#if (C18O_FAMILIES) & (1 << 6)
    family(6); all_calls<mk_lambda<6, l_refcap_cref, pinned>, 7>(); all_calls<mk_lambda<6, l_refcap_void, pinned>>();
#endif
    // ---- optional families: only compiled in when check.py's capability probe found them well-formed on this tree
#if (C18O_FAMILIES) & (1 << 8)
    family(8); all_rets<8, q_nonconst, copyable, copyable>();
#endif
#if (C18O_FAMILIES) & (1 << 9)
    family(9); all_rets<9, q_nonconst, move_only, move_only>();
#endif
#if (C18O_FAMILIES) & (1 << 10)
    family(10); all_rets<10, q_nonconst, pinned, pinned>();
#endif
#if (C18O_FAMILIES) & (1 << 11)
    family(11); all_rets<11, q_rref, copyable, copyable>();
#endif
#if (C18O_FAMILIES) & (1 << 12)
    family(12); all_rets<12, q_rref, move_only, move_only>();
#endif
#if (C18O_FAMILIES) & (1 << 13)
    family(13); all_rets<13, q_rref, pinned, pinned>();
#endif
#if (C18O_FAMILIES) & (1 << 14)
    family(14); all_calls<mk_lambda<14, l_mut_ref, copyable>, 7>(); all_calls<mk_lambda<14, l_mut_val, copyable>>();
#endif
#if (C18O_FAMILIES) & (1 << 15)
    family(15); all_calls<mk_lambda<15, l_mut_ref, move_only>, 7>(); all_calls<mk_lambda<15, l_mut_val, move_only>>();
#endif
    if (g_only >= 0 && g_ran == 0)
    {
        std::printf("no such case\n");
        return 3;
    }
    vf::done();
    return 0;
}
