// C18: helpers shared by every generated translation unit (nothing here comes from xtl).
#ifndef VERIF_C18_PRELUDE_HPP
#define VERIF_C18_PRELUDE_HPP

#include <cstddef>
#include <cstdint>
#include <tuple>
#include <type_traits>
#include <utility>

namespace vfc
{
    // type identity, written out so that a failed assertion names both types in the diagnostic
    template <class Observed, class Expected>
    struct same
    {
        static constexpr bool value = false;
    };

    template <class T>
    struct same<T, T>
    {
        static constexpr bool value = true;
    };

    // a second list template (the xtl algorithms are generic in the list template)
    template <class... T>
    struct tl
    {
    };

    // concatenation of two lists, used only to state the split law
    template <class A, class B>
    struct concat;

    template <template <class...> class L, class... A, template <class...> class M, class... B>
    struct concat<L<A...>, M<B...>>
    {
        using type = M<A..., B...>;
    };

    template <class A, class B>
    using concat_t = typename concat<A, B>::type;

    // transform functions
    template <class... T>
    struct box
    {
    };

    template <class T>
    using ident_t = T;

    // predicates
    template <class T>
    struct is_int : std::is_same<T, int>
    {
    };

    template <class T>
    struct always_true : std::true_type
    {
    };

    template <class T>
    struct always_false : std::false_type
    {
    };

    // conditions that are not std::integral_constant
    struct yes
    {
        static constexpr bool value = true;
    };

    struct no
    {
        static constexpr bool value = false;
    };

    // lazy branches for eval_if
    template <class T>
    struct lazy
    {
        using type = T;
    };

    struct no_type  // has no nested ::type: must never be evaluated
    {
    };

    // distinguishable boolean constants for conjunction / disjunction (selected base)
    template <bool V, int Id>
    struct bc
    {
        static constexpr bool value = V;
        static constexpr int id = Id;
    };

    struct novalue  // has no ::value: must never be inspected (short circuit)
    {
    };

    template <int V>
    struct ic
    {
        static constexpr int value = V;
    };

    struct S
    {
    };

    // position-distinct element types for the long-list family, and predicates on them
    template <int I>
    using e = std::integral_constant<int, I>;

    template <class T>
    struct is_even : std::integral_constant<bool, (T::value % 2 == 0)>
    {
    };

    template <int K>
    struct ge
    {
        template <class T>
        struct apply : std::integral_constant<bool, (T::value >= K)>
        {
        };
    };

    template <class T>
    const char* type_name()
    {
        return __PRETTY_FUNCTION__;
    }
}

#endif
