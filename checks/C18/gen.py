"""C18 case generator: the REFERENCE SEMANTICS live here.

Every case is one static_assert over one instantiation of an xtl metafunction.  The expected
result is computed in this file by ordinary python list operations on lists of type *names*
(strings) and by a small table model of the C++ arithmetic conversions (LP64), never by
looking at xtl.  The compiler is only the executor.

A case is a tuple-like object:
    hdr    which xtl header set the TU needs ('mpl' | 'traits' | 'opt')
    fn     the metafunction judged (signature component 2)
    cls    the input class (signature component 3; coarse on purpose)
    kind   'type'  : obs is a C++ type expression, exps the acceptable type names
           'value' : obs is a C++ integral constant expression, exps = [expected literal]
           'bool'  : obs is a complete boolean constant expression that must be true
    nt     non-trivial by the rule stated in check.py (measured, not assumed)
"""
import itertools

ALPHA = ['int', 'char', 'double', 'void*']
ABSENT = 'float'  # never an element of any generated list

V = 'xtl::mpl::vector'
TL = 'vfc::tl'


class Case(object):
    __slots__ = ('hdr', 'fn', 'cls', 'kind', 'obs', 'exps', 'nt', 'probes')

    def __init__(self, hdr, fn, cls, kind, obs, exps, nt, probes=None):
        self.hdr = hdr
        self.fn = fn
        self.cls = cls
        self.kind = kind
        self.obs = obs
        self.exps = exps
        self.nt = bool(nt)
        self.probes = probes

    def expr(self):
        if self.kind == 'type':
            return ' || '.join('vfc::same<%s, %s>::value' % (self.obs, e) for e in self.exps)
        if self.kind == 'value':
            return '(%s) == (%s)' % (self.obs, self.exps[0])
        return self.obs

    def expected_text(self):
        if self.kind == 'bool':
            return 'true'
        return ' or '.join(self.exps)

    def to_json(self):
        return {'hdr': self.hdr, 'fn': self.fn, 'cls': self.cls, 'kind': self.kind, 'obs': self.obs,
                'exps': list(self.exps), 'probes': self.probes}

    @staticmethod
    def from_json(d):
        return Case(d['hdr'], d['fn'], d['cls'], d['kind'], d['obs'], d['exps'], False, d.get('probes'))


def lst(items, tmpl=V):
    return '%s<%s>' % (tmpl, ', '.join(items))


def lenclass(n):
    return 'empty' if n == 0 else ('len1' if n == 1 else 'len2+')


def all_lists(lo, hi, alpha=ALPHA):
    for n in range(lo, hi + 1):
        for t in itertools.product(alpha, repeat=n):
            yield list(t)


# ---------------------------------------------------------------------------------------------
# reference semantics of the list algorithms: plain python on lists of names
# ---------------------------------------------------------------------------------------------

def ref_unique(l):
    out = []
    for t in l:
        if t not in out:
            out.append(t)
    return out


def ref_index_of(l, v):
    return l.index(v) if v in l else None  # None stands for SIZE_MAX


def ref_find_if(l, pred):
    for i, t in enumerate(l):
        if pred(t):
            return i
    return len(l)


PREDS = [
    ('std::is_integral', lambda t: t in ('int', 'char')),
    ('std::is_pointer', lambda t: t == 'void*'),
    ('std::is_floating_point', lambda t: t == 'double'),
    ('vfc::is_int', lambda t: t == 'int'),
    ('vfc::always_true', lambda t: True),
    ('vfc::always_false', lambda t: False),
]

TRANSFORMS = [
    ('std::add_pointer_t', 'add_pointer', lambda t: t + '*'),
    ('std::add_const_t', 'add_const', lambda t: t + ' const'),
    ('vfc::ident_t', 'identity', lambda t: t),
    ('vfc::box', 'box', lambda t: 'vfc::box<%s>' % t),
]

PUSH_PACKS = [list(p) for n in range(0, 3) for p in itertools.product(ALPHA, repeat=n)]


def gen_list_ops(l, tmpl=V, full=True):
    """All judged single-list metafunctions on list l (python list of names)."""
    n = len(l)
    L = lst(l, tmpl)
    lc = lenclass(n)
    pre = '' if tmpl == V else 'tl,'
    hdr = 'mpl'
    m = 'xtl::mpl::'

    yield Case(hdr, 'mpl::size', pre + lc, 'value', m + 'size<%s>::value' % L, ['%du' % n], n >= 2)
    yield Case(hdr, 'mpl::empty', pre + lc, 'value', m + 'empty<%s>::value' % L, ['true' if n == 0 else 'false'], n >= 2)
    if n >= 1:
        yield Case(hdr, 'mpl::front', pre + lc, 'type', m + 'front_t<%s>' % L, [l[0]], n >= 2)
        bc = ('len%d' % n) if n <= 4 else 'len5+'
        yield Case(hdr, 'mpl::back', pre + bc, 'type', m + 'back_t<%s>' % L, [l[-1]], n >= 2 and l[-1] != l[0])
        yield Case(hdr, 'mpl::pop_front', pre + lc, 'type', m + 'pop_front_t<%s>' % L, [lst(l[1:], tmpl)], n >= 2)
    packs = PUSH_PACKS if full else PUSH_PACKS[:5]
    for p in packs:
        args = ''.join(', ' + t for t in p)
        pc = 'pack%d' % len(p)
        yield Case(hdr, 'mpl::push_front', pre + lc + ',' + pc, 'type', m + 'push_front_t<%s%s>' % (L, args), [lst(p + l, tmpl)],
                   n >= 1 and len(p) >= 1)
        yield Case(hdr, 'mpl::push_back', pre + lc + ',' + pc, 'type', m + 'push_back_t<%s%s>' % (L, args), [lst(l + p, tmpl)],
                   n >= 1 and len(p) >= 1)
    for v in ALPHA + [ABSENT]:
        c = l.count(v)
        yield Case(hdr, 'mpl::count', pre + lc + ',' + ('absent' if c == 0 else 'once' if c == 1 else 'repeated'), 'value',
                   m + 'count<%s, %s>::value' % (L, v), ['%du' % c], n >= 2 and c >= 1)
        yield Case(hdr, 'mpl::contains', pre + lc + ',' + ('present' if c else 'absent'), 'value',
                   m + 'contains<%s, %s>::value' % (L, v), ['true' if c else 'false'], n >= 2 and c >= 1)
        i = ref_index_of(l, v)
        yield Case(hdr, 'mpl::index_of', pre + lc + ',' + ('absent' if i is None else 'first' if i == 0 else 'later'), 'value',
                   m + 'index_of<%s, %s>::value' % (L, v), ['SIZE_MAX' if i is None else '%du' % i], n >= 2 and i not in (None, 0))
    for pname, pf in PREDS:
        c = sum(1 for t in l if pf(t))
        yield Case(hdr, 'mpl::count_if', pre + lc + ',' + ('none' if c == 0 else 'all' if c == n else 'some'), 'value',
                   m + 'count_if<%s, %s>::value' % (L, pname), ['%du' % c], n >= 2 and 0 < c)
        i = ref_find_if(l, pf)
        yield Case(hdr, 'mpl::find_if', pre + lc + ',' + ('none' if i == n else 'first' if i == 0 else 'later'), 'value',
                   m + 'find_if<%s, %s>::value' % (pname, L), ['%du' % i], n >= 2 and i > 0)
    for fname, fshort, ff in TRANSFORMS:
        yield Case(hdr, 'mpl::transform', pre + lc + ',' + fshort, 'type', m + 'transform_t<%s, %s>' % (fname, L),
                   [lst([ff(t) for t in l], tmpl)], n >= 2 and fshort != 'identity')
    if tmpl == V:
        yield Case(hdr, 'mpl::cast', lc + ',to-tl', 'type', m + 'cast_t<%s, vfc::tl>' % L, [lst(l, TL)], n >= 2)
        yield Case(hdr, 'mpl::cast', lc + ',to-tuple', 'type', m + 'cast_t<%s, std::tuple>' % L, [lst(l, 'std::tuple')], n >= 2)
        for k in range(0, n + 1):
            kc = lc + ',' + ('N=0' if k == 0 else 'N=len' if k == n else '0<N<len')
            sp = m + 'split<%d, %s>' % (k, L)
            yield Case(hdr, 'mpl::split::first_type', kc, 'type', 'typename %s::first_type' % sp, [lst(l[:k])], 0 < k < n)
            yield Case(hdr, 'mpl::split::second_type', kc, 'type', 'typename %s::second_type' % sp, [lst(l[k:])], 0 < k < n)
            yield Case(hdr, 'mpl::split::concat', kc, 'type',
                       'vfc::concat_t<typename %s::first_type, typename %s::second_type>' % (sp, sp), [L], 0 < k < n)
    else:
        yield Case(hdr, 'mpl::cast', pre + lc + ',to-vector', 'type', m + 'cast_t<%s, xtl::mpl::vector>' % L, [lst(l, V)], n >= 2)
    u = ref_unique(l)
    yield Case(hdr, 'mpl::unique', pre + lc + ',' + ('nodup' if len(u) == n else 'dup'), 'type', m + 'unique_t<%s>' % L, [lst(u, tmpl)],
               len(u) != n)


def gen_merge_set(maxlen, minmax=0):
    """merge_set on all ordered pairs of lists of length <= maxlen (pairs with both <= minmax are skipped:
    they belong to an earlier stage)."""
    lists = list(all_lists(0, maxlen))
    for a in lists:
        aset = len(ref_unique(a)) == len(a)
        for b in lists:
            if len(a) <= minmax and len(b) <= minmax and minmax > 0:
                continue
            new = [t for t in ref_unique(b) if t not in a]
            rel = 'L2empty' if not b else ('disjoint' if len(new) == len(ref_unique(b)) else 'overlap')
            cls = ('L1set' if aset else 'L1dup') + ',' + rel
            if aset:
                exps = [lst(ref_unique(a + b))]
            else:
                # L1 is not a set: the statement ("first occurrences in order") and the name (merge of *sets*)
                # admit two readings; both are accepted
                exps = [lst(a + new)]
                alt = lst(ref_unique(a + b))
                if alt not in exps:
                    exps.append(alt)
            yield Case('mpl', 'mpl::merge_set', cls, 'type', 'xtl::mpl::merge_set_t<%s, %s>' % (lst(a), lst(b)), exps,
                       bool(new) and bool(a))


CONDS = {
    'std': ('std::true_type', 'std::false_type'),
    'bool_': ('xtl::mpl::bool_<true>', 'xtl::mpl::bool_<false>'),
    'struct': ('vfc::yes', 'vfc::no'),
}


def gen_if_switch():
    m = 'xtl::mpl::'
    others = [lst(['int', 'char']), lst([])]
    for ck, (ct, cf) in sorted(CONDS.items()):
        for val, c in ((True, ct), (False, cf)):
            vc = ('true' if val else 'false') + ',' + ck
            for t in ALPHA + others:
                for f in ALPHA + others:
                    yield Case('mpl', 'mpl::if_', vc, 'type', m + 'if_t<%s, %s, %s>' % (c, t, f), [t if val else f], t != f)
                    # eval_if: both branches evaluable
                    yield Case('mpl', 'mpl::eval_if', vc, 'type', m + 'eval_if_t<%s, vfc::lazy<%s>, vfc::lazy<%s>>' % (c, t, f),
                               [t if val else f], t != f)
                # eval_if: the branch not taken has no ::type and must not be evaluated
                if val:
                    e = m + 'eval_if_t<%s, vfc::lazy<%s>, vfc::no_type>' % (c, t)
                else:
                    e = m + 'eval_if_t<%s, vfc::no_type, vfc::lazy<%s>>' % (c, t)
                yield Case('mpl', 'mpl::eval_if', vc + ',lazy', 'type', e, [t], True)
    # the bool-parameter forms
    for val in (True, False):
        b = 'true' if val else 'false'
        for t in ALPHA + others:
            for f in ALPHA + others:
                yield Case('mpl', 'mpl::if_c', b, 'type', m + 'if_c_t<%s, %s, %s>' % (b, t, f), [t if val else f], t != f)
            e = 'typename ' + m + ('eval_if_c<true, vfc::lazy<%s>, vfc::no_type>::type' if val else 'eval_if_c<false, vfc::no_type, vfc::lazy<%s>>::type') % t
            yield Case('mpl', 'mpl::eval_if_c', b + ',lazy', 'type', e, [t], True)
    # switch_: all condition vectors of length 1..3 followed by default_t
    results = ['int', 'char', 'double']
    for ck, (ct, cf) in sorted(CONDS.items()):
        for n in range(1, 4):
            for vec in itertools.product([False, True], repeat=n):
                args = []
                for i, b in enumerate(vec):
                    args += [ct if b else cf, results[i]]
                args += ['xtl::mpl::default_t', 'void*']
                hit = [i for i, b in enumerate(vec) if b]
                exp = results[hit[0]] if hit else 'void*'
                cls = 'conds%d,%s,%s' % (n, ck, ('hit%d' % hit[0]) if hit else 'default')
                yield Case('mpl', 'mpl::switch_', cls, 'type', m + 'switch_t<%s>' % ', '.join(args), [exp], n >= 2)


# ---------------------------------------------------------------------------------------------
# arithmetic model (LP64: int 32, long 64, long long 64); cross-checked against the compiler's
# own decltype(a + b) for every pair and triple by the 'refcheck' cases
# ---------------------------------------------------------------------------------------------

ARITH = ['bool', 'char', 'signed char', 'unsigned char', 'short', 'unsigned short', 'int', 'unsigned int', 'long',
         'unsigned long', 'long long', 'unsigned long long', 'float', 'double', 'long double']
FP = ['float', 'double', 'long double']
CPLX = ['std::complex<%s>' % f for f in FP]
RANK = {'int': 1, 'unsigned int': 1, 'long': 2, 'unsigned long': 2, 'long long': 3, 'unsigned long long': 3}
SIZE = {'int': 4, 'unsigned int': 4, 'long': 8, 'unsigned long': 8, 'long long': 8, 'unsigned long long': 8}


def int_promote(t):
    return t if t in RANK else 'int'  # bool, the char types and the short types all fit in int


def uac(a, b):
    """usual arithmetic conversions: type of a + b"""
    for f in reversed(FP):
        if a == f or b == f:
            return f
    a, b = int_promote(a), int_promote(b)
    if a == b:
        return a
    ua, ub = a.startswith('unsigned'), b.startswith('unsigned')
    if ua == ub:
        return a if RANK[a] > RANK[b] else b
    u, s = (a, b) if ua else (b, a)
    if RANK[u] >= RANK[s]:
        return u
    if SIZE[s] > SIZE[u]:
        return s
    return 'unsigned ' + s


def common_type(a, b):
    return a if a == b else uac(a, b)


def component(t):
    return t[len('std::complex<'):-1] if t.startswith('std::complex<') else t


def tclass(t):
    if t == 'bool':
        return 'bool'
    if t in FP:
        return 'fp'
    if t.startswith('std::complex<'):
        return 'complex'
    return 'int'


def ref_promote(pack):
    """acceptable results of promote_type_t<pack...> (list of type names)"""
    comps = [component(t) for t in pack]
    has_cx = any(t.startswith('std::complex<') for t in pack)
    rest = list(comps)
    while rest and rest[0] == 'bool':
        rest.pop(0)  # a leading bool is neutral
    if not rest:
        base = ['bool']
    elif len(rest) == 1:
        # one value only: "the type of adding values of those types" can be read as T or as T + T
        # (they differ only for the types narrower than int); both readings are accepted
        base = [rest[0]]
        if uac(rest[0], rest[0]) != rest[0]:
            base.append(uac(rest[0], rest[0]))
    else:
        acc = rest[0]
        for t in rest[1:]:
            acc = uac(acc, t)
        base = [acc]
    if has_cx:
        return ['std::complex<%s>' % b for b in base]
    return base


def gen_refcheck():
    """oracle cross-check, NOT a judgement of xtl: python model == compiler for every pair and triple"""
    yield Case('traits', 'refcheck', 'sizes', 'bool',
               'sizeof(int) == 4 && sizeof(long) == 8 && sizeof(long long) == 8 && sizeof(short) == 2', [], False)
    dv = 'std::declval<%s>()'
    for a in ARITH:
        for b in ARITH:
            yield Case('traits', 'refcheck', 'pair', 'type', 'decltype(%s + %s)' % (dv % a, dv % b), [uac(a, b)], False)
            yield Case('traits', 'refcheck', 'common_type', 'type', 'std::common_type_t<%s, %s>' % (a, b), [common_type(a, b)], False)
            for c in ARITH:
                yield Case('traits', 'refcheck', 'triple', 'type', 'decltype(%s + %s + %s)' % (dv % a, dv % b, dv % c),
                           [uac(uac(a, b), c)], False)


def gen_promote():
    types = ARITH + CPLX
    for n in (1, 2, 3):
        for pack in itertools.product(types, repeat=n):
            pack = list(pack)
            exps = ref_promote(pack)
            # input class: the multiset of argument kinds (one defect in a promotion rule then gives a handful of
            # signatures, not one per argument order); a leading bool is its own class because the rule is positional
            if pack[0] == 'bool' and n > 1:
                cls = 'leading-bool:' + '+'.join(sorted(tclass(t) for t in pack[1:]))
            else:
                cls = '+'.join(sorted(tclass(t) for t in pack))
            nt = n >= 2 and all(e != pack[0] for e in exps)
            yield Case('traits', 'promote_type', cls, 'type', 'xtl::promote_type_t<%s>' % ', '.join(pack), exps, nt)


def gen_logical():
    # conjunction / disjunction on all boolean packs of length 0..4: value and the selected base
    for n in range(0, 5):
        for vec in itertools.product([False, True], repeat=n):
            args = ['vfc::bc<%s, %d>' % ('true' if b else 'false', i) for i, b in enumerate(vec)]
            for fn, stop in (('conjunction', False), ('disjunction', True)):
                inst = 'xtl::%s<%s>' % (fn, ', '.join(args))
                if n == 0:
                    val = not stop
                    yield Case('traits', fn, 'n0', 'bool',
                               '%s::value == %s && std::is_base_of<std::integral_constant<bool, %s>, %s>::value'
                               % (inst, 'true' if val else 'false', 'true' if val else 'false', inst), [], False,
                               [('v', 'value', inst + '::value')])
                    continue
                hits = [i for i, b in enumerate(vec) if b == stop]
                sel = hits[0] if hits else n - 1
                cls = '%s,%s' % ('n1' if n == 1 else 'n2+', ('decided-first' if sel == 0 else 'decided-later') if hits else 'undecided')
                yield Case('traits', fn, cls, 'bool',
                           '%s::value == %s && %s::id == %d && std::is_base_of<%s, %s>::value'
                           % (inst, 'true' if vec[sel] else 'false', inst, sel, args[sel], inst), [], n >= 2,
                           [('v', 'value', inst + '::value'), ('v', 'selected id', inst + '::id')])
                # short circuit: nothing behind the deciding argument is inspected
                if hits and sel < n - 1:
                    sc = args[:sel + 1] + ['vfc::novalue'] * (n - 1 - sel)
                    inst2 = 'xtl::%s<%s>' % (fn, ', '.join(sc))
                    yield Case('traits', fn, cls + ',short-circuit', 'bool',
                               '%s::value == %s && %s::id == %d' % (inst2, 'true' if vec[sel] else 'false', inst2, sel), [], True,
                               [('v', 'value', inst2 + '::value')])
    for arg, val in (('std::true_type', True), ('std::false_type', False), ('vfc::yes', True), ('vfc::no', False),
                     ('vfc::ic<2>', True), ('vfc::ic<0>', False), ('xtl::negation<std::true_type>', False),
                     ('xtl::conjunction<>', True), ('xtl::disjunction<>', False)):
        inst = 'xtl::negation<%s>' % arg
        nv = 'false' if val else 'true'
        yield Case('traits', 'negation', 'true' if val else 'false', 'bool',
                   '%s::value == %s && std::is_base_of<std::integral_constant<bool, %s>, %s>::value' % (inst, nv, nv, inst), [], True,
                   [('v', 'value', inst + '::value')])


def gen_logical_std():
    """C++17 only: lock-step against std::conjunction / std::disjunction / std::negation"""
    for n in range(0, 5):
        for vec in itertools.product([False, True], repeat=n):
            args = ', '.join('vfc::bc<%s, %d>' % ('true' if b else 'false', i) for i, b in enumerate(vec))
            for fn in ('conjunction', 'disjunction'):
                x, s = 'xtl::%s<%s>' % (fn, args), 'std::%s<%s>' % (fn, args)
                e = '%s::value == %s::value' % (x, s)
                if n > 0:
                    e += ' && %s::id == %s::id' % (x, s)
                yield Case('traits', fn, '%s,vs-std' % ('n0' if n == 0 else 'n1' if n == 1 else 'n2+'), 'bool', e, [], n >= 2, [('v', 'xtl value', x + '::value'), ('v', 'std value', s + '::value')])
    for arg in ('std::true_type', 'std::false_type', 'vfc::yes', 'vfc::no', 'vfc::ic<2>', 'vfc::ic<0>'):
        yield Case('traits', 'negation', 'vs-std', 'bool', 'xtl::negation<%s>::value == std::negation<%s>::value' % (arg, arg), [], True)


CVS = [(), ('const',), ('volatile',), ('const', 'volatile')]
REFS = ['', '&', '&&']


def q(base, cvs):
    """type name with postfix qualifiers in canonical order: q('int', {'volatile','const'}) == 'int const volatile'"""
    return base + ''.join(' ' + c for c in ('const', 'volatile') if c in cvs)


def gen_cv():
    # apply_cv<T, U>: U with the cv-qualifiers of remove_reference_t<T> added, as an lvalue reference if T is one
    for tb in ('int', 'vfc::S'):
        for cv in CVS:
            for ref in REFS:
                T = q(tb, cv) + ref
                form = (' '.join(cv) or 'plain') + (ref or ',value')
                for ub, ucv in (('int', ()), ('double*', ()), ('vfc::S', ()), ('int', ('const',))):
                    U = q(ub, ucv)
                    R = q(ub, set(cv) | set(ucv))
                    if ref == '':
                        exps = [R]
                    elif ref == '&':
                        exps = [R + '&']
                    else:
                        # rvalue references: xtl never passes them and the definition does not say; both readings accepted
                        exps = [R, R + '&&']
                    yield Case('traits', 'apply_cv', form, 'type', 'xtl::apply_cv_t<%s, %s>' % (T, U), exps, bool(cv) or bool(ref))
    # constify<T>: const added to the referred-to / pointed-to type, or to T itself
    for tb in ('int', 'vfc::S', 'int*'):
        for cv in CVS:
            for ref in REFS:
                T = q(tb, cv) + ref
                form = (' '.join(cv) or 'plain') + (ref or ',value') + (',pointer-object' if tb == 'int*' else '')
                C = q(tb, set(cv) | {'const'})
                if tb == 'int*' and ref == '' and cv:
                    continue  # cv-qualified pointer objects (int* const): the comment in the header does not define them
                if ref == '&&':
                    exps = [T] if C + '&&' == T else [T, C + '&&']
                elif ref == '&':
                    exps = [C + '&']
                elif tb == 'int*':
                    exps = ['int const*']
                else:
                    exps = [C]
                yield Case('traits', 'constify', form, 'type', 'xtl::constify_t<%s>' % T, exps, True)
    for cv in CVS:
        if cv:
            yield Case('traits', 'constify', ' '.join(cv) + ',pointee', 'type', 'xtl::constify_t<%s*>' % q('int', cv),
                       [q('int', set(cv) | {'const'}) + '*'], True)


OPT_ARGS = [
    ('int', 'int', False), ('double', 'double', False), ('char', 'char', False), ('const double&', 'double', False),
    ('xtl::xoptional<int>', 'int', True), ('xtl::xoptional<double>', 'double', True), ('xtl::xoptional<char>', 'char', True),
    ('const xtl::xoptional<int>&', 'int', True), ('xtl::xoptional<float, char>', 'float', True),
]


def gen_common_optional():
    for n in (1, 2, 3):
        for pack in itertools.product(OPT_ARGS, repeat=n):
            names = [p[0] for p in pack]
            if n == 1:
                if '&' in names[0]:
                    continue  # a lone reference argument is never used by xtl and not defined by the statement
                exp = names[0] if pack[0][2] else 'xtl::xoptional<%s>' % names[0]
            else:
                acc = pack[0][1]
                for p in pack[1:]:
                    acc = common_type(acc, p[1])
                exp = 'xtl::xoptional<%s>' % acc
            cls = 'n%d,%s' % (n, 'some-optional' if any(p[2] for p in pack) else 'no-optional')
            yield Case('opt', 'common_optional', cls, 'type', 'xtl::common_optional_t<%s>' % ', '.join(names), [exp],
                       n >= 2 and len(set(p[1] for p in pack)) >= 2)


# ---------------------------------------------------------------------------------------------
# long lists: EVERY length 0..N with position-distinct element types vfc::e<i> (= std::integral_constant<int, i>),
# plus variants with one repeated element (first/last, first/middle, middle/last), on mpl::vector and on the
# foreign list template vfc::tl.  Reaches what the 4-letter alphabet cannot: implementations that treat a list
# differently from some length on (unrolled "k elements per step" specialisations, 8/16/32/64/128 +- 1).
# The oracle is the same python sequence model as above.
# ---------------------------------------------------------------------------------------------

def E(i):
    return 'vfc::e<%d>' % i


def eidx(t):
    return int(t[len('vfc::e<'):-1])


def long_variants(n):
    """(variant name, list) for length n"""
    d = [E(i) for i in range(n)]
    yield 'distinct', d
    mid = n // 2
    if n >= 2:
        v = list(d)
        v[n - 1] = d[0]
        yield 'dup-first-last', v
    if n >= 3:
        v = list(d)
        v[mid] = d[0]
        yield 'dup-first-mid', v
        v = list(d)
        v[n - 1] = d[mid]
        yield 'dup-mid-last', v


def longclass(n):
    return 'long<9' if n < 9 else 'long9+'


def gen_long_list_ops(l, variant, tmpl=V):
    n = len(l)
    L = lst(l, tmpl)
    pre = ('' if tmpl == V else 'tl,') + longclass(n)
    hdr = 'mpl'
    m = 'xtl::mpl::'
    mid = n // 2
    nt = n >= 2

    yield Case(hdr, 'mpl::size', pre, 'value', m + 'size<%s>::value' % L, ['%du' % n], nt)
    yield Case(hdr, 'mpl::empty', pre, 'value', m + 'empty<%s>::value' % L, ['true' if n == 0 else 'false'], nt)
    if n >= 1:
        yield Case(hdr, 'mpl::front', pre, 'type', m + 'front_t<%s>' % L, [l[0]], nt)
        yield Case(hdr, 'mpl::back', pre, 'type', m + 'back_t<%s>' % L, [l[-1]], nt and l[-1] != l[0])
        yield Case(hdr, 'mpl::pop_front', pre, 'type', m + 'pop_front_t<%s>' % L, [lst(l[1:], tmpl)], nt)
    for p in ([], [E(-2)], [E(-2), E(-3)]):
        args = ''.join(', ' + t for t in p)
        pc = ',pack%d' % len(p)
        yield Case(hdr, 'mpl::push_front', pre + pc, 'type', m + 'push_front_t<%s%s>' % (L, args), [lst(p + l, tmpl)], n >= 1 and bool(p))
        yield Case(hdr, 'mpl::push_back', pre + pc, 'type', m + 'push_back_t<%s%s>' % (L, args), [lst(l + p, tmpl)], n >= 1 and bool(p))
        if p:
            # the multi-step form: an algorithm applied to the result of another one
            yield Case(hdr, 'mpl::back', pre + ',of-push_back', 'type', m + 'back_t<%spush_back_t<%s%s>>' % (m, L, args), [p[-1]], n >= 1)
            yield Case(hdr, 'mpl::front', pre + ',of-push_front', 'type', m + 'front_t<%spush_front_t<%s%s>>' % (m, L, args), [p[0]], n >= 1)
    queries = [E(-1)]
    for i in ([0, mid, n - 1] if n else []):
        if l[i] not in queries:
            queries.append(l[i])
    for v in queries:
        c = l.count(v)
        yield Case(hdr, 'mpl::count', pre + ',' + ('absent' if c == 0 else 'once' if c == 1 else 'repeated'), 'value',
                   m + 'count<%s, %s>::value' % (L, v), ['%du' % c], nt and c >= 1)
        yield Case(hdr, 'mpl::contains', pre + ',' + ('present' if c else 'absent'), 'value',
                   m + 'contains<%s, %s>::value' % (L, v), ['true' if c else 'false'], nt and c >= 1)
        i = ref_index_of(l, v)
        yield Case(hdr, 'mpl::index_of', pre + ',' + ('absent' if i is None else 'first' if i == 0 else 'later'), 'value',
                   m + 'index_of<%s, %s>::value' % (L, v), ['SIZE_MAX' if i is None else '%du' % i], nt and i not in (None, 0))
    preds = [('vfc::always_true', lambda t: True), ('vfc::always_false', lambda t: False),
             ('vfc::is_even', lambda t: eidx(t) % 2 == 0),
             ('vfc::ge<%d>::apply' % (n - 1), lambda t: eidx(t) >= n - 1),
             ('vfc::ge<%d>::apply' % mid, lambda t: eidx(t) >= mid)]
    for pname, pf in preds:
        c = sum(1 for t in l if pf(t))
        yield Case(hdr, 'mpl::count_if', pre + ',' + ('none' if c == 0 else 'all' if c == n else 'some'), 'value',
                   m + 'count_if<%s, %s>::value' % (L, pname), ['%du' % c], nt and c > 0)
        i = ref_find_if(l, pf)
        yield Case(hdr, 'mpl::find_if', pre + ',' + ('none' if i == n else 'first' if i == 0 else 'later'), 'value',
                   m + 'find_if<%s, %s>::value' % (pname, L), ['%du' % i], nt and i > 0)
    yield Case(hdr, 'mpl::transform', pre + ',add_pointer', 'type', m + 'transform_t<std::add_pointer_t, %s>' % L,
               [lst([t + '*' for t in l], tmpl)], nt)
    yield Case(hdr, 'mpl::transform', pre + ',box', 'type', m + 'transform_t<vfc::box, %s>' % L,
               [lst(['vfc::box<%s>' % t for t in l], tmpl)], nt)
    if tmpl == V:
        yield Case(hdr, 'mpl::cast', pre + ',to-tl', 'type', m + 'cast_t<%s, vfc::tl>' % L, [lst(l, TL)], nt)
        yield Case(hdr, 'mpl::cast', pre + ',to-tuple', 'type', m + 'cast_t<%s, std::tuple>' % L, [lst(l, 'std::tuple')], nt)
    else:
        yield Case(hdr, 'mpl::cast', pre + ',to-vector', 'type', m + 'cast_t<%s, xtl::mpl::vector>' % L, [lst(l, V)], nt)
    # split<N>: EVERY N for the distinct list (both templates); for the repeated-element variants every N up to
    # length 40, beyond that N in {0, 1, mid, len-1, len} (the element values do not influence split)
    ks = range(0, n + 1) if (variant == 'distinct' or n <= 40) else sorted(set([0, 1, mid, n - 1, n]))
    for k in ks:
        kc = pre + ',' + ('N=0' if k == 0 else 'N=len' if k == n else '0<N<len')
        sp = m + 'split<%d, %s>' % (k, L)
        if tmpl == V:
            yield Case(hdr, 'mpl::split::first_type', kc, 'type', 'typename %s::first_type' % sp, [lst(l[:k])], 0 < k < n)
            yield Case(hdr, 'mpl::split::second_type', kc, 'type', 'typename %s::second_type' % sp, [lst(l[k:])], 0 < k < n)
        # foreign list template: only the law the statement names (first_type is always an mpl::vector there)
        yield Case(hdr, 'mpl::split::concat', kc, 'type',
                   'vfc::concat_t<typename %s::first_type, typename %s::second_type>' % (sp, sp), [L], 0 < k < n)
    u = ref_unique(l)
    yield Case(hdr, 'mpl::unique', pre + ',' + ('nodup' if len(u) == n else 'dup'), 'type', m + 'unique_t<%s>' % L, [lst(u, tmpl)], len(u) != n)
    # merge_set: L1 = the distinct list of this length (a set), L2 = this list / a half-overlapping / a disjoint one
    if variant == 'distinct':
        others = [('same', l), ('half-overlap', [E(i) for i in range(mid, mid + n)]), ('disjoint', [E(i) for i in range(n, 2 * n)])]
    else:
        others = [('L2dup', None)]
    for oname, o in others:
        a, b = (l, o) if o is not None else ([E(i) for i in range(n)], l)
        yield Case(hdr, 'mpl::merge_set', pre + ',L1set,' + oname, 'type', m + 'merge_set_t<%s, %s>' % (lst(a, tmpl), lst(b, tmpl)),
                   [lst(ref_unique(a + b), tmpl)], nt and oname != 'same')


def stage_long(lo, hi):
    for n in range(lo, hi + 1):
        for tmpl in (V, TL):
            for vname, l in long_variants(n):
                for c in gen_long_list_ops(l, vname, tmpl):
                    yield c


# ---------------------------------------------------------------------------------------------
# stages: what each tier enumerates
# ---------------------------------------------------------------------------------------------

def stage_base():
    """stage 0 (both tiers)"""
    for l in all_lists(0, 4):
        for c in gen_list_ops(l):
            yield c
    for l in all_lists(0, 2):
        for c in gen_list_ops(l, TL):
            yield c
    for c in gen_merge_set(3):
        yield c
    for c in gen_if_switch():
        yield c
    for c in gen_promote():
        yield c
    for c in gen_logical():
        yield c
    for c in gen_cv():
        yield c
    for c in gen_common_optional():
        yield c


def stage_lists(lo, hi):
    for l in all_lists(lo, hi):
        for c in gen_list_ops(l):
            yield c


def stage_tl(lo, hi):
    for l in all_lists(lo, hi):
        for c in gen_list_ops(l, TL):
            yield c


def stage_merge(maxlen, done):
    return gen_merge_set(maxlen, done)
