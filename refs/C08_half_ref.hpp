// Exact integer reference for IEEE 754 binary16 (C08; reusable by C09).
//
// Written from the format definition, not from xtl's half implementation:
//   binary16 = 1 sign bit, 5 exponent bits (bias 15), 10 fraction bits
//   field 0      : value = frac * 2^-24                 (zero / subnormal)
//   field 1..30  : value = (1024 + frac) * 2^(field-25) (normal)
//   field 31     : frac == 0 -> infinity, else NaN (quiet iff bit 9 of frac set)
//
// Everything funnels through ONE rounding routine, round_mag(): it takes an exact non-negative
// magnitude  mag * 2^e2 (+ "sticky": a non-zero amount < 1 unit of mag that was discarded) and rounds
// it once, to nearest, ties to even, with gradual underflow and overflow to infinity.
// The arithmetic references compute the exact real result as an integer (fixed point or
// significand * 2^e) and call round_mag once. No floating-point arithmetic is used to decide a result
// (double is used only for an initial integer square root estimate, which is then corrected with
// integer arithmetic, and in the *_via_double second opinions at the end).
//
// NaN: every function returns the canonical quiet NaN 0x7E00 when the IEEE result is a NaN; callers
// compare NaN results as "is a NaN" (payload and sign of NaN results are not specified here).
#ifndef VERIF_C08_HALF_REF_HPP
#define VERIF_C08_HALF_REF_HPP

#include <cmath>
#include <cstdint>
#include <cstring>

namespace href
{
    typedef unsigned __int128 u128;
    typedef __int128 i128;

    enum cls_t { C_ZERO = 0, C_SUB = 1, C_NORM = 2, C_INF = 3, C_QNAN = 4, C_SNAN = 5 };

    const uint16_t NAN16 = 0x7E00;

    inline bool is_nan16(uint16_t h) { return (h & 0x7FFF) > 0x7C00; }
    inline bool is_inf16(uint16_t h) { return (h & 0x7FFF) == 0x7C00; }
    inline bool is_zero16(uint16_t h) { return (h & 0x7FFF) == 0; }
    inline uint16_t canon16(uint16_t h) { return is_nan16(h) ? NAN16 : h; }

    // decoded half: value = (-1)^neg * m * 2^e for finite classes
    struct dec
    {
        uint8_t neg;
        uint8_t cls;
        uint16_t m;
        int32_t e;
    };

    inline dec decode(uint16_t h)
    {
        dec d;
        d.neg = uint8_t(h >> 15);
        unsigned field = (h >> 10) & 31u, frac = h & 0x3FFu;
        if (field == 31) { d.cls = uint8_t(frac == 0 ? C_INF : ((frac & 0x200u) ? C_QNAN : C_SNAN)); d.m = 0; d.e = 0; }
        else if (field == 0) { d.cls = uint8_t(frac ? C_SUB : C_ZERO); d.m = uint16_t(frac); d.e = -24; }
        else { d.cls = C_NORM; d.m = uint16_t(frac | 0x400u); d.e = int(field) - 25; }
        return d;
    }
    inline bool d_nan(const dec& d) { return d.cls >= C_QNAN; }
    inline bool d_inf(const dec& d) { return d.cls == C_INF; }
    inline bool d_zero(const dec& d) { return d.cls == C_ZERO; }

    // what the single rounding did (filled only when requested)
    struct rinfo
    {
        bool exact_zero = false;   // exact result is zero
        bool inexact = false;      // exact result is not a binary16 value
        bool tie = false;          // exact result lies exactly half way between two binary16 values
        bool up = false;           // magnitude was rounded up
        bool res_sub = false;      // rounded result is zero/subnormal range (|r| < 2^-14)
        bool overflow = false;     // rounded result is infinity
        bool near_overflow = false;// infinity reached although |exact| < 2^16 (carry out of 65504)
        bool special = false;      // NaN/infinity/invalid/pole rule decided, no rounding
    };

    inline int msb64(uint64_t v) { return 63 - __builtin_clzll(v); }
    inline int msb_of(uint64_t v) { return msb64(v); }
    inline int msb_of(u128 v)
    {
        uint64_t hi = uint64_t(v >> 64);
        return hi ? 64 + msb64(hi) : msb64(uint64_t(v));
    }

    // round (mag + sticky_fraction) * 2^e2 to binary16, nearest-even. mag must use fewer bits than U has.
    template <class U>
    inline uint16_t round_mag(bool neg, U mag, int e2, bool sticky, rinfo* ri = nullptr)
    {
        const uint16_t s = neg ? 0x8000 : 0;
        if (mag == 0)
        {
            if (ri) { ri->exact_zero = !sticky; ri->inexact = sticky; ri->res_sub = true; }
            return s;
        }
        const int p = msb_of(mag);          // 2^p <= mag < 2^(p+1)
        const int ex = p + e2;              // floor(log2(value))
        int q = ex - 10;                    // exponent of one unit in the last place of the result
        if (q < -24) q = -24;               // gradual underflow: spacing never below 2^-24
        const int sh = q - e2;              // bits of mag below the last place
        U n;
        bool inexact, up = false, tie = false;
        if (sh <= 0)
        {
            n = mag << (-sh);               // exact; a sticky remainder lies below the last place: round down
            inexact = sticky;
        }
        else if (sh > p + 1)
        {
            n = 0;                          // value < half a unit in the last place
            inexact = true;
        }
        else
        {
            n = (sh > p) ? U(0) : U(mag >> sh);
            const U rem = mag & ((U(1) << sh) - 1);
            const U half = U(1) << (sh - 1);
            inexact = (rem != 0) || sticky;
            if (rem > half || (rem == half && sticky)) up = true;
            else if (rem == half) { tie = true; up = (n & 1) != 0; }
        }
        unsigned nn = unsigned(n) + (up ? 1u : 0u);
        if (nn == 2048u) { nn = 1024u; ++q; }
        if (ri) { ri->inexact = inexact; ri->tie = tie; ri->up = up; }
        if (nn < 1024u)
        {
            if (ri) ri->res_sub = true;
            return uint16_t(s | nn);        // zero or subnormal (q == -24 here)
        }
        const int field = q + 25;
        if (field >= 31)
        {
            if (ri) { ri->overflow = true; ri->near_overflow = (ex < 16); }
            return uint16_t(s | 0x7C00);
        }
        return uint16_t(s | (unsigned(field) << 10) | (nn - 1024u));
    }

    // ---------------------------------------------------------------- conversions to half

    inline uint16_t from_f32_bits(uint32_t fb, rinfo* ri = nullptr)
    {
        const bool neg = (fb >> 31) != 0;
        const unsigned field = (fb >> 23) & 0xFFu;
        const uint32_t frac = fb & 0x7FFFFFu;
        if (field == 255)
        {
            if (ri) ri->special = true;
            return frac ? NAN16 : uint16_t((neg ? 0x8000 : 0) | 0x7C00);
        }
        const uint64_t m = field ? (frac | 0x800000u) : frac;
        const int e = int(field ? field : 1u) - 150;
        return round_mag<uint64_t>(neg, m, e, false, ri);
    }

    inline uint16_t from_f64_bits(uint64_t db, rinfo* ri = nullptr)
    {
        const bool neg = (db >> 63) != 0;
        const unsigned field = unsigned(db >> 52) & 0x7FFu;
        const uint64_t frac = db & 0xFFFFFFFFFFFFFull;
        if (field == 2047)
        {
            if (ri) ri->special = true;
            return frac ? NAN16 : uint16_t((neg ? 0x8000 : 0) | 0x7C00);
        }
        const uint64_t m = field ? (frac | (1ull << 52)) : frac;
        const int e = int(field ? field : 1u) - 1075;
        return round_mag<uint64_t>(neg, m, e, false, ri);
    }
    inline uint16_t from_double(double d, rinfo* ri = nullptr)
    {
        uint64_t b;
        std::memcpy(&b, &d, 8);
        return from_f64_bits(b, ri);
    }

    // exact integer n -> half (single rounding)
    inline uint16_t from_int(long long v, rinfo* ri = nullptr)
    {
        const bool neg = v < 0;
        const uint64_t mag = neg ? (0 - uint64_t(v)) : uint64_t(v);
        return round_mag<uint64_t>(neg, mag, 0, false, ri);
    }

    // ---------------------------------------------------------------- conversions from half (exact)

    // binary32 bit pattern of the half's value; NaN -> quiet NaN with the payload moved up
    inline uint32_t to_f32_bits(uint16_t h)
    {
        const dec d = decode(h);
        const uint32_t s = uint32_t(d.neg) << 31;
        switch (d.cls)
        {
        case C_ZERO: return s;
        case C_INF: return s | 0x7F800000u;
        case C_QNAN:
        case C_SNAN: return s | 0x7FC00000u | (uint32_t(h & 0x3FFu) << 13);
        default: break;
        }
        const int p = msb64(d.m);                      // value = m * 2^e, 2^(p+e) <= value
        const uint32_t field = uint32_t(p + d.e + 127);   // always a normal float
        const uint32_t frac = (uint32_t(d.m) << (23 - p)) & 0x7FFFFFu;
        return s | (field << 23) | frac;
    }
    inline float to_float(uint16_t h)
    {
        const uint32_t b = to_f32_bits(h);
        float f;
        std::memcpy(&f, &b, 4);
        return f;
    }
    inline uint64_t to_f64_bits(uint16_t h)
    {
        const dec d = decode(h);
        const uint64_t s = uint64_t(d.neg) << 63;
        switch (d.cls)
        {
        case C_ZERO: return s;
        case C_INF: return s | 0x7FF0000000000000ull;
        case C_QNAN:
        case C_SNAN: return s | 0x7FF8000000000000ull | (uint64_t(h & 0x3FFu) << 42);
        default: break;
        }
        const int p = msb64(d.m);
        const uint64_t field = uint64_t(p + d.e + 1023);
        const uint64_t frac = (uint64_t(d.m) << (52 - p)) & 0xFFFFFFFFFFFFFull;
        return s | (field << 52) | frac;
    }
    inline double to_double(uint16_t h)
    {
        const uint64_t b = to_f64_bits(h);
        double f;
        std::memcpy(&f, &b, 8);
        return f;
    }
    // the same value built a second way (ldexp on the integer significand); used to cross-check to_float/to_double
    inline double to_double_ldexp(uint16_t h)
    {
        const dec d = decode(h);
        if (d_nan(d)) return std::nan("");
        if (d_inf(d)) return d.neg ? -HUGE_VAL : HUGE_VAL;
        const double v = std::ldexp(double(d.m), d.e);
        return d.neg ? -v : v;
    }

    // ---------------------------------------------------------------- arithmetic (exact result, rounded once)

    inline uint16_t add(const dec& a, const dec& b, rinfo* ri = nullptr)
    {
        if (d_nan(a) || d_nan(b)) { if (ri) ri->special = true; return NAN16; }
        if (d_inf(a) || d_inf(b))
        {
            if (ri) ri->special = true;
            if (d_inf(a) && d_inf(b) && a.neg != b.neg) return NAN16;     // inf - inf
            const bool neg = d_inf(a) ? a.neg : b.neg;
            return uint16_t((neg ? 0x8000 : 0) | 0x7C00);
        }
        // fixed point, unit 2^-24: |v| < 2^11 * 2^29 = 2^40
        int64_t va = int64_t(a.m) << (a.e + 24), vb = int64_t(b.m) << (b.e + 24);
        if (a.neg) va = -va;
        if (b.neg) vb = -vb;
        const int64_t sum = va + vb;
        if (sum == 0)
        {
            // exact zero sum: +0 in round-to-nearest, except (-0) + (-0) = -0  (x + x with x = -0)
            if (ri) { ri->exact_zero = true; ri->res_sub = true; }
            return (a.neg && b.neg) ? 0x8000 : 0x0000;
        }
        return round_mag<uint64_t>(sum < 0, uint64_t(sum < 0 ? -sum : sum), -24, false, ri);
    }
    inline dec negate(dec d) { d.neg = uint8_t(!d.neg); return d; }
    inline uint16_t sub(const dec& a, const dec& b, rinfo* ri = nullptr) { return add(a, negate(b), ri); }

    inline uint16_t mul(const dec& a, const dec& b, rinfo* ri = nullptr)
    {
        if (d_nan(a) || d_nan(b)) { if (ri) ri->special = true; return NAN16; }
        const bool neg = a.neg != b.neg;
        const uint16_t s = neg ? 0x8000 : 0;
        if (d_inf(a) || d_inf(b))
        {
            if (ri) ri->special = true;
            if (d_zero(a) || d_zero(b)) return NAN16;                     // 0 * inf
            return uint16_t(s | 0x7C00);
        }
        if (d_zero(a) || d_zero(b)) { if (ri) { ri->exact_zero = true; ri->res_sub = true; } return s; }
        return round_mag<uint64_t>(neg, uint64_t(a.m) * uint64_t(b.m), a.e + b.e, false, ri);
    }

    inline uint16_t div(const dec& a, const dec& b, rinfo* ri = nullptr)
    {
        if (d_nan(a) || d_nan(b)) { if (ri) ri->special = true; return NAN16; }
        const bool neg = a.neg != b.neg;
        const uint16_t s = neg ? 0x8000 : 0;
        if (d_inf(a)) { if (ri) ri->special = true; return d_inf(b) ? NAN16 : uint16_t(s | 0x7C00); }   // inf/inf invalid
        if (d_inf(b)) { if (ri) { ri->special = true; } return s; }                                      // finite/inf = 0
        if (d_zero(b)) { if (ri) ri->special = true; return d_zero(a) ? NAN16 : uint16_t(s | 0x7C00); }  // 0/0 invalid, x/0 pole
        if (d_zero(a)) { if (ri) { ri->exact_zero = true; ri->res_sub = true; } return s; }
        // a.m / b.m with 30 extra quotient bits (quotient >= 2^30/2047 > 2^19: more than 11+2 bits) and a sticky remainder
        const uint64_t num = uint64_t(a.m) << 30;
        const uint64_t quo = num / b.m, rem = num % b.m;
        return round_mag<uint64_t>(neg, quo, a.e - b.e - 30, rem != 0, ri);
    }

    inline uint16_t fma(const dec& a, const dec& b, const dec& c, rinfo* ri = nullptr)
    {
        if (d_nan(a) || d_nan(b) || d_nan(c)) { if (ri) ri->special = true; return NAN16; }
        const bool pneg = a.neg != b.neg;
        if (d_inf(a) || d_inf(b))
        {
            if (ri) ri->special = true;
            if (d_zero(a) || d_zero(b)) return NAN16;                     // 0 * inf
            if (d_inf(c) && c.neg != pneg) return NAN16;                  // inf - inf
            return uint16_t((pneg ? 0x8000 : 0) | 0x7C00);
        }
        if (d_inf(c)) { if (ri) ri->special = true; return uint16_t((c.neg ? 0x8000 : 0) | 0x7C00); }
        // fixed point, unit 2^-48: |a*b| < 2^22 * 2^58 = 2^80, |c| < 2^11 * 2^53 = 2^64
        i128 P = i128(uint64_t(a.m) * uint64_t(b.m)) << (a.e + b.e + 48);
        i128 Z = i128(c.m) << (c.e + 48);
        const bool pzero = (P == 0);
        if (pneg) P = -P;
        if (c.neg) Z = -Z;
        const i128 sum = P + Z;
        if (sum == 0)
        {
            if (ri) { ri->exact_zero = true; ri->res_sub = true; }
            // (+-0 * y) + (+-0): like-signed zeros keep the sign; every other exact zero is +0
            return (pzero && pneg && c.neg) ? 0x8000 : 0x0000;
        }
        return round_mag<u128>(sum < 0, u128(sum < 0 ? -sum : sum), -48, false, ri);
    }

    inline uint64_t isqrt64(uint64_t v)   // floor(sqrt(v)), v < 2^53
    {
        uint64_t r = uint64_t(std::sqrt(double(v)));
        while (r * r > v) --r;
        while ((r + 1) * (r + 1) <= v) ++r;
        return r;
    }

    inline uint16_t sqrt(const dec& a, rinfo* ri = nullptr)
    {
        if (d_nan(a)) { if (ri) ri->special = true; return NAN16; }
        if (d_zero(a)) { if (ri) { ri->exact_zero = true; ri->res_sub = true; } return a.neg ? 0x8000 : 0x0000; }   // sqrt(-0) = -0
        if (a.neg) { if (ri) ri->special = true; return NAN16; }
        if (d_inf(a)) { if (ri) ri->special = true; return 0x7C00; }
        uint64_t m = a.m;
        int e = a.e;
        if (e & 1) { m <<= 1; e -= 1; }     // make the exponent even
        m <<= 40;                           // 20 more result bits
        e -= 40;
        const uint64_t r = isqrt64(m);
        return round_mag<uint64_t>(false, r, e / 2, r * r != m, ri);
    }

    // ---------------------------------------------------------------- comparisons / classification by definition

    // -1, 0, +1, or 2 for unordered. Compares the exact values as integers in units of 2^-24.
    inline int compare(const dec& a, const dec& b)
    {
        if (d_nan(a) || d_nan(b)) return 2;
        auto key = [](const dec& d) -> int64_t {
            int64_t v = d_inf(d) ? (int64_t(1) << 50) : (int64_t(d.m) << (d.e + 24));
            return d.neg ? -v : v;
        };
        const int64_t x = key(a), y = key(b);
        return x < y ? -1 : (x > y ? 1 : 0);
    }

    // ---------------------------------------------------------------- second opinions (cross-checks of this file)
    // + - * of two halves are exact in double (<= 51 significant bits); / and sqrt are correctly rounded to 53 bits
    // and 53 >= 2*11+2, so rounding the double result once more to binary16 is the correctly rounded result.
    inline uint16_t add_via_double(uint16_t a, uint16_t b) { return from_double(to_double(a) + to_double(b)); }
    inline uint16_t sub_via_double(uint16_t a, uint16_t b) { return from_double(to_double(a) - to_double(b)); }
    inline uint16_t mul_via_double(uint16_t a, uint16_t b) { return from_double(to_double(a) * to_double(b)); }
    inline uint16_t div_via_double(uint16_t a, uint16_t b) { return from_double(to_double(a) / to_double(b)); }
    inline uint16_t sqrt_via_double(uint16_t a) { return from_double(std::sqrt(to_double(a))); }
}

#endif
