// Independent reference for property C14: MurmurHash2 (32 bit) and MurmurHash64A (64 bit), Austin Appleby, public domain.
//
// Written from the algorithm description, NOT from xtl/xhash.hpp:
//   * the key is consumed through an explicit byte-wise little-endian assembler (le()), never through a word load,
//     a memcpy or a fall-through switch, so alignment, aliasing and over-read questions cannot arise here;
//   * the key is passed as a std::vector<uint8_t>/pointer+length owned by the caller (a private copy, never the buffer
//     handed to the code under test).
// The harness cross-checks both functions against the published SMHasher verification values
// (MurmurHash2: 0x27864C1E, MurmurHash64A: 0x1F0D3804) before it judges anything.
#ifndef VERIF_C14_MURMUR_REF_HPP
#define VERIF_C14_MURMUR_REF_HPP

#include <cstddef>
#include <cstdint>

namespace c14ref
{
    // little-endian value of the n (0..8) bytes starting at p
    inline uint64_t le(const uint8_t* p, std::size_t n)
    {
        uint64_t v = 0;
        for (std::size_t i = 0; i < n; ++i) v |= uint64_t(p[i]) << (8 * i);
        return v;
    }

    // MurmurHash2, 32-bit result, 4-byte blocks
    inline uint32_t murmur2_32(const uint8_t* key, std::size_t len, uint32_t seed)
    {
        const uint32_t M = 0x5bd1e995u;
        const std::size_t nblocks = len / 4, rem = len % 4;
        uint32_t h = seed ^ uint32_t(len);
        for (std::size_t b = 0; b < nblocks; ++b)
        {
            uint32_t k = uint32_t(le(key + 4 * b, 4));
            k *= M;
            k ^= k >> 24;
            k *= M;
            h *= M;
            h ^= k;
        }
        if (rem != 0)
        {
            h ^= uint32_t(le(key + 4 * nblocks, rem));
            h *= M;
        }
        h ^= h >> 13;
        h *= M;
        h ^= h >> 15;
        return h;
    }

    // MurmurHash64A, 64-bit result, 8-byte blocks
    inline uint64_t murmur2_64a(const uint8_t* key, std::size_t len, uint64_t seed)
    {
        const uint64_t M = 0xc6a4a7935bd1e995ull;
        const std::size_t nblocks = len / 8, rem = len % 8;
        uint64_t h = seed ^ (uint64_t(len) * M);
        for (std::size_t b = 0; b < nblocks; ++b)
        {
            uint64_t k = le(key + 8 * b, 8);
            k *= M;
            k ^= k >> 47;
            k *= M;
            h ^= k;
            h *= M;
        }
        if (rem != 0)
        {
            h ^= le(key + 8 * nblocks, rem);
            h *= M;
        }
        h ^= h >> 47;
        h *= M;
        h ^= h >> 47;
        return h;
    }

    // SMHasher "verification value" of a hash with `bytes`-byte results: keys {0}, {0,1}, ... of length 0..255 with seed 256-len,
    // results stored little-endian, the concatenation hashed with seed 0, first four result bytes read little-endian.
    template <class F>
    inline uint32_t smhasher_verification(F f, std::size_t bytes)
    {
        uint8_t key[256];
        uint8_t out[256 * 8];
        for (std::size_t i = 0; i < 256; ++i)
        {
            key[i] = uint8_t(i);
            uint64_t h = f(key, i, uint64_t(256 - i));
            for (std::size_t j = 0; j < bytes; ++j) out[i * bytes + j] = uint8_t(h >> (8 * j));
        }
        uint64_t fin = f(out, 256 * bytes, 0);
        return uint32_t(fin & 0xffffffffu);
    }
}

#endif
