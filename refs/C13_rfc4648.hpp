// Independent reference for property C13, written from the text of RFC 4648 (sections 3.2, 4 and 10), NOT from
// xtl/xbase64.hpp.  Deliberately a different formulation from the code under test:
//   * no 64-character string literal and no lookup table: the alphabet (RFC 4648 table 1) is given by range arithmetic;
//   * encode works on 24-bit input groups / explicit tail cases (section 4), not on a running bit accumulator;
//   * the "specification decode" is bit-serial (an 8-bit shift register fed one bit at a time), no shift-count arithmetic.
// Everything is done on unsigned char; nothing here depends on the signedness of plain char.
#ifndef VERIF_REFS_C13_RFC4648_HPP
#define VERIF_REFS_C13_RFC4648_HPP

#include <cstddef>
#include <string>
#include <vector>

namespace ref4648
{
    typedef std::vector<unsigned char> bytes;

    // RFC 4648 table 1: value -> character
    inline unsigned char char_of(unsigned v)
    {
        if (v < 26) return static_cast<unsigned char>('A' + v);
        if (v < 52) return static_cast<unsigned char>('a' + (v - 26));
        if (v < 62) return static_cast<unsigned char>('0' + (v - 52));
        return v == 62 ? '+' : '/';
    }

    // character -> value, -1 for every byte that is not one of the 64 alphabet characters ('=' included)
    inline int value_of(unsigned char c)
    {
        if (c >= 'A' && c <= 'Z') return c - 'A';
        if (c >= 'a' && c <= 'z') return 26 + (c - 'a');
        if (c >= '0' && c <= '9') return 52 + (c - '0');
        if (c == '+') return 62;
        if (c == '/') return 63;
        return -1;
    }

    // RFC 4648 section 4: standard alphabet, '=' padding, no line feeds
    inline void encode(const bytes& in, bytes& out)
    {
        out.clear();
        out.reserve(4 * ((in.size() + 2) / 3));
        std::size_t n = in.size(), i = 0;
        for (; i + 3 <= n; i += 3)
        {
            unsigned b0 = in[i], b1 = in[i + 1], b2 = in[i + 2];
            out.push_back(char_of(b0 >> 2));
            out.push_back(char_of(((b0 & 3u) << 4) | (b1 >> 4)));
            out.push_back(char_of(((b1 & 15u) << 2) | (b2 >> 6)));
            out.push_back(char_of(b2 & 63u));
        }
        if (n - i == 1)
        {
            unsigned b0 = in[i];
            out.push_back(char_of(b0 >> 2));
            out.push_back(char_of((b0 & 3u) << 4));
            out.push_back('=');
            out.push_back('=');
        }
        else if (n - i == 2)
        {
            unsigned b0 = in[i], b1 = in[i + 1];
            out.push_back(char_of(b0 >> 2));
            out.push_back(char_of(((b0 & 3u) << 4) | (b1 >> 4)));
            out.push_back(char_of((b1 & 15u) << 2));
            out.push_back('=');
        }
    }
    inline bytes encode(const bytes& in) { bytes out; encode(in, out); return out; }

    // length of the longest leading run of alphabet characters
    inline std::size_t leading_run(const bytes& in)
    {
        std::size_t k = 0;
        while (k < in.size() && value_of(in[k]) >= 0) ++k;
        return k;
    }

    // The decode of the property statement: take the longest leading run of alphabet characters (k of them), read it
    // as a stream of 6k bits, return the floor(6k/8) whole bytes it contains; everything from the first other byte on
    // (padding, whitespace, NUL, any byte >= 0x80, ...) is ignored.
    inline void spec_decode(const bytes& in, bytes& out)
    {
        const std::size_t k = leading_run(in);
        out.clear();
        out.reserve((6 * k) / 8);
        // bit-serial: the 6 bits of every character of the run, most significant first, go through an 8-bit shift register;
        // a byte is emitted whenever 8 bits have been collected, so exactly floor(6k/8) bytes come out and the
        // 0, 2 or 4 left-over bits are dropped
        unsigned reg = 0;
        int have = 0;
        for (std::size_t i = 0; i < k; ++i)
        {
            const unsigned sext = static_cast<unsigned>(value_of(in[i]));
            for (int bit = 5; bit >= 0; --bit)
            {
                reg = ((reg << 1) | ((sext >> bit) & 1u)) & 0xFFu;
                if (++have == 8)
                {
                    out.push_back(static_cast<unsigned char>(reg));
                    have = 0;
                }
            }
        }
    }
    inline bytes spec_decode(const bytes& in) { bytes out; spec_decode(in, out); return out; }
}

#endif
