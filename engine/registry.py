"""Data from which bin/mkmanifest writes MANIFEST.json. One entry per claimed property."""

ENGINES = [
    {"name": "E1-stateful-explorer", "path": "engine/explorer.hpp",
     "serves_properties": [],
     "kind_free_text": "explicit-state BFS over copies of real library objects paired with a std:: reference model; every operation instance applied to every reachable state; to fixpoint or a reported depth bound"},
    {"name": "E2-history-explorer", "path": "engine/history.hpp",
     "serves_properties": [],
     "kind_free_text": "state = operation history replayed on a fresh world; every operation additionally executed with a throw injected at each throw point it reaches; lifetime registry + ASan/LSan as oracle"},
    {"name": "E3-exhaustive-enumerator", "path": "engine/vlib.py",
     "serves_properties": ["C15"],
     "kind_free_text": "exhaustive enumeration of a finite input / program / configuration space through the real code against an independent reference"},
]

CHECKS = {
    "C15": {
        "engine": "E3-exhaustive-enumerator",
        "category": "exploration",
        "text": "Exhaustive enumeration: every ordered pair of 11 integer types x all value pairs (8x8, 8x16, 16x8 complete in quick; 16x16 complete in thorough) "
                "and the full boundary alphabet for wider types, all six cmp_* functions judged against __int128 comparison, trichotomy checked on every pair, "
                "constexpr/noexcept usability static_asserted per instantiation. The functions are pure and stateless, so input enumeration is the whole behaviour space.",
        "design_ref": "DESIGN.md section 3, C15",
        "note": "Trusted: __int128 arithmetic of g++. 32/64-bit operand types are decided on a boundary alphabet (all powers of two +-1, extremes), not on all 2^64 values.",
        "technique": "bounded exhaustive input enumeration against an exact wide-integer oracle (stateless model checking of a pure function)",
    },
}

NOT_YET = "check not built yet in this round; design in DESIGN.md section 3"
NOT_APPLICABLE = {}
