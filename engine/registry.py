"""Data from which bin/mkmanifest writes MANIFEST.json. One entry per claimed property."""

ENGINES = [
    {"name": "E1-stateful-explorer", "path": "engine/explorer.hpp",
     "serves_properties": [],
     "kind_free_text": "explicit-state BFS over copies of real library objects paired with a std:: reference model; every operation instance applied to every reachable state; to fixpoint or a reported depth bound"},
    {"name": "E2-history-explorer", "path": "engine/history.hpp",
     "serves_properties": [],
     "kind_free_text": "state = operation history replayed on a fresh world; every operation additionally executed with a throw injected at each throw point it reaches; lifetime registry + ASan/LSan as oracle"},
    {"name": "E3-exhaustive-enumerator", "path": "engine/vlib.py",
     "serves_properties": ["C15"],
     "kind_free_text": "exhaustive enumeration of a finite input / program / configuration space through the real code against an independent reference"},
]

CHECKS = {
    "C15": {
        "engine": "E3-exhaustive-enumerator",
        "category": "exploration",
        "text": "Exhaustive enumeration: every ordered pair of 11 integer types x all value pairs (8x8, 8x16, 16x8 complete in quick; 16x16 complete in thorough) "
                "and the full boundary alphabet for wider types, all six cmp_* functions judged against __int128 comparison, trichotomy checked on every pair, "
                "constexpr/noexcept usability static_asserted per instantiation. The functions are pure and stateless, so input enumeration is the whole behaviour space.",
        "design_ref": "DESIGN.md section 3, C15",
        "note": "Trusted: __int128 arithmetic of g++. 32/64-bit operand types are decided on a boundary alphabet (all powers of two +-1, extremes), not on all 2^64 values.",
        "technique": "bounded exhaustive input enumeration against an exact wide-integer oracle (stateless model checking of a pure function)",
    },
}

CHECKS["C03"] = {
    "engine": "E1-stateful-explorer",
    "category": "model_checking",
    "text": "Explicit-state BFS over the raw states (size, block count, every block including the bits beyond size()) of real xdynamic_bitset and xdynamic_bitset_view objects: "
            "every operation instance of the alphabet is applied to every reachable state and the result compared with std::vector<bool>; every new state is interrogated through all "
            "queries the statement lists plus the unused-bit invariant and the caller-memory guards of views. uint8_t (S=10; thorough also S=17 and uint16_t S=17) runs to fixpoint, i.e. all "
            "reachable states of the alphabet; uint32_t/uint64_t are depth-bounded. That is the right level because the property is about state left behind by one call meeting the next call. Two further dimensions: the whole owning alphabet and the initializer-list routes over a default-initialising allocator on dirtied (0xFF / 0xA5) memory; requests at the top of size_type's range and around small allocator limits, judged by exact arithmetic (an unsatisfiable request must throw and leave the bitset unchanged).",
    "design_ref": "DESIGN.md section 3, C03",
    "note": "Trusted: std::vector<bool>, the harness' shift/zero-fill model. Bounds: max size S per instantiation, operand gallery for binary operators (all patterns in thorough for S=10), "
            "boundary bit indices and depth 3/4 for 32/64-bit blocks. Calls whose precondition the statement does not cover (pop_back on empty, pos>=size, operands of different size, moved-from use) are not in the alphabet. Exception type of an unsatisfiable request, reserve/capacity/max_size and the strong guarantee of assign are not judged; std::allocator runs of the limit part sit on a replaced operator new (16 MiB); allocator limit fixed at 3 blocks; sizes between 5w+1 and 2^28 are not requested under a limit.",
    "technique": "explicit-state model checking of the implementation (BFS with state hashing over real objects, reference-model oracle on every transition)",
}

CHECKS["C01"] = {
    "engine": "E1-stateful-explorer",
    "category": "model_checking",
    "text": "Explicit-state BFS from the default-constructed string over raw states (size() plus the complete N+1 element buffer, so states that look equal but differ in stale bytes behind the "
            "terminator stay distinct). Every operation instance of the public alphabet (~10k instances per instantiation) is applied to every reachable state; each operation is written once as a "
            "generic lambda and executed on the real xbasic_fixed_string and on std::basic_string, and return value, exception and observable state are compared; every new state answers ~9k query "
            "instances. Packed, size-field and strlen layouts, silent and throwing policy, char and char16_t, N=3 run to FIXPOINT (all reachable states of the alphabet, incl. length exactly N); "
            "capacities 200 and 256 are depth-bounded from seeds of length 0,1,N-1,N. The property is about what one call leaves behind for the next, which is exactly what state-space search decides.",
    "design_ref": "DESIGN.md section 3, C01",
    "note": "Trusted: libstdc++ std::basic_string; resize(n) modelled as blank fill. Bounds: character alphabet {a,b} (+ blank, NUL through counted overloads), N=3 (thorough 4), positions 0..N+1/far/npos, "
            "source operands of length <= 2, N, N+1. Self-aliasing arguments (own data / iterators / the string itself) are in the alphabet; no calls undefined for std::string; wchar_t is ill-formed on this tree and not instantiated.",
    "technique": "explicit-state model checking of the implementation (BFS to fixpoint over raw object states, std::basic_string as lock-step reference model)",
}
CHECKS["C02"] = {
    "engine": "E1-stateful-explorer",
    "category": "model_checking",
    "text": "The error transitions of the C01 state space: in every reachable raw state (in particular length N-1 and N) every operation instance is classified by the reference model "
            "(position beyond the relevant length => std::out_of_range, else result longer than N => std::length_error, else success); the exception class is compared and after a failed call size() "
            "and data()[0..size()] must equal the pre-state. The string under test sits between two neighbour strings and 32-byte guard frames that must stay byte-identical after every transition; "
            "argument buffers are exact-size heap blocks under AddressSanitizer. Millions of error transitions are enumerated (expected_*_transitions in the evidence), not sampled.",
    "design_ref": "DESIGN.md section 3, C02",
    "note": "Trusted: the model's classification of positions and lengths; ASan red zones for argument over-reads; neighbour/guard comparison for writes outside the buffer (ASan cannot see intra-block overflow). "
            "size()+count never overflows in the alphabet. When a position and a capacity error coincide std::out_of_range is expected.",
    "technique": "explicit-state model checking with exhaustive enumeration of failing operation instances (fault transitions) in every reachable state",
}

CHECKS["C06"] = {
    "engine": "E2-history-explorer",
    "category": "fault_enumeration",
    "text": "BFS over operation histories of a world of 2-3 xtl::any objects, each state rebuilt by replaying its history on a fresh world and deduplicated by the observed (type, value, moved-from) of every object; "
            "run to FIXPOINT. Every operation instance (construct/assign from lvalue and rvalue of 8 payload types on both sides of the in-place/heap threshold, copy/move construct and assign, member and std::swap "
            "including self-swap, reset/clear, recreate, mutation through any_cast<T&>) is executed unfaulted in every reachable state - which measures the number K of copy/move invocations that can throw - and then "
            "once for each k=1..K with the k-th one throwing. Oracle: value model incl. the strong guarantee, address-keyed lifetime registry (constructed once, never used dead, destroyed once, nothing alive after "
            "teardown), ASan/LSan, and in every new state every any_cast form x every type. Every point at which an element can throw is enumerated, which is what the fault_sequences quantifier asks for.",
    "design_ref": "DESIGN.md section 3, C06",
    "note": "Trusted: the harness payload types and registry; the hand-written value model (cross-checked with std::any on fault-free prefixes). Bounds: 3 objects, values {1,2} (quick: 2 objects x 2 values and 3 objects x 1 value), "
            "8 payload types. Moved-from objects are only required to stay queryable/assignable/destructible; self move-assignment is not in the alphabet.",
    "technique": "stateless model checking over operation histories with exhaustive throw-point (fault) enumeration and a lifetime-registry oracle",
}

CHECKS["C05"] = {
    "engine": "E2-history-explorer",
    "category": "fault_enumeration",
    "text": "BFS over operation histories of two and three xtl::variant objects (4 alternatives mixing a trivially copyable, a nothrow-movable tracked, a tracked type whose copy, move and assignment can throw, and a larger "
            "tracked type; and a 6-alternative variant with duplicate types), each state rebuilt by replay on a fresh world, deduplicated by (index, value, moved-from), run to FIXPOINT. In every reachable state every "
            "operation instance runs once unfaulted (measuring the K constructor/assignment invocations that can throw) and once per k=1..K with the k-th throwing. Fault-free results are compared with std::variant in "
            "lock-step; faulted results with the statement's rule; an address-keyed lifetime registry plus ASan/LSan decide 'constructed once, never used dead, destroyed once'; every new state is interrogated through "
            "index/valueless/holds_alternative/get/get_if/xget, all relational operators on all ordered pairs and visit over 1-3 variants.",
    "design_ref": "DESIGN.md section 3, C05",
    "note": "Trusted: harness payload types/registry, libstdc++ std::variant, hand-coded [variant.relops]. Bounds: 2-3 variants, values {1,2}, the stated alternative sets. The table-based visitation dispatcher is dead code "
            "under every supported configuration (MPARK_VARIANT_SWITCH_VISIT) and cannot be executed.",
    "technique": "stateless model checking over operation histories with exhaustive throw-point (fault) enumeration, std::variant as lock-step reference and a lifetime-registry oracle",
}

CHECKS["C11"] = {
    "engine": "E1-stateful-explorer",
    "category": "model_checking",
    "text": "Explicit-state BFS over the raw states of real xoptional_vector (flags in 64-bit and 8-bit bitset blocks), xoptional_array, xcomplex_vector and xcomplex_array objects: both storages element by element, "
            "their two lengths and the raw flag blocks including bits beyond size(). Every constructor (default construction by placement into 0xA5- and 0x00-filled storage in both initialisation forms), every resize "
            "overload for every size, and every element write path (value x flag through [] at front back, forward/reverse iterators, arrow, value-only, flag-only, direct storage) is applied to every reachable state "
            "up to the maximal size, to FIXPOINT; the model is a vector of pairs. A history explorer with fault injection additionally throws at every element copy of every resize/constructor of a vector over a "
            "throwing-copy element type and requires the storages to stay in lockstep. Four scenario enumerations on fresh containers complete the BFS: arguments referring into the container itself x "
            "capacity preparation (alias), every flag block type x sizes around block boundaries x every index x write path (sweep), reads of non-trivially-movable element values (std::string, a stealing "
            "handle) through the prvalue proxy of every access path in every assignment / construction / copy form with a complete re-read of the source (read), and ==/!= over all pairs of states whose "
            "floating-point parts include +-0, NaNs and infinities against std::vector equality (fp).",
    "design_ref": "DESIGN.md section 3, C11",
    "note": "Trusted: the pair-vector model. Bounds: maximal size 4 (quick) / 5-6 (thorough), values {0,7}; size 9 over 8-bit flag blocks with boundary indices. begin() of the array variants and whole-element assignment "
            "to a complex proxy are ill-formed on this tree (capability-probed, reported in the evidence); array constructors are called with the container's own size as the statement says. "
            "Read part: sizes <= 4 (thorough <= 9); std::move of a named proxy not enumerated. Fp part: sizes <= 2 over 8 values per part, size 3 over {+0,-0,NaN}; 'match' = the element type's ==; long double not instantiated.",
    "technique": "explicit-state model checking of the implementation (BFS to fixpoint over raw container states) plus throw-point enumeration for resize plus exhaustive scenario enumeration on fresh containers (alias, sweep, read, fp)",
}

CHECKS["C17"] = {
    "engine": "E2-history-explorer",
    "category": "model_checking",
    "text": "(A) BFS over registration/erasure histories of functor_dispatcher over basic_dispatcher (dynamic and static casting) and basic_fast_dispatcher with 1, 2 and 3 dispatched arguments and an undispatched extra "
            "argument: every history is replayed on a fresh dispatcher after resetting the per-class static indices, so registration order decides the lazily assigned class indices and the shape of the nested tables; "
            "after every transition dispatch is called on ALL argument tuples and judged against the handler map (exact handler, argument identity and order, extra argument by identity; error and no handler for every "
            "unregistered tuple). 1-argument dispatchers run to fixpoint, 2- and 3-argument ones to a depth bound. (B) static_dispatcher is instantiated for every pair of ordered sub-lists of the type list (antisymmetric) "
            "and every sub-list (symmetric) and run on all 9 argument pairs. (C) acyclic visitors for every subset of handled types x visited type x catch-all policy x constness, and the cyclic visitor. (G) basic_dispatcher over a type alphabet with two distinct same-named classes (unnamed namespaces of two translation units): all insert/erase histories up to length 3-5, all object tuples. (H) basic_fast_dispatcher, 2 arguments over 5 classes: all insertion histories up to length 3 (thorough 4) on fresh dispatchers with reset indices.",
    "design_ref": "DESIGN.md section 3, C17",
    "note": "Trusted: the handler-map model. Bounds: hierarchy of 3 leaf classes, handlers {h1,h2}, histories of length <= 4 (quick) / 5 (thorough, state cap) for 2 arguments and 2-4 for 3 arguments. "
            "One fast dispatcher per hierarchy, as the quantifier says. Part H: 5 leaf classes, histories <= 3/4. Part G: type identity by class across two translation units, judged only where a start-up probe shows the compiler keeps the two same-named classes apart (g++).",
    "technique": "stateless model checking over registration histories (replay on a fresh dispatcher, all argument tuples judged after every transition) plus exhaustive enumeration of generated instantiations; exhaustive enumeration of complete bounded histories without state merging (parts D-H)",
}

CHECKS["C04"] = {
    "engine": "E3-exhaustive-enumerator",
    "category": "exploration",
    "text": "The overload space is a finite matrix generated from X-macro tables of the operator and function names: wrapper {xoptional, xmasked_value} x 14 binary operators, ==/!=, 4 unary, 8 compound, 36+8+1 lifted "
            "functions, value_or, select x every assignment of {plain, value closure, reference closure (thorough: const-reference closure)} to the argument positions x all presence vectors x all value tuples over a "
            "boundary alphabet (0, +-1, extremes, NaN, inf, -0). Every cell is executed on the real overload; the oracle is the statement's lifted rule computed on builtin values, a call-counting element type that makes "
            "evaluation on a missing operand observable (must be 0), and a forked child for integer / and % by a missing zero. The overloads are independent pure functions, so complete enumeration of the matrix is the whole space within the value alphabet.",
    "design_ref": "DESIGN.md section 3, C04",
    "note": "Trusted: builtin/std:: arithmetic as reference; the Traced counting type. Bounds: value alphabets of 7 (thorough 13) values per type; element types int, double, Traced; bool flags. "
            "Not judged: non-evaluation for ==/!= and unary operators (exempt in the statement), the value stored in a missing result.",
    "technique": "bounded exhaustive enumeration of the overload x operand-kind x presence x value matrix against the lifted-semantics oracle with evaluation counters",
}

CHECKS["C08"] = {
    "engine": "E3-exhaustive-enumerator",
    "category": "exploration",
    "text": "Complete enumeration of the input spaces the statement quantifies over, through the real code, built twice (software path with -mno-f16c and F16C path with -mf16c) and compared bit for bit: "
            "float->half on all 2^32 float bit patterns (constructor and assignment); half->float/double, sqrt, classification, unary minus, fabs, hash on all 2^16 halves; + - * /, the six comparisons, copysign and "
            "hash-of-equal-values on 8*10^7 boundary pairs (quick) / ALL 2^32 ordered pairs (thorough); fma on an alphabet cube plus tie-breaking addends derived from the exact product. The oracle is an exact integer "
            "binary16 reference (refs/C08_half_ref.hpp) that is itself cross-checked on every run against double arithmetic, TwoSum/round-to-odd and the F16C hardware. A 16-bit type makes exhaustive enumeration the right level.",
    "design_ref": "DESIGN.md section 3, C08",
    "note": "Trusted: the integer reference (cross-checked) and IEEE double arithmetic of the host. The 2^48 fma triples are covered on the two stated families only. double->half and int<->half are enumerated and "
            "reported as information only (the statement does not claim them). NaN results compare as 'is NaN'. long double sources (the generic float2half path) are judged on a neighbourhood alphabet in ulps of the 64-bit significand around every half value and midpoint, every cast entry point, sw and F16C builds; integer sources remain unjudged (outside the statement).",
    "technique": "exhaustive input enumeration (all 2^32 floats, all 2^16 halves, all 2^32 half pairs) against an exact integer reference, software vs F16C path digest comparison",
}

CHECKS["C07"] = {
    "engine": "E3-exhaustive-enumerator",
    "category": "exploration",
    "text": "Static part: 800+ type identities (closure_type_t, const_closure_type_t, ptr_closure_type_t, apply_cv_t, forward_type_t, return types of closure/const_closure/closure_pointer/proxy_wrapper/optional/masked_value/"
            "forward_sequence and of the &/&&-qualified accessors of every wrapper) generated from the reference rule 'lvalue -> (const) reference or pointer, rvalue -> decayed value, const preserved' over every value category and "
            "payload; the compiler is the executor and every failing row is confirmed as a one-assert translation unit. Dynamic part: for 13 wrapper kinds x 6 source categories x 3 payloads EVERY operation sequence up to length 4 "
            "(thorough 5) over read/assign/copy/move/swap/address-of/kill-the-source is executed and compared with a cell model (address identity, copy/move counters, values, exactly one owned object) with a lifetime registry and "
            "AddressSanitizer (stack-use-after-return on); bitset element references and forward_sequence likewise.",
    "design_ref": "DESIGN.md section 3, C07",
    "note": "Trusted: the Python reference rule and the cell model. Bounds: sequence length 4/5, payloads int/Counted/MoveOnly. Ill-formed instantiations (deleted same-type assignment of reference-closure wrappers, "
            "move-only rvalue closures with g++ < C++20) are capability-probed and reported as notes. Where the statement leaves a choice both answers are accepted.",
    "technique": "exhaustive program (instantiation) enumeration with the compiler as executor plus exhaustive operation-sequence enumeration against an aliasing/ownership model",
}
CHECKS["C09"] = {
    "engine": "E3-exhaustive-enumerator",
    "category": "exploration",
    "text": "All 2^16 arguments of every unary half function (26 entry points) and of the rounding/decomposition family, all halves x exponents [-60,60] u {INT_MIN, INT_MAX} for ldexp/scalbn/scalbln, and for the 11 binary "
            "functions all pairs over a 1000-value alphabet (every pair judged by MPFR) plus a 3976-value alphabet (quick) / ALL 2^32 ordered pairs (thorough, glibc double pre-filter, MPFR for every undecided pair, every mismatch "
            "and every accepted 1-ULP difference). The verdict is MPFR correctly rounded to binary16 (precision 11, emin/emax of binary16, mpfr_subnormalize), itself cross-checked against 256-bit MPFR with an independent "
            "integer rounding routine. Functions documented exact must match bit for bit, the eight 1-ULP functions within one ULP. Each sweep runs in a forked child so a crash or hang is attributed to an input. Part 10 enumerates CALL HISTORIES: for each argument relation (same, negated, next bit pattern, neighbouring binade / mantissa, constant special values) and all 2^16 arguments, every ordered pair of entry points (39 unary / float-like ones, up to 127 with sections of the binary functions) as consecutive calls along an Eulerian circuit of the complete digraph, and first calls in newly created threads; results are compared with each function's isolated sweep and judged by MPFR when they differ.",
    "design_ref": "DESIGN.md section 3, C09",
    "note": "Trusted: MPFR/GMP (cross-checked), glibc float functions for the rounding family. Only the shipped configuration (round-to-nearest, software conversions) is judged. Thorough completes all 2^32 pairs for 10 of 11 "
            "binary functions within its deadline on a loaded machine and reports a cap for pow when it does not finish. Besides the shipped configuration the directed HALF_ROUND_STYLE and error-handling builds are judged (parts 9, 10). Histories are bounded to adjacent pairs within the stated relations; concurrent calls from several threads are not enumerated.",
    "technique": "exhaustive input enumeration (all 2^16 arguments; alphabets squared / all 2^32 pairs) against a correctly rounded MPFR reference; exhaustive enumeration of two-call histories (all ordered function pairs x all arguments x an argument-relation alphabet)",
}
CHECKS["C10"] = {
    "engine": "E3-exhaustive-enumerator",
    "category": "exploration",
    "text": "Every operand pair (a+bi, c+di) with components from a boundary alphabet V (17 values quick, 45 thorough: zeros of both signs, small integers, inexact mantissas, 2^+-BIG, extremes, subnormals, infinities, NaN), i.e. "
            "all of V^4, for float and double, is pushed through every well-formed way of driving xcomplex (493 instantiations per type: + - * / as binary, compound and mixed real/complex forms over value / T& / const T& closures "
            "and both ieee flags, std::complex conversions, ==, !=, unary minus, 23 forwarded functions, accessors). Oracles: exact __float128 arithmetic with a normwise 8-eps tolerance for well-scaled finite operands, the six "
            "Annex G rules of the statement with libstdc++ as a second opinion, bit-identity between closure kinds and against std::complex for forwarded functions.",
    "design_ref": "DESIGN.md section 3, C10",
    "note": "Trusted: __float128, libstdc++ std::complex as second opinion. Bounded by the alphabet. 1172 of 4922 instantiations (826 of 2909 manifest entries) are ill-formed on this tree (operator=, +=, -= across different instantiations read private "
            "members; no compound overload for a std::complex operand) and are decided by compile probes, reported as notes. Part mixc: compound assignment between xcomplex objects of different value types "
            "(left float/double x right float/double/int/long double, all closure kinds and ieee flags, 176 well-formed instantiations), all operand tuples over V(T1)^2 x R^2, judged in the LEFT operand's precision.",
    "technique": "exhaustive enumeration of operand pairs over a boundary alphabet (V^4) x all instantiations against exact wide arithmetic and the Annex G rule table",
}
CHECKS["C18"] = {
    "engine": "E3-exhaustive-enumerator",
    "category": "exploration",
    "text": "The domain is the set of programs: a Python generator holds the reference semantics (ordinary list operations on lists of type names) and emits one static_assert per case; the compiler is the executor. "
            "All lists over 4 element types up to length 6 (thorough 7-8: 87 381 lists) x every mpl algorithm (size empty front back push/pop count contains index_of count_if find_if transform cast split<N> unique), merge_set on "
            "all ordered pairs of lists up to length 3, if_/eval_if/switch_ over all condition vectors, static_if executed at run time; promote_type_t over ALL packs of length 1-3 of 15 arithmetic and 3 complex types (6 174 packs), "
            "conjunction/disjunction/negation on all boolean packs up to length 4, apply_cv/constify on all 12 cv/ref forms, common_optional_t. The arithmetic model is cross-checked against the compiler's decltype on every run.",
    "design_ref": "DESIGN.md section 3, C18",
    "note": "Trusted: g++ 12 / clang++ 14 as executors, the Python list model. Bounds: 4 element types, list length 6/7/8, packs up to 3.",
    "technique": "exhaustive program (instantiation) enumeration: generated static_assert translation units with the compiler as executor and a Python reference model",
}
CHECKS["C20"] = {
    "engine": "E3-exhaustive-enumerator",
    "category": "exploration",
    "text": "Configuration enumeration: a helper built from /repo/include is installed at every path of a stated alphabet - depth x total length (boundary lengths around 256, 512, 1024, 2048, 4095; thorough: every length 57..4095) x "
            "component flavour (plain, spaces, UTF-8, non-UTF-8 high bytes, leading dot, control/shell characters) x invocation (direct, relative, symlink to file, symlinked directory, symlink chain) x build (ASan, plain) - and "
            "started in a forked child; the driver never includes xtl and judges executable_path()/prefix_path() against the path it created itself, endianness() against three independent byte inspections, ASan as over-read observer. Grid G adds the ACCESS CONTEXT of the calling process: restricted directory (none / one / every) x rights left to the caller (---, r--, --x) x file mode (0755, 0111) x six launch kinds (root, privilege drop after start, fexecve, /proc/self/fd/N, inherited cwd, owner revokes own rights), each case probed against the kernel.",
    "design_ref": "DESIGN.md section 3, C20",
    "note": "Trusted: the driver's own path construction. Linux/x86-64/ext4 only; other platform branches are unreachable here. Name lengths are uniform within a path. Grid G needs root with a usable setuid (otherwise reduced and reported as a cap); only uid/gid 65534 without groups; no ACLs, capability-only drops, chroot or namespaces.",
    "technique": "exhaustive enumeration of an install-path alphabet (depth x length x flavour x invocation) with an out-of-process oracle and of process access contexts",
}

CHECKS["C13"] = {
    "engine": "E3-exhaustive-enumerator",
    "category": "exploration",
    "text": "Encode and round trip: ALL byte strings of length 0..3 over all 256 byte values (thorough: 0..4, i.e. 2^32 more), all strings of length 4..6 (5..8) over {00,01,7F,80,FF,'A'}, plus structured long families; "
            "decode of arbitrary text: ALL strings of length 0..3 (0..4) over all 256 byte values, all strings of length 4..6 (5..8) over a 13-character alphabet of alphabet/padding/whitespace/url-safe/NUL/high bytes, and valid "
            "prefixes followed by every such tail in exact-size heap blocks. Reference: an independent RFC 4648 codec (refs/C13_rfc4648.hpp, range arithmetic, bit-by-bit decode) that is cross-checked against python's base64 "
            "module on every run; decode oracle = the statement's 'longest leading run of alphabet characters, whole bytes only'. Each chunk runs in a forked child under ASan + UBSan bounds + _GLIBCXX_ASSERTIONS so an "
            "out-of-table index is attributed to its input. TARGET-ISA builds: the harness is also built per instruction-set option set (-march=native, x86-64-v2/v3/v4, -mbmi2, -mavx2, -msse4.2, -mssse3, AVX-512 VBMI; sets the CPU cannot run are a reported gap) and all strings of length 0..2 (thorough 0..3), the structured families and every length 0..1500/3000 are enumerated in each. HUGE part: an input of exactly 2^31 bytes (thorough: every length 2^31-1..2^31+3 and 2^32-1..2^32+3) is encoded and compared character by character with a streaming RFC 4648 encoder, and its padded and unpadded reference text is decoded back.",
    "design_ref": "DESIGN.md section 3, C13",
    "note": "Trusted: the reference codec (cross-checked with python base64). Exhaustive over all byte values up to length 3 (4); longer inputs only through the structured families. The two 2^32 families of the thorough tier run without ASan/UBSan. Lengths between 2^26+32 and 2^31-2 and beyond 2^32+3 are not enumerated. The huge part needs about 7 GiB (quick) / 14 GiB per process (thorough); std::bad_alloc is a reported cap.",
    "technique": "exhaustive input enumeration (all byte strings up to a length bound) against an independent RFC 4648 reference and the specification decode function",
}

CHECKS["C14"] = {
    "engine": "E3-exhaustive-enumerator",
    "category": "exploration",
    "text": "hash_bytes, murmur2_x86 and murmur2_x64 on the full product length 0..39 (thorough 0..71: every residue mod 4 and mod 8 over several blocks) x content families (all bytes = v, each single position = v over 00/FF "
            "backgrounds, counting patterns, ALL one- and two-byte keys, quick: ALL 2^24 three-byte keys, thorough: ALL 2^32 four-byte keys) x 8 boundary seeds (thorough + 2^k, ~2^k) x start alignment 0..7 x surrounding fill "
            "{00,FF} x placement (key ends at the last byte of an exact-size malloc block under ASan, or at/after an inaccessible guard page in a forked child), against an independently written byte-wise little-endian "
            "MurmurHash2/64A reference that must reproduce the published SMHasher verification values at start-up. The fixed-string coherence is decided inside the C01 explorer for every reachable raw state of every layout "
            "(equal strings reached by different histories, with different stale bytes, hash equally) and on strings built four different ways in seven fixed-string types.",
    "design_ref": "DESIGN.md section 3, C14",
    "note": "Trusted: the byte-wise reference (anchored to the SMHasher verification values). x86-64 little-endian only; the 32-bit size_t branch is unreachable. The unaligned 32-bit load in murmur2_x86 is deliberately not judged.",
    "technique": "exhaustive input enumeration (length x content x seed x alignment x neighbourhood) against an independent reference with red-zone and guard-page over-read detection, plus explicit-state exploration of fixed-string states",
}

CHECKS["C12"] = {
    "engine": "E3-exhaustive-enumerator",
    "category": "exploration",
    "text": "For 45 iterator kinds (xbitset_iterator mutable/const over four block types, owning and view, and its reverse form; the four xoptional_iterator and xcomplex_iterator forms; xstepping_iterator over vector, "
            "const vector, pointer and deque iterators with steps 1-4 and 7; key/value iterators over map and const map; two iterators deriving directly from the base classes incl. the size_t extension) and EVERY container "
            "size 0..N (N = 8-18 quick, 64-200 thorough), every law of the statement is evaluated for EVERY position a, every pair (a,b) and every offset d that stays in range: begin/end anchoring, five traversal forms, deref, "
            "++ -- it++ it--, ==/!=, difference, < <= > >=, it+d, d+it, it-d, += -=, it[d], size_t overloads. The oracle is index arithmetic on the underlying storage; positions are identified by comparing with reference "
            "iterators built through public constructors, elements by address (or by index-bit patterns for bit proxies).",
    "design_ref": "DESIGN.md section 3, C12",
    "note": "Trusted: index arithmetic. Bounds: the stated sizes, steps and element types. xcomplex_iterator has no operator< (order laws skipped) and begin() of the array variants is ill-formed: both capability-probed.",
    "technique": "exhaustive small-scope enumeration (all sizes x all position pairs x all in-range offsets) of iterator laws against index arithmetic",
}

CHECKS["C16"] = {
    "engine": "E3-exhaustive-enumerator",
    "category": "exploration",
    "text": "Every request (element type x parent kind x parent size 0..6 (thorough 0..16) x memory layout x operation x arguments) is executed on the real span in two builds (TCB_SPAN_THROW_ON_CONTRACT_VIOLATION: all "
            "requests; TCB_SPAN_NO_CONTRACT_CHECKING: the valid ones): first(c), last(c), subspan(o), subspan(o,c) for ALL o, c in {0..n+2} u {2^31, 2^32+-1, 2^61.., 2^63+-1} u {SIZE_MAX-(n+2)..SIZE_MAX}, member and non-member forms; "
            "a generated matrix of 1400+ (thorough 7200+) static-extent instantiations first<C>, last<C>, subspan<O>, subspan<O,C> for all O, C in -1..5 (8); every constructor form. Validity and the expected range are computed "
            "in 128-bit integers and compared with raw addresses of guarded / exact-size heap blocks; every returned view is probed (size_bytes, empty, [], at() for in-range and 16 out-of-range indices, front/back, forward, "
            "reverse and const iteration, writes through six paths with guard comparison); invalid requests in the checked build must be rejected.",
    "design_ref": "DESIGN.md section 3, C16",
    "note": "Trusted: the 128-bit range arithmetic. Bounds: parent size <= 6 (16) and the stated argument alphabet. Ill-formed static instantiations are listed in a manifest and probe-compiled.",
    "technique": "exhaustive small-scope enumeration of (parent size, offset, count) incl. values near SIZE_MAX x static/dynamic extents x checking modes against sub-range arithmetic",
}

CHECKS["C19"] = {
    "engine": "E3-exhaustive-enumerator",
    "category": "exploration",
    "text": "Configuration enumeration, the 'execution' being a compiler / linker / process run: every public header (taken from the directory listing, 33 today) x {single include, double include} x {C++14,17,20} x "
            "{exceptions, -fno-exceptions} x {g++, clang++} as a generated translation unit that includes only that header and then uses one facility of it (792 compilations in thorough; quick: all 12 configurations for the "
            "single include and 2 for the double include); thorough additionally all 1056 ordered header pairs in every configuration; two translation units that include all headers in opposite orders and call or odr-use "
            "every non-template function are linked as 1-TU and 2-TU programs and run (duplicate-definition / undefined-symbol detection, nm on a -fkeep-inline-functions object); 17 error-path scenarios are run in their own "
            "process with -fno-exceptions and must die inside the failing call instead of continuing. Unit U6: a generated corpus of 1 327 use programs (header x entry point x argument / template-argument kind, non-template functions in two linked translation units) is built, linked and run per configuration and must have the same verdict (value / rejected / run failure) in every configuration (quick: 6-row pairwise covering array of the 12 configurations; thorough: all 12).",
    "design_ref": "DESIGN.md section 3, C19",
    "note": "Trusted: the installed g++ 12 / clang++ 14 with libstdc++ (a missing include that libstdc++ supplies transitively is invisible). xjson.hpp is in scope with the nlohmann headers found in the sandbox. "
            "Quick is a fixed sub-space of the matrix; a budget cut is reported as a cap. U6 judges configuration dependence only; uses ill-formed in every configuration are capability probes (18 cells, checks/C19/uses_rejected.json).",
    "technique": "exhaustive configuration enumeration (header x include form x standard x exception mode x compiler; header pairs; multi-TU links; error-path processes) with compiler, linker and exit status as oracle; configuration-invariance of a generated use corpus with the other configurations' verdict as oracle",
}

NOT_YET = "check not built yet in this round; design in DESIGN.md section 3"
NOT_APPLICABLE = {}
