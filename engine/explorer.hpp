// E1: explicit-state breadth-first explorer over copies of real library objects (DESIGN.md section 1.1).
//
// A World bundles the real object(s) under test with the reference model; it must be copyable and provide
//     std::string key() const        canonical key: observable state PLUS hidden state that can influence the
//                                    future (raw bytes, block storage); two worlds with equal keys must have
//                                    equal futures.
// An operation instance is a named function applied to a copy of a world. It returns false when the instance is
// not applicable in that state (a precondition of the *model*, e.g. index >= size). Errors found while applying
// the operation or while querying a new state are reported through vf::Errs and make the transition a violation;
// the faulty successor is not expanded further (its model and implementation disagree, everything after it
// would only repeat the finding).
#ifndef VERIF_EXPLORER_HPP
#define VERIF_EXPLORER_HPP

#include "report.hpp"

#include <chrono>
#include <deque>
#include <functional>
#include <string>
#include <unordered_map>
#include <vector>

namespace vf
{
    struct Errs
    {
        std::vector<std::pair<std::string, std::string>> v;   // (kind, message)
        void add(const std::string& kind, const std::string& msg) { if (v.size() < 16) v.emplace_back(kind, msg); }
        bool empty() const { return v.empty(); }
    };

    template <class World>
    struct Explorer
    {
        struct Op
        {
            std::string kind;   // coarse name used in signatures ("insert", "shl", ...)
            std::string name;   // unique, replayable ("insert(1,2,'a')")
            std::function<bool(World&, Errs&)> f;
        };

        std::string san_kind = "asan";   // error kind used for sanitizer reports (a harness may route it, e.g. "C02:sanitizer")
        std::string prop;       // "C03"
        std::string inst;       // instantiation name ("u8/S10")
        std::vector<Op> ops;
        std::function<void(const World&, Errs&)> check_state;   // queries evaluated once in every new state
        long long max_states = 1LL << 40;
        int max_depth = 1 << 30;
        double deadline_s = 1e18;

        struct Node { int parent; int op; int depth; };
        std::deque<World> worlds;
        std::vector<Node> nodes;
        std::unordered_map<std::string, int> index;
        long long transitions = 0, inapplicable = 0, viol_transitions = 0;
        int depth_reached = 0;
        bool complete = true;
        bool state_cap_hit = false;
        std::map<std::string, std::pair<long long, long long>> per_kind;   // kind -> (transitions, state-changing)

        void add_op(const std::string& kind, const std::string& name, std::function<bool(World&, Errs&)> f)
        {
            ops.push_back(Op{kind, name, std::move(f)});
        }

        std::string trace(int node, int last_op) const
        {
            std::vector<std::string> names;
            if (last_op >= 0) names.push_back(ops[size_t(last_op)].name);
            int root = 0;
            for (int n = node; n >= 0; n = nodes[size_t(n)].parent)
            {
                if (nodes[size_t(n)].op >= 0) names.push_back(ops[size_t(nodes[size_t(n)].op)].name);
                else root = -1 - nodes[size_t(n)].op;
            }
            std::string s = "@" + str(root);
            if (!names.empty()) s += ";";
            for (size_t i = names.size(); i-- > 0;) { s += names[i]; if (i) s += ";"; }
            return s;
        }

        void report(const Errs& e, int node, int op, const std::string& where)
        {
            std::string tr = trace(node, op);
            for (auto& kv : e.v)
            {
                std::string kind = op >= 0 ? ops[size_t(op)].kind : std::string("init");
                violation(prop + "/" + inst + "/" + kind + "/" + kv.first,
                          where + " after [" + tr + "]: " + kv.second,
                          {"--replay", inst, tr});
            }
        }

        int add_world(const World& w, int parent, int op, int depth, bool& fresh)
        {
            std::string k = w.key();
            auto it = index.find(k);
            if (it != index.end()) { fresh = false; return it->second; }
            fresh = true;
            int id = int(worlds.size());
            worlds.push_back(w);
            nodes.push_back(Node{parent, op, depth});
            index.emplace(std::move(k), id);
            return id;
        }

        int cur_node_ = -1, cur_op_ = -1, replay_op_ = -1;
        const char* cur_phase_ = "";

        void run(const std::vector<World>& inits)
        {
            auto t0 = std::chrono::steady_clock::now();
            install_crash_handler();
            crash_hook() = [this](const char* what) {
                Errs e;
                e.add("crash", std::string("the process died with ") + what + " " + cur_phase_);
                if (cur_node_ >= 0) report(e, cur_node_, cur_op_, cur_op_ >= 0 ? "operation " + ops[size_t(cur_op_)].name : std::string("state"));
            };
            for (size_t wi = 0; wi < inits.size(); ++wi)
            {
                const World& w = inits[wi];
                bool fresh;
                int id = add_world(w, -1, -1 - int(wi), 0, fresh);
                if (fresh)
                {
                    Errs e;
                    check_state(worlds[size_t(id)], e);
                    if (take_asan()) e.add(san_kind, "AddressSanitizer/UBSan report while querying the initial state");
                    if (!e.empty())
                    {
                        report(e, id, -1, "initial state");
                        nodes[size_t(id)].depth = 1 << 30;   // a violating initial state is reported once and never expanded
                    }
                }
            }
            for (size_t cur = 0; cur < worlds.size(); ++cur)
            {
                int depth = nodes[cur].depth;
                if (depth >= max_depth) { complete = false; continue; }
                bool out_of_time = false;
                for (size_t oi = 0; oi < ops.size(); ++oi)
                {
                    if ((oi & 255) == 0)
                    {
                        double el = std::chrono::duration<double>(std::chrono::steady_clock::now() - t0).count();
                        if (el > deadline_s) { out_of_time = true; break; }
                    }
                    World w = worlds[cur];
                    Errs e;
                    cur_node_ = int(cur); cur_op_ = int(oi); cur_phase_ = "during the operation";
                    bool ok = ops[oi].f(w, e);
                    if (take_asan()) e.add(san_kind, "AddressSanitizer/UBSan report during the operation");
                    if (!ok && e.empty()) { ++inapplicable; continue; }
                    ++transitions;
                    auto& pk = per_kind[ops[oi].kind];
                    pk.first++;
                    if (!e.empty())
                    {
                        ++viol_transitions;
                        report(e, int(cur), int(oi), "operation " + ops[oi].name);
                        continue;
                    }
                    if ((long long)worlds.size() >= max_states)
                    {
                        // still count/judge the transition, but do not grow the table
                        if (index.find(w.key()) == index.end()) { complete = false; state_cap_hit = true; }
                        continue;
                    }
                    bool fresh;
                    int id = add_world(w, int(cur), int(oi), depth + 1, fresh);
                    if (id != int(cur)) pk.second++;
                    if (fresh)
                    {
                        if (depth + 1 > depth_reached) depth_reached = depth + 1;
                        Errs q;
                        cur_phase_ = "while querying the state the operation produced";
                        check_state(worlds[size_t(id)], q);
                        if (take_asan()) q.add(san_kind, "AddressSanitizer/UBSan report while querying the state");
                        if (!q.empty())
                        {
                            ++viol_transitions;
                            report(q, int(cur), int(oi), "state reached by " + ops[oi].name);
                            // keep the state in the table (so that it is not re-reported) but never expand it
                            nodes[size_t(id)].depth = 1 << 30;
                        }
                    }
                }
                if (out_of_time)
                {
                    complete = false;
                    cap(prop + "/" + inst + ": deadline reached after fully expanding " + str(cur) + " of " + str(worlds.size()) + " known states");
                    break;
                }
            }
            // states whose depth was poisoned are not "unexpanded because of the bound"
            (void)0;
        }

        // replay a ';'-separated list of operation names from the first initial world; prints what happens
        bool replay(const std::vector<World>& inits, const std::string& tr)
        {
            install_crash_handler();
            // same signature as the exploring run gives a crash: <kind of the operation that was executing>/crash
            crash_hook() = [this, tr](const char* what) {
                const std::string kind = replay_op_ >= 0 ? ops[size_t(replay_op_)].kind : std::string("init");
                violation(prop + "/" + inst + "/" + kind + "/crash", std::string("the process died with ") + what + " while replaying [" + tr + "]", {"--replay", inst, tr});
            };
            std::vector<std::string> names;
            size_t p = 0;
            while (p <= tr.size() && !tr.empty())
            {
                size_t q = tr.find(';', p);
                if (q == std::string::npos) q = tr.size();
                names.push_back(tr.substr(p, q - p));
                p = q + 1;
            }
            size_t root = 0;
            if (!names.empty() && names[0].size() > 1 && names[0][0] == '@') { root = size_t(std::atoi(names[0].c_str() + 1)); names.erase(names.begin()); }
            if (root >= inits.size()) { std::printf("replay: no initial world %zu\n", root); return false; }
            World w = inits[root];
            {
                Errs e0;
                check_state(w, e0);
                if (take_asan()) e0.add(san_kind, "AddressSanitizer/UBSan report while querying the initial state");
                for (auto& kv : e0.v) violation(prop + "/" + inst + "/init/" + kv.first, "replay initial state: " + kv.second, {"--replay", inst, "@" + str(root)});
                if (!e0.empty()) return true;
            }
            std::string done_so_far = "@" + str(root);
            for (auto& n : names)
            {
                int oi = -1;
                for (size_t i = 0; i < ops.size(); ++i) if (ops[i].name == n) oi = int(i);
                if (oi < 0) { std::printf("replay: unknown operation '%s'\n", n.c_str()); return false; }
                Errs e;
                replay_op_ = oi;
                bool ok = ops[size_t(oi)].f(w, e);
                if (take_asan()) e.add(san_kind, "AddressSanitizer/UBSan report during the operation");
                done_so_far += ";" + n;
                if (!ok && e.empty()) { std::printf("replay: operation '%s' not applicable\n", n.c_str()); return false; }
                if (e.empty())
                {
                    check_state(w, e);
                    if (take_asan()) e.add(san_kind, "AddressSanitizer/UBSan report while querying the state");
                }
                std::printf("replay: %s -> key=%s %s\n", n.c_str(), jesc(w.key()).c_str(), e.empty() ? "ok" : "VIOLATION");
                for (auto& kv : e.v)
                    violation(prop + "/" + inst + "/" + ops[size_t(oi)].kind + "/" + kv.first, "replay [" + done_so_far + "]: " + kv.second,
                              {"--replay", inst, done_so_far});
                if (!e.empty()) return true;
            }
            return true;
        }

        void summarize(bool fixpoint_expected = true)
        {
            if (std::getenv("VERIF_DUMP_KEYS"))   // debugging aid: the canonical keys of all known states, on stderr
                for (auto& kv : index) std::fprintf(stderr, "KEY %s\n", jesc(kv.first).c_str());
            stat("states", (long long)worlds.size());
            stat("transitions", transitions);
            stat("traces_validated_against_impl", transitions);
            stat("inapplicable_instances_skipped", inapplicable);
            stat("violating_transitions", viol_transitions);
            smax("max_depth", depth_reached);
            stat("instantiations", 1);
            std::string kinds;
            for (auto& kv : per_kind) kinds += kv.first + ":" + str(kv.second.first) + "/" + str(kv.second.second) + " ";
            note(prop + "/" + inst + ": states=" + str(worlds.size()) + " transitions=" + str(transitions) + " depth=" + str(depth_reached) +
                 (complete ? " FIXPOINT (frontier empty)" : " BOUNDED (depth/state/time cap)") + " ops=" + str(ops.size()) +
                 " per-kind transitions/state-changing: " + kinds);
            if (state_cap_hit) cap(prop + "/" + inst + ": state cap " + str(max_states) + " reached; successors beyond it were judged but not expanded");
            if (!complete && fixpoint_expected) cap(prop + "/" + inst + ": search did not reach fixpoint (bounded)");
            // a sample trace: the deepest state
            if (!worlds.empty())
            {
                size_t best = 0;
                for (size_t i = 0; i < nodes.size(); ++i)
                    if (nodes[i].depth < (1 << 30) && nodes[i].depth >= nodes[best].depth) best = i;
                sample(inst + ": [" + trace(int(best), -1) + "] -> " + worlds[best].key(), 1 << 20);
            }
        }
    };
}

#endif
