"""Shared machinery of the xtl model-checking checks (see DESIGN.md section 2).

A check module (checks/<ID>/check.py) defines

    LEVEL = "model_checking" | "fault_enumeration" | "exploration"
    def run(ctx): ...            # builds harnesses from REPO, runs them, feeds ctx

and the driver (bin/check) turns what ctx collected into evidence/<ID>.json,
replay files, KNOWN-FINDING / VIOLATION lines and the exit status.

Harness protocol (C++ side: engine/report.hpp): every line on stdout that starts
with "@@" is a JSON object
    {"t":"viol","sig":...,"msg":...,"replay":[argv...]}   one violation
    {"t":"stat","k":name,"v":int}                          additive counter
    {"t":"max","k":name,"v":int}                           max counter
    {"t":"sample","v":...}                                 a case, written out
    {"t":"note","v":...}                                   free text for evidence
    {"t":"done"}                                           harness finished normally
A harness that ends without "done" (crash, timeout) is a harness error (exit 2),
never a silent pass.
"""
import concurrent.futures
import hashlib
import json
import os
import re
import shlex
import subprocess
import sys
import time

VERIF = os.path.dirname(os.path.dirname(os.path.abspath(__file__)))
REPO = os.environ.get("XTL_VERIF_REPO", "/repo")
INCLUDE = os.path.join(REPO, "include")
BUILD = os.path.join(VERIF, "build")
CACHE = os.path.join(BUILD, "cache")
NCPU = os.cpu_count() or 4

ASAN_FLAGS = [
    "-fsanitize=address",
    "-fsanitize-recover=address",
    "-fsanitize-address-use-after-scope",
    "-fno-omit-frame-pointer",
]
# memory-safety subset of UBSan only (see DESIGN.md section 2)
# bounds/null reports are recoverable: the report hook (engine/report.hpp) sets the sanitizer flag, the explorers attribute it to the
# (state, operation) they are executing, and run_harness() turns any report nobody attributed into a violation of its own
UBSAN_FLAGS = ["-fsanitize=bounds,null,return,unreachable", "-fno-sanitize-recover=undefined", "-fsanitize-recover=bounds,null"]
ASAN_ENV = "handle_segv=0:handle_abort=0:handle_sigfpe=0:handle_sigbus=0:handle_sigill=0:halt_on_error=0:detect_leaks=1:allocator_may_return_null=1:abort_on_error=0:exitcode=0"


class HarnessError(Exception):
    pass


def sh(cmd, **kw):
    return subprocess.run(cmd, stdout=subprocess.PIPE, stderr=subprocess.PIPE, text=True, **kw)


def _hash(*parts):
    h = hashlib.sha256()
    for p in parts:
        if isinstance(p, str):
            p = p.encode()
        h.update(p)
        h.update(b"\0")
    return h.hexdigest()[:24]


def compile_cxx(src, name, std="c++14", opt="-O1", san="asan", compiler="g++", flags=(), libs=(), defines=(),
                syntax_only=False, extra_srcs=(), expect_fail=False):
    """Compile src against REPO's current headers. Returns path of the binary.

    The object cache is keyed by the hash of the *preprocessed* translation unit(s)
    plus the full command line, so any edit of a header under REPO that reaches
    the harness always recompiles (DESIGN.md: "Build from the working tree").
    """
    os.makedirs(CACHE, exist_ok=True)
    base = [compiler, "-std=" + std, "-I" + INCLUDE, "-I" + os.path.join(VERIF, "engine"),
            "-I" + os.path.join(VERIF, "refs")]
    base += ["-D" + d for d in defines]
    base += list(flags)
    cmd = list(base) + [opt, "-g1"]
    if san == "asan":
        cmd += ASAN_FLAGS + UBSAN_FLAGS
    elif san == "asan-only":
        cmd += ASAN_FLAGS
    elif san == "asan-ubrecover":
        # UBSan's bounds/null checks in recover mode: a report calls __ubsan_on_report (engine/report.hpp sets the sanitizer
        # flag) and execution continues, so the explorer can attribute it to the (state, operation) instead of dying
        cmd += ASAN_FLAGS + ["-fsanitize=bounds,null", "-fsanitize-recover=bounds,null"]
    elif san == "none":
        pass
    else:
        raise ValueError(san)
    srcs = [src] + list(extra_srcs)
    pre = []
    for s in srcs:
        r = subprocess.run(base + ["-E", "-P", s], stdout=subprocess.PIPE, stderr=subprocess.PIPE)
        if r.returncode != 0:
            if expect_fail:
                return None
            raise HarnessError("preprocess failed: %s\n%s" % (" ".join(base + ["-E", s]), r.stderr.decode()[-4000:]))
        pre.append(r.stdout)
    key = _hash(" ".join(cmd), " ".join(libs), *pre)
    out = os.path.join(CACHE, "%s-%s" % (name, key))
    if syntax_only:
        marker = out + ".ok"
        if os.path.exists(marker):
            return marker
        r = sh(cmd + ["-fsyntax-only"] + srcs)
        if r.returncode != 0:
            if expect_fail:
                return None
            raise HarnessError("compile failed: %s\n%s" % (" ".join(cmd), r.stderr[-6000:]))
        open(marker, "w").close()
        return marker
    if os.path.exists(out):
        return out
    tmp = out + ".tmp%d" % os.getpid()
    r = sh(cmd + srcs + ["-o", tmp] + list(libs))
    if r.returncode != 0:
        if expect_fail:
            return None
        raise HarnessError("compile failed: %s\n%s" % (" ".join(cmd + srcs), r.stderr[-8000:]))
    os.replace(tmp, out)
    return out


def parallel(jobs, workers=NCPU):
    """jobs: list of zero-arg callables; returns results in order, re-raises first error."""
    with concurrent.futures.ThreadPoolExecutor(max_workers=workers) as ex:
        futs = [ex.submit(j) for j in jobs]
        return [f.result() for f in futs]


class Ctx:
    def __init__(self, pid, tier, level, seed):
        self.pid = pid
        self.tier = tier
        self.level = level
        self.seed = seed
        self.t0 = time.time()
        self.stats = {}
        self.maxes = {}
        self.samples = []
        self.notes = []
        self.viols = []  # dicts: sig,msg,replay(harness,args)
        self.assumptions = []
        self.exhaustive = True
        self.caps = []
        self.rule = ""
        self.errors = []
        self.deadline = self.t0 + float(os.environ.get("VERIF_DEADLINE_S", 420 if tier == "quick" else 3000))

    # ---- collecting -----------------------------------------------------
    def stat(self, k, v):
        self.stats[k] = self.stats.get(k, 0) + int(v)

    def smax(self, k, v):
        self.maxes[k] = max(self.maxes.get(k, 0), int(v))

    def sample(self, v):
        if len(self.samples) < 12:
            self.samples.append(v)

    def note(self, v):
        if v not in self.notes:
            self.notes.append(v)

    def violation(self, sig, msg, harness=None, args=None, src=None, build=None):
        self.viols.append({"sig": sig, "msg": msg, "harness": harness, "args": args or [], "src": src, "build": build})

    def cap(self, what):
        self.exhaustive = False
        self.caps.append(what)

    def time_left(self):
        return self.deadline - time.time()

    # ---- running harnesses ---------------------------------------------
    def run_harness(self, binary, args=(), timeout=None, env=None, tag=None, src=None, build=None, allow_rc=(0,)):
        """Run a harness, parse its @@ lines into this context. Returns the list of parsed records."""
        e = dict(os.environ)
        e["ASAN_OPTIONS"] = ASAN_ENV
        e["UBSAN_OPTIONS"] = "print_stacktrace=1"
        if env:
            e.update(env)
        if timeout is None:
            # generous: harnesses end themselves through their own --deadline; a harness that is started late on an overloaded
            # machine (compilation used up the tier's budget) must still get at least the minimum deadline the checks hand out
            timeout = max(300, self.time_left() + 300)
        t = time.time()
        try:
            r = subprocess.run([binary] + list(args), stdout=subprocess.PIPE, stderr=subprocess.PIPE, env=e, timeout=timeout)
        except subprocess.TimeoutExpired as ex:
            raise HarnessError("harness timeout after %ss: %s %s" % (timeout, binary, " ".join(args)))
        out = r.stdout.decode("utf-8", "replace")
        err = r.stderr.decode("utf-8", "replace")
        recs = []
        done = False
        for line in out.splitlines():
            if not line.startswith("@@"):
                continue
            try:
                rec = json.loads(line[2:])
            except Exception:
                raise HarnessError("bad harness line: %r" % line[:300])
            recs.append(rec)
            t_ = rec.get("t")
            if t_ == "viol":
                self.violation(rec["sig"], rec.get("msg", ""), harness=tag or os.path.basename(binary),
                               args=rec.get("replay", []), src=src, build=build)
            elif t_ == "stat":
                self.stat(rec["k"], rec["v"])
            elif t_ == "max":
                self.smax(rec["k"], rec["v"])
            elif t_ == "sample":
                self.sample(rec["v"])
            elif t_ == "note":
                self.note(rec["v"])
            elif t_ == "cap":
                self.cap(rec["v"])
            elif t_ == "crashed":
                # the harness attributed a hard crash to the step it was executing (reported as a violation just before)
                done = True
                self.cap("%s %s: run ended by %s, attributed to the reported step; the rest of the space was not explored" % (tag or os.path.basename(binary), " ".join(args)[:120], rec.get("v")))
                allow_rc = tuple(allow_rc) + (3,)
            elif t_ == "done":
                done = True
        n_viol = sum(1 for x in recs if x.get("t") == "viol")
        if not n_viol:
            # a sanitizer report that no harness step claimed (ASan/UBSan run in recover mode with exit code 0): never silent
            san = [l for l in err.splitlines() if "ERROR: AddressSanitizer" in l or ": runtime error: " in l or "ERROR: LeakSanitizer" in l]
            if san:
                what = re.sub(r"0x[0-9a-f]+|==\d+==", "", san[0]).strip()
                kind = "leak" if "LeakSanitizer" in san[0] else "ubsan" if "runtime error" in san[0] else "asan:" + (what.split("AddressSanitizer:")[1].split()[0] if "AddressSanitizer:" in what else "report")
                self.violation("%s/%s/unattributed-sanitizer-report/%s" % (self.pid, tag or os.path.basename(binary), kind),
                               "harness run %s: %d sanitizer report(s) outside any reported step; first: %s" % (" ".join(args)[:200], len(san), what[:300]),
                               harness=tag or os.path.basename(binary), args=list(args), src=src, build=build)
                n_viol = 1
        if (not done or r.returncode not in allow_rc) and n_viol:
            # the run died after it had reported violations (typically memory corrupted by the violating step): keep what was
            # reported - bin/check replays every counterexample before believing it - and record that the space was not finished
            self.cap("%s %s: run ended abnormally (rc=%s) after reporting %d violation(s); the rest of the space was not explored" % (
                tag or os.path.basename(binary), " ".join(args)[:120], r.returncode, n_viol))
            return recs
        if not done or r.returncode not in allow_rc:
            raise HarnessError("harness %s %s ended abnormally rc=%s (no 'done' record=%s)\nstdout tail:\n%s\nstderr tail:\n%s" % (
                binary, " ".join(args), r.returncode, not done, out[-1500:], err[-3000:]))
        self.stat("harness_runs", 1)
        return recs


# ---- known findings ------------------------------------------------------

def load_known():
    p = os.path.join(VERIF, "known_findings.json")
    if not os.path.exists(p):
        return {"known": [], "fixed": []}
    return json.load(open(p))


def match_known(pid, sig, known):
    for k in known.get("known", []):
        if k["property"] == pid and re.fullmatch(k["sig"], sig):
            return k
    return None


# ---- evidence --------------------------------------------------------------

def write_evidence(ctx, n_viol, n_known):
    cov = {}
    cov.update({k: v for k, v in ctx.stats.items()})
    cov.update({k: v for k, v in ctx.maxes.items()})
    cov["samples"] = ctx.samples
    cov["exhaustive"] = bool(ctx.exhaustive)
    cov["rule"] = ctx.rule
    if ctx.caps:
        cov["caps_hit"] = ctx.caps
    if ctx.notes:
        cov["notes"] = ctx.notes
    if ctx.level == "model_checking":
        cov.setdefault("states", 0)
        cov.setdefault("transitions", 0)
        cov.setdefault("traces_validated_against_impl", cov["transitions"])
    cov.setdefault("evaluations", cov.get("transitions", 0))
    cov.setdefault("distinct_nontrivial", cov.get("states", 0))
    cov["known_findings_hit"] = n_known
    ev = {
        "property_id": ctx.pid,
        "tier": ctx.tier,
        "seed": ctx.seed,
        "level": ctx.level,
        "coverage": cov,
        "assumptions": ctx.assumptions,
        "wall_s": round(time.time() - ctx.t0, 2),
        "violations": n_viol,
    }
    # evidence/ only ever describes runs against /repo itself; runs against a scratch copy (seeded changes, proposed
    # fixes: XTL_VERIF_REPO) write to build/evidence-scratch/ instead
    evdir = os.path.join(VERIF, "evidence") if os.path.realpath(REPO) == "/repo" else os.path.join(BUILD, "evidence-scratch")
    os.makedirs(evdir, exist_ok=True)
    path = os.path.join(evdir, ctx.pid + ".json")
    tmp = path + ".tmp"
    with open(tmp, "w") as f:
        json.dump(ev, f, indent=1, sort_keys=True)
        f.write("\n")
    os.replace(tmp, path)
    return path
