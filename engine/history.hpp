// E2: history explorer with fault injection (DESIGN.md section 1.1).
//
// For objects that cannot be snapshotted (lifetime-tracked payloads registered by address, global registries) a
// state is the *history that reaches it*: a list of (operation, fault index) pairs replayed on a fresh World.
// From every known state every operation instance is executed once unfaulted — which also measures the number K of
// throw points the operation reaches in that state — and then once for every k = 1..K with the k-th throw point
// throwing. A World must provide
//     World()                       fresh world (registry already reset by the explorer)
//     std::string key() const       canonical observable state (model + whatever of the implementation can influence the future)
//     void light(vf::Errs&)         cheap agreement of implementation and model, evaluated after EVERY transition
//     void check(vf::Errs&)         all invariants and queries against the model, evaluated in every NEW state
// and the destructor tears everything down; afterwards the lifetime registry must be empty.
#ifndef VERIF_HISTORY_HPP
#define VERIF_HISTORY_HPP

#include "explorer.hpp"
#include "payload.hpp"

#include <algorithm>
#include <chrono>
#include <deque>
#include <functional>
#include <memory>
#include <string>
#include <unordered_map>
#include <vector>

namespace vf
{
    template <class World>
    struct HistoryExplorer
    {
        struct Op
        {
            std::string kind, name;
            // executes the operation on the implementation AND updates the model, including the model's rule for a
            // fault (the function catches pl::Injected itself); returns false if not applicable in this state
            std::function<bool(World&, Errs&)> f;
        };
        struct Step { int op; int fault; };
        struct Node { int parent; Step step; int depth; };

        std::string prop, inst;
        std::vector<Op> ops;
        int max_depth = 1 << 30;
        long long max_states = 1LL << 40;
        double deadline_s = 1e18;

        std::vector<Node> nodes;
        std::unordered_map<std::string, int> index;
        long long full_checks = 0;
        long long transitions = 0, faulted_transitions = 0, replays = 0, inapplicable = 0, viol_transitions = 0, steps_executed = 0;
        int depth_reached = 0;
        bool complete = true, state_cap_hit = false;
        std::map<std::string, std::pair<long long, long long>> per_kind;   // kind -> (transitions, faulted)
        std::map<int, long long> k_hist;

        void add_op(const std::string& kind, const std::string& name, std::function<bool(World&, Errs&)> f) { ops.push_back(Op{kind, name, std::move(f)}); }

        std::vector<Step> history(int node) const
        {
            std::vector<Step> h;
            for (int n = node; n > 0; n = nodes[size_t(n)].parent) h.push_back(nodes[size_t(n)].step);
            std::reverse(h.begin(), h.end());
            return h;
        }
        std::string trace(const std::vector<Step>& h) const
        {
            std::string s;
            for (size_t i = 0; i < h.size(); ++i)
            {
                if (i) s += ";";
                s += ops[size_t(h[i].op)].name;
                if (h[i].fault) s += "!" + str(h[i].fault);
            }
            return s;
        }

        // executes one step; returns false if inapplicable. points = throw points reached (meaningful when fault == 0)
        bool exec(World& w, const Step& st, Errs& e, int& points)
        {
            pl::Reg& r = pl::Reg::get();
            bool ok;
            {
                r.countdown = st.fault;
                r.points = 0;
                ok = ops[size_t(st.op)].f(w, e);
                points = r.points;
                r.countdown = 0;
                r.armed = false;
            }
            ++steps_executed;
            for (auto& s : r.errors) e.add("lifetime", s);
            r.errors.clear();
            if (take_asan()) e.add("asan", "AddressSanitizer report during the operation");
            return ok;
        }

        struct Outcome { bool applicable; bool violated; std::string key; int points; };

        // replays history h on a fresh world, then executes `last`; judges only the last step (earlier ones were judged before)
        Outcome run_one(const std::vector<Step>& h, const Step& last, Errs& e, bool verbose = false, bool always_full = false)
        {
            Outcome out{true, false, "", 0};
            cur_h_ = h; cur_last_ = last; cur_phase_ = "while replaying the history / executing the last step";
            pl::Reg::get().reset();
            {
                World w;
                int pts = 0;
                for (auto& st : h)
                {
                    Errs dummy;
                    exec(w, st, dummy, pts);
                    if (verbose) std::printf("replay: %s%s -> %s\n", ops[size_t(st.op)].name.c_str(), st.fault ? ("!" + str(st.fault)).c_str() : "", jesc(w.key()).c_str());
                }
                ++replays;
                if (last.op >= 0)
                {
                    out.applicable = exec(w, last, e, out.points);
                    if (!out.applicable && e.empty()) return out;   // world torn down by scope exit
                    // a requested fault that was never reached would silently be a fault-free run: harness error
                    if (last.fault > 0 && last.fault > out.points && e.empty()) e.add("harness", "fault index beyond the throw points reached");
                }
                out.key = w.key();
                if (e.empty())
                {
                    cur_phase_ = "while querying the state the last step produced";
                    w.light(e);
                    if (e.empty() && (always_full || index.find(out.key) == index.end())) { w.check(e); ++full_checks; }
                    pl::Reg& r = pl::Reg::get();
                    for (auto& s : r.errors) e.add("lifetime", s);
                    r.errors.clear();
                    if (take_asan()) e.add("asan", "AddressSanitizer report while querying the state");
                }
                if (verbose && last.op >= 0) std::printf("replay: %s%s -> %s %s\n", ops[size_t(last.op)].name.c_str(), last.fault ? ("!" + str(last.fault)).c_str() : "", jesc(out.key).c_str(), e.empty() ? "ok" : "VIOLATION");
                cur_phase_ = "while tearing the world down after the last step";
            }
            cur_phase_ = "";
            // teardown happened: every tracked object must be gone
            pl::Reg& r = pl::Reg::get();
            for (auto& s : r.errors) e.add("lifetime-teardown", s);
            if (!r.live.empty()) e.add("leak", str(r.live.size()) + " tracked object(s) still alive after every container was destroyed");
            if (!r.own_blocks.empty()) e.add("leak", str(r.own_blocks.size()) + " block(s) obtained from a payload's own operator new were never given back to its operator delete");
            if (take_asan()) e.add("asan", "AddressSanitizer report during teardown");
            out.violated = !e.empty();
            return out;
        }

        void report(const Errs& e, const std::vector<Step>& h, const Step& last)
        {
            std::vector<Step> full(h);
            if (last.op >= 0) full.push_back(last);
            std::string tr = trace(full);
            std::string kind = last.op >= 0 ? ops[size_t(last.op)].kind : "init";
            for (auto& kv : e.v)
                violation(prop + "/" + inst + "/" + kind + (last.fault ? "!fault" : "") + "/" + kv.first, "after [" + tr + "]: " + kv.second, {"--replay", inst, tr});
        }

        std::vector<Step> cur_h_;
        Step cur_last_{-1, 0};
        const char* cur_phase_ = "";

        void install_crash_attribution()
        {
            install_crash_handler();
            crash_hook() = [this](const char* what) {
                Errs e;
                e.add("crash", std::string("the process died with ") + what + " " + cur_phase_);
                report(e, cur_h_, cur_last_);
            };
        }

        void run()
        {
            auto t0 = std::chrono::steady_clock::now();
            install_crash_attribution();
            {
                Errs e;
                Outcome o = run_one({}, Step{-1, 0}, e, false, true);
                nodes.push_back(Node{-1, Step{-1, 0}, 0});
                index.emplace(o.key, 0);
                if (!e.empty()) { report(e, {}, Step{-1, 0}); nodes[0].depth = 1 << 30; }
            }
            for (size_t cur = 0; cur < nodes.size(); ++cur)
            {
                int depth = nodes[cur].depth;
                if (depth >= max_depth) { if (depth < (1 << 30)) complete = false; continue; }
                std::vector<Step> h = history(int(cur));
                bool out_of_time = false;
                for (size_t oi = 0; oi < ops.size(); ++oi)
                {
                    if ((oi & 15) == 0)
                    {
                        double el = std::chrono::duration<double>(std::chrono::steady_clock::now() - t0).count();
                        if (el > deadline_s) { out_of_time = true; break; }
                    }
                    int K = 0;
                    for (int k = 0; k <= K; ++k)
                    {
                        Errs e;
                        Step st{int(oi), k};
                        Outcome o = run_one(h, st, e);
                        if (!o.applicable && e.empty()) { ++inapplicable; break; }
                        if (k == 0) { K = o.points; k_hist[K]++; }
                        ++transitions;
                        auto& pk = per_kind[ops[oi].kind];
                        pk.first++;
                        if (k) { ++faulted_transitions; pk.second++; }
                        if (o.violated) { ++viol_transitions; report(e, h, st); continue; }
                        auto it = index.find(o.key);
                        if (it != index.end()) continue;
                        if ((long long)nodes.size() >= max_states) { complete = false; state_cap_hit = true; continue; }
                        index.emplace(o.key, int(nodes.size()));
                        nodes.push_back(Node{int(cur), st, depth + 1});
                        if (depth + 1 > depth_reached) depth_reached = depth + 1;
                    }
                }
                if (out_of_time)
                {
                    complete = false;
                    cap(prop + "/" + inst + ": deadline reached after fully expanding " + str(cur) + " of " + str(nodes.size()) + " known states");
                    break;
                }
            }
        }

        bool replay(const std::string& tr)
        {
            std::vector<Step> h;
            size_t p = 0;
            while (p <= tr.size() && !tr.empty())
            {
                size_t q = tr.find(';', p);
                if (q == std::string::npos) q = tr.size();
                std::string n = tr.substr(p, q - p);
                p = q + 1;
                int fault = 0;
                size_t bang = n.rfind('!');
                if (bang != std::string::npos && bang + 1 < n.size() && std::isdigit((unsigned char)n[bang + 1])) { fault = std::atoi(n.c_str() + bang + 1); n = n.substr(0, bang); }
                int oi = -1;
                for (size_t i = 0; i < ops.size(); ++i) if (ops[i].name == n) oi = int(i);
                if (oi < 0) { std::printf("replay: unknown operation '%s'\n", n.c_str()); return false; }
                h.push_back(Step{oi, fault});
            }
            Step last{-1, 0};
            if (!h.empty()) { last = h.back(); h.pop_back(); }
            Errs e;
            install_crash_attribution();
            Outcome o = run_one(h, last, e, true, true);
            if (o.violated) report(e, h, last);
            return true;
        }

        void summarize(bool fixpoint_expected = true)
        {
            stat("states", (long long)nodes.size());
            stat("transitions", transitions);
            stat("faulted_transitions", faulted_transitions);
            stat("traces_validated_against_impl", transitions);
            stat("history_replays", replays);
            stat("full_state_checks", full_checks);
            stat("steps_executed", steps_executed);
            stat("inapplicable_instances_skipped", inapplicable);
            stat("violating_transitions", viol_transitions);
            smax("max_depth", depth_reached);
            std::string kinds, ks;
            for (auto& kv : per_kind) kinds += kv.first + ":" + str(kv.second.first) + "/" + str(kv.second.second) + " ";
            for (auto& kv : k_hist) ks += "K=" + str(kv.first) + ":" + str(kv.second) + " ";
            note(prop + "/" + inst + ": states=" + str(nodes.size()) + " transitions=" + str(transitions) + " (faulted " + str(faulted_transitions) + ") depth=" + str(depth_reached) +
                 (complete ? " FIXPOINT (frontier empty)" : " BOUNDED") + " ops=" + str(ops.size()) + " throw points per unfaulted transition: " + ks + " per-kind transitions/faulted: " + kinds);
            if (state_cap_hit) cap(prop + "/" + inst + ": state cap " + str(max_states) + " reached");
            if (!complete && fixpoint_expected) cap(prop + "/" + inst + ": search did not reach fixpoint (bounded)");
            size_t best = 0;
            for (size_t i = 0; i < nodes.size(); ++i)
                if (nodes[i].depth < (1 << 30) && (nodes[i].depth > nodes[best].depth || (nodes[i].depth == nodes[best].depth && nodes[i].step.fault > nodes[best].step.fault))) best = i;
            if (!nodes.empty()) sample(inst + ": [" + trace(history(int(best))) + "]", 1 << 20);
        }
    };
}

#endif
