// Harness side of the protocol described in engine/vlib.py.
#ifndef VERIF_REPORT_HPP
#define VERIF_REPORT_HPP

#include <cstdint>
#include <cstdio>
#include <cstdlib>
#include <cstring>
#include <csignal>
#include <signal.h>
#include <functional>
#include <unistd.h>
#include <map>
#include <set>
#include <sstream>
#include <string>
#include <vector>

namespace vf
{
    inline std::string jesc(const std::string& s)
    {
        std::string o;
        for (unsigned char c : s)
        {
            if (c == '"' || c == '\\') { o += '\\'; o += char(c); }
            else if (c == '\n') o += "\\n";
            else if (c == '\t') o += "\\t";
            else if (c < 0x20 || c >= 0x7f) { char b[8]; std::snprintf(b, sizeof b, "\\u%04x", c); o += b; }
            else o += char(c);
        }
        return o;
    }

    struct reporter
    {
        std::map<std::string, int> per_sig;
        std::map<std::string, long long> stats;
        std::map<std::string, long long> maxes;
        int samples = 0;
        long long total_viol = 0;
        static reporter& get() { static reporter r; return r; }
    };

    // one violation; at most 1 full record per signature is printed, the rest only counted
    inline void violation(const std::string& sig, const std::string& msg, const std::vector<std::string>& replay = {})
    {
        reporter& r = reporter::get();
        r.total_viol++;
        int& n = r.per_sig[sig];
        if (n++ > 0) return;
        if (r.per_sig.size() > 400) return;
        std::string a = "[";
        for (size_t i = 0; i < replay.size(); ++i) { if (i) a += ","; a += "\"" + jesc(replay[i]) + "\""; }
        a += "]";
        std::printf("@@{\"t\":\"viol\",\"sig\":\"%s\",\"msg\":\"%s\",\"replay\":%s}\n", jesc(sig).c_str(), jesc(msg).c_str(), a.c_str());
        std::fflush(stdout);
    }
    inline void stat(const std::string& k, long long v = 1) { reporter::get().stats[k] += v; }
    inline void smax(const std::string& k, long long v) { long long& m = reporter::get().maxes[k]; if (v > m) m = v; }
    inline void sample(const std::string& s, int limit = 4)
    {
        reporter& r = reporter::get();
        if (r.samples >= limit) return;
        r.samples++;
        std::printf("@@{\"t\":\"sample\",\"v\":\"%s\"}\n", jesc(s).c_str());
    }
    inline void note(const std::string& s) { std::printf("@@{\"t\":\"note\",\"v\":\"%s\"}\n", jesc(s).c_str()); }
    inline void cap(const std::string& s) { std::printf("@@{\"t\":\"cap\",\"v\":\"%s\"}\n", jesc(s).c_str()); }
    inline bool& finished() { static bool f = false; return f; }
    inline void done()
    {
        reporter& r = reporter::get();
        for (auto& kv : r.stats) std::printf("@@{\"t\":\"stat\",\"k\":\"%s\",\"v\":%lld}\n", jesc(kv.first).c_str(), kv.second);
        for (auto& kv : r.maxes) std::printf("@@{\"t\":\"max\",\"k\":\"%s\",\"v\":%lld}\n", jesc(kv.first).c_str(), kv.second);
        for (auto& kv : r.per_sig)
            if (kv.second > 1) std::printf("@@{\"t\":\"note\",\"v\":\"%s occurred %d times\"}\n", jesc(kv.first).c_str(), kv.second);
        std::printf("@@{\"t\":\"done\"}\n");
        std::fflush(stdout);
        finished() = true;
    }

    template <class T>
    inline std::string str(const T& v) { std::ostringstream o; o << v; return o.str(); }

    // ---- hard crashes (SIGSEGV, SIGABRT, ...) are attributed to the step that was executing: the explorers register
    // a hook that reports a violation for their current (state, operation); the run then ends with a "crashed" record.
    inline std::function<void(const char*)>& crash_hook() { static std::function<void(const char*)> h; return h; }
    inline void on_fatal_signal(int sig)
    {
        static volatile int in = 0;
        if (in++) _exit(4);
        const char* name = sig == SIGSEGV ? "SIGSEGV" : sig == SIGABRT ? "SIGABRT" : sig == SIGFPE ? "SIGFPE" : sig == SIGBUS ? "SIGBUS" : sig == SIGILL ? "SIGILL" : "signal";
        if (crash_hook()) crash_hook()(name);
        reporter& r = reporter::get();
        for (auto& kv : r.stats) std::printf("@@{\"t\":\"stat\",\"k\":\"%s\",\"v\":%lld}\n", jesc(kv.first).c_str(), kv.second);
        std::printf("@@{\"t\":\"crashed\",\"v\":\"%s\"}\n", name);
        std::fflush(stdout);
        _exit(3);
    }
    // a sanitizer report that cannot be recovered from (UBSan in abort mode, a fatal ASan error) ends in the runtime's Die():
    // the death callback attributes it exactly like a fatal signal
    inline void on_sanitizer_death()
    {
        static volatile int in = 0;
        if (finished() || in++) return;
        if (crash_hook()) crash_hook()("a fatal sanitizer report (the sanitizer runtime aborted the process)");
        reporter& r = reporter::get();
        for (auto& kv : r.stats) std::printf("@@{\"t\":\"stat\",\"k\":\"%s\",\"v\":%lld}\n", jesc(kv.first).c_str(), kv.second);
        std::printf("@@{\"t\":\"crashed\",\"v\":\"sanitizer abort\"}\n");
        std::fflush(stdout);
        _exit(3);
    }
}
extern "C" __attribute__((weak)) void __sanitizer_set_death_callback(void (*callback)(void));
namespace vf
{
    inline void install_crash_handler()
    {
        // the handler runs on its own stack, so that a stack overflow (runaway recursion) is attributed like any other crash
        static char* alt = nullptr;
        if (!alt)
        {
            const size_t sz = 1 << 18;
            alt = static_cast<char*>(std::malloc(sz));
            stack_t ss;
            ss.ss_sp = alt; ss.ss_size = sz; ss.ss_flags = 0;
            sigaltstack(&ss, nullptr);
        }
        int sigs[] = {SIGSEGV, SIGABRT, SIGFPE, SIGBUS, SIGILL};
        for (int s : sigs)
        {
            struct sigaction sa;
            std::memset(&sa, 0, sizeof sa);
            sa.sa_handler = on_fatal_signal;
            sa.sa_flags = SA_ONSTACK | SA_NODEFER;
            sigemptyset(&sa.sa_mask);
            sigaction(s, &sa, nullptr);
        }
        if (&__sanitizer_set_death_callback) __sanitizer_set_death_callback(on_sanitizer_death);
    }

    // ---- sanitizer as oracle: ASan runs in recover mode, the hook sets a flag ----
    inline int& asan_flag() { static int f = 0; return f; }
    inline bool take_asan() { int f = asan_flag(); asan_flag() = 0; return f != 0; }
}

#if defined(__has_feature)
#if __has_feature(address_sanitizer)
#define VERIF_ASAN 1
#endif
#endif
#if defined(__SANITIZE_ADDRESS__)
#define VERIF_ASAN 1
#endif
#ifdef VERIF_ASAN
extern "C" __attribute__((used, weak)) void __asan_on_error() { vf::asan_flag() = 1; }
#endif
// UBSan calls this for every report (before dying in abort mode, before continuing in recover mode)
extern "C" __attribute__((used, weak)) void __ubsan_on_report(void) { vf::asan_flag() = 1; }

#endif
