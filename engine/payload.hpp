// Lifetime-tracked element types and the global registry used by the E2 harnesses (C05, C06, C11).
//
// Every tracked object registers construction, destruction and every read of its value in a table keyed by
// address. Constructing on a live address, destroying or reading a dead one, or ending a scenario with live
// objects are lifetime violations. Each object also owns a heap cell so that AddressSanitizer / LeakSanitizer
// see double frees and leaks independently of the registry.
//
// Fault injection: "throw points" are the copy/move constructors and assignments of the throwing-capable
// variants. While armed, each throw point increments pl::points(); if pl::countdown() reaches zero there, it throws
// pl::Injected. The explorer first runs an operation unfaulted to learn how many points K it reaches and then
// re-runs it with countdown = 1..K: every point at which an element can throw, not a sample.
#ifndef VERIF_PAYLOAD_HPP
#define VERIF_PAYLOAD_HPP

#include <cstddef>
#include <cstdio>
#include <cstdlib>
#include <new>
#include <map>
#include <string>
#include <vector>

namespace pl
{
    struct Injected { int at; };

    struct Reg
    {
        std::map<const void*, int> live;   // address -> tag
        std::map<const void*, const void*> cell_at;   // address -> heap cell of the object constructed there (address sensitivity)
        std::map<const void*, int> own_blocks;        // memory handed out by a payload's class-specific operator new (OwnNew) -> tag
        std::vector<std::string> errors;
        long long constructed = 0, destroyed = 0;
        int countdown = 0;   // 0 = no fault pending
        int points = 0;      // throw points reached while armed
        bool armed = false;
        static Reg& get() { static Reg r; return r; }
        void reset()
        {
            live.clear(); cell_at.clear(); own_blocks.clear(); errors.clear(); constructed = destroyed = 0; countdown = 0; points = 0; armed = false;
        }
        void err(const std::string& s) { if (errors.size() < 8) errors.push_back(s); }
    };

    inline void throw_point(const char* what)
    {
        Reg& r = Reg::get();
        if (!r.armed) return;
        ++r.points;
        if (r.countdown > 0 && --r.countdown == 0) { (void)what; throw Injected{r.points}; }
    }

    inline std::string hexaddr(const void* p) { char b[32]; std::snprintf(b, sizeof b, "%p", p); return b; }

    template <std::size_t PAD> struct Pad { unsigned char pad[PAD]; };
    template <> struct Pad<0> {};
    struct Cell { int v; bool moved; };

    // TAG distinguishes types; PAD pads the object; NT_MOVE: move constructor is noexcept; TH_COPY / TH_MOVE / TH_ASSIGN:
    // the respective operation is a throw point; ALIGN: alignment requirement.
    // NT_COPY: the copy constructor is declared noexcept (it then must not be a throw point)
    // NT_MASSIGN: 0 = move assignment is noexcept exactly when the move constructor is (NT_MOVE); 1 = move assignment is noexcept
    // (and never a throw point) although the move constructor may throw
    template <int TAG, std::size_t PAD, bool NT_MOVE, bool TH_COPY, bool TH_MOVE, bool TH_ASSIGN, std::size_t ALIGN = alignof(void*), bool NT_COPY = false, bool NT_MASSIGN = false>
    struct alignas(ALIGN) Tracked : Pad<PAD>
    {
        static const int tag = TAG;
        Cell* cell;                      // heap cell holding the value (double free / leak => ASan/LSan); sizeof(Tracked) == 8 + PAD

        void born()
        {
            Reg& r = Reg::get();
            if (r.live.count(this)) r.err("object constructed on an address that already holds a live object (" + std::to_string(TAG) + ")");
            r.live[this] = TAG;
            r.cell_at[this] = cell;
            ++r.constructed;
        }
        static void use(const Tracked* p, const char* what)
        {
            Reg& r = Reg::get();
            auto it = r.live.find(p);
            if (it == r.live.end()) r.err(std::string(what) + " of an object that is not alive (never constructed or already destroyed), type tag " + std::to_string(TAG));
            else if (it->second != TAG) r.err(std::string(what) + " of an object of a different type");
            else if (r.cell_at[p] != p->cell) r.err(std::string(what) + " of an object whose representation was not put at this address by one of its constructors (bytes relocated or exchanged without move construction), type tag " + std::to_string(TAG));
        }

        explicit Tracked(int v) : cell(new Cell{v, false}) { born(); }
        Tracked(const Tracked& o) noexcept(NT_COPY) : cell(nullptr)
        {
            use(&o, "copy-construction from");
            if (TH_COPY) throw_point("copy ctor");
            cell = o.cell ? new Cell(*o.cell) : new Cell{-777, false};
            born();
        }
        Tracked(Tracked&& o) noexcept(NT_MOVE) : cell(nullptr)
        {
            use(&o, "move-construction from");
            if (TH_MOVE) throw_point("move ctor");
            cell = o.cell ? new Cell(*o.cell) : new Cell{-777, false};
            if (o.cell) o.cell->moved = true;
            born();
        }
        Tracked& operator=(const Tracked& o)
        {
            use(this, "copy-assignment to");
            use(&o, "copy-assignment from");
            if (TH_ASSIGN) throw_point("copy assign");
            if (cell && o.cell) *cell = *o.cell;
            return *this;
        }
        Tracked& operator=(Tracked&& o) noexcept(NT_MOVE || NT_MASSIGN)
        {
            use(this, "move-assignment to");
            use(&o, "move-assignment from");
            if ((TH_ASSIGN || TH_MOVE) && !NT_MASSIGN) throw_point("move assign");
            if (cell && o.cell && this != &o) { *cell = *o.cell; o.cell->moved = true; }
            return *this;
        }
        ~Tracked()
        {
            Reg& r = Reg::get();
            auto it = r.live.find(this);
            if (it == r.live.end()) r.err("destructor run on an object that is not alive (double destruction or never constructed), type tag " + std::to_string(TAG));
            else
            {
                if (r.cell_at[this] != cell) r.err("destructor run on an object whose representation was not put at this address by one of its constructors (bytes relocated or exchanged without move construction), type tag " + std::to_string(TAG));
                r.live.erase(it);
                r.cell_at.erase(this);
            }
            ++r.destroyed;
            delete cell;
            cell = nullptr;
        }
        int value() const { use(this, "read"); return cell ? cell->v : -888; }
        void set(int v) { use(this, "write"); if (cell) { cell->v = v; cell->moved = false; } }
        bool moved_from() const { return cell ? cell->moved : false; }
        friend bool operator==(const Tracked& a, const Tracked& b) { return a.value() == b.value(); }
        friend bool operator!=(const Tracked& a, const Tracked& b) { return a.value() != b.value(); }
        friend bool operator<(const Tracked& a, const Tracked& b) { return a.value() < b.value(); }
        friend bool operator>(const Tracked& a, const Tracked& b) { return a.value() > b.value(); }
        friend bool operator<=(const Tracked& a, const Tracked& b) { return a.value() <= b.value(); }
        friend bool operator>=(const Tracked& a, const Tracked& b) { return a.value() >= b.value(); }
    };

    // An alternative whose copy and move ASSIGNMENT are defaulted (trivial) while construction and destruction are not:
    // a container may assign such objects bytewise when both sides already hold one, but must never replace
    // construction/destruction by a byte copy. The registry records which type was constructed at which address.
    template <int TAG>
    struct TrivAssign
    {
        static const int tag = TAG;
        int v;
        void born()
        {
            Reg& r = Reg::get();
            if (r.live.count(this)) r.err("object constructed on an address that already holds a live object (" + std::to_string(TAG) + ")");
            r.live[this] = TAG;
            ++r.constructed;
        }
        static void use(const TrivAssign* p, const char* what)
        {
            Reg& r = Reg::get();
            auto it = r.live.find(p);
            if (it == r.live.end()) r.err(std::string(what) + " of an object that is not alive (never constructed or already destroyed), type tag " + std::to_string(TAG));
            else if (it->second != TAG) r.err(std::string(what) + " of an object of type tag " + std::to_string(TAG) + " at an address where an object of type tag " + std::to_string(it->second) + " was constructed (and never destroyed)");
        }
        explicit TrivAssign(int x) : v(x) { born(); }
        TrivAssign(const TrivAssign& o) : v(o.v) { use(&o, "copy-construction from"); born(); }
        TrivAssign(TrivAssign&& o) noexcept : v(o.v) { use(&o, "move-construction from"); born(); }
        TrivAssign& operator=(const TrivAssign&) = default;
        TrivAssign& operator=(TrivAssign&&) = default;
        ~TrivAssign()
        {
            Reg& r = Reg::get();
            auto it = r.live.find(this);
            if (it == r.live.end()) r.err("destructor run on an object that is not alive (double destruction or never constructed), type tag " + std::to_string(TAG));
            else
            {
                if (it->second != TAG) r.err("destructor of type tag " + std::to_string(TAG) + " run at an address where an object of type tag " + std::to_string(it->second) + " was constructed");
                r.live.erase(it);
            }
            ++r.destroyed;
        }
        int value() const { use(this, "read"); return v; }
        bool moved_from() const { return false; }
        friend bool operator==(const TrivAssign& a, const TrivAssign& b) { return a.value() == b.value(); }
        friend bool operator!=(const TrivAssign& a, const TrivAssign& b) { return a.value() != b.value(); }
        friend bool operator<(const TrivAssign& a, const TrivAssign& b) { return a.value() < b.value(); }
        friend bool operator>(const TrivAssign& a, const TrivAssign& b) { return a.value() > b.value(); }
        friend bool operator<=(const TrivAssign& a, const TrivAssign& b) { return a.value() <= b.value(); }
        friend bool operator>=(const TrivAssign& a, const TrivAssign& b) { return a.value() >= b.value(); }
    };


    // A payload with CLASS-SPECIFIC allocation functions (pool / aligned allocators, e.g. EIGEN_MAKE_ALIGNED_OPERATOR_NEW): a
    // container that creates such an object with a new-expression must release it with the matching delete-expression, so that
    // T::operator new and T::operator delete always see each other's blocks. The registry records every block T::operator new hands
    // out; T::operator delete on a foreign block, and a block never given back, are lifetime violations. The placement forms are
    // declared too (a class-scope operator new hides the global placement form), so in-place construction stays well-formed.
    template <class Base>
    struct OwnNew : Base
    {
        using Base::Base;
        static void* operator new(std::size_t n)
        {
            void* p = std::malloc(n ? n : 1);
            if (!p) throw std::bad_alloc();
            Reg::get().own_blocks[p] = Base::tag;
            return p;
        }
        static void operator delete(void* p) noexcept
        {
            if (!p) return;
            Reg& r = Reg::get();
            auto it = r.own_blocks.find(p);
            if (it == r.own_blocks.end())
            {
                r.err("T::operator delete was handed memory that T::operator new did not allocate (the object was created and released with mismatching allocation functions), type tag " + std::to_string(Base::tag));
                ::operator delete(p);
                return;
            }
            r.own_blocks.erase(it);
            std::free(p);
        }
        static void* operator new(std::size_t, void* where) noexcept { return where; }
        static void operator delete(void*, void*) noexcept {}
    };

    // arms the throw points for the duration of one implementation call
    // (the explorer has already set countdown and reset points for this step)
    struct Arm
    {
        Arm() { Reg::get().armed = true; }
        ~Arm() { Reg::get().armed = false; }
    };
}

#endif
